"""C17 — mechanisms are immutable once loaded; rule-level overrides stay local."""
import collections
import copy
import json
import os
import subprocess
import time

import gen_mech
import vlib

PID = "C17"
GEN = os.path.join(vlib.LEAN, "HeimdallModel", "Gen", "Footprints.lean")

STUB = """-- GENERATED stub: the footprint extractor failed on the current working tree (see the check's output)
import HeimdallModel.Model.Footprint

namespace Heimdall.Gen
open Heimdall.Footprint

def footprints : List Row := [
  { kind := "extractor", typ := "extractor", method := "failed", fields := [], reads := [], writes := [],
    globals := [], ext := [], unknown := [("extractor", "failed")] }
]

end Heimdall.Gen
"""


def regenerate(R):
    """Gen/Footprints.lean from the current source (go/ssa). Returns (error text or None, details)."""
    exe = os.path.join(R.tmp, "footprint")
    details = os.path.join(R.tmp, "footprints.json")
    err, out = None, None
    p = subprocess.run(["go", "build", "-o", exe, "."], cwd=os.path.join(vlib.VERIF, "extract", "footprint"),
                       env=vlib.go_env(), capture_output=True, text=True)
    if p.returncode != 0:
        err = "extractor does not build: " + p.stderr[-800:]
    else:
        p = subprocess.run([exe, "-repo", vlib.REPO, "-json", details], env=vlib.go_env(), capture_output=True, text=True,
                           timeout=600)
        if p.returncode != 0:
            err = "extractor failed closed: " + (p.stderr or p.stdout)[-1200:]
        else:
            out = p.stdout
    with vlib.LeanLock():
        old = open(GEN).read() if os.path.exists(GEN) else ""
        new = out if out is not None else STUB
        if old != new:
            with open(GEN, "w") as fh:
                fh.write(new)
    info = {}
    if out is not None:
        with open(details) as fh:
            info = json.load(fh)
    return err, info


def dirty_rows(info):
    trusted, tsync = trusted_list("trustedExt"), trusted_list("trustedSync")
    res = []
    for e in info.get("entries", []):
        if e["kind"] == "reload":
            continue
        bad = [dict(w, list=k) for k in ("writes", "globals", "unknown") for w in (e.get(k) or [])]
        bad += [dict(w, list="ext") for w in (e.get("ext") or []) if w["what"] not in trusted]
        bad += [dict(w, list="sync") for w in (e.get("sync") or []) if w["what"] not in tsync]
        if bad:
            res.append({"kind": e["kind"], "type": e["type"], "method": e["method"], "effects": bad})
    return res


def shared_factory_state(dirty):
    """rows of the factory itself, or of a WithConfig, with a write / foreign call on shared memory"""
    return [d for d in dirty if d["kind"] == "factory" or d["type"] in ("mechanismsFactory", "mechanismRepository")
            or d["method"] == "WithConfig"]


# package-level variables of the mechanism packages and of the packages templates / expressions / values are built
# from, as of the reviewed tree (sentinel errors are not listed: type `error`).  A variable that is not on the list
# is no violation - what it does may well be harmless - but state kept per PROCESS is exactly what the write footprint
# of a mechanism method cannot see when the write happens inside a library (text/template's shared name space of the
# templates derived from one base template): the run then also tries the named-template and the look-alike grids.
KNOWN_PACKAGE_STATE = {
    "internal/rules/mechanisms.Module",
    "internal/rules/mechanisms/authenticators.authenticatorTypeFactories",
    "internal/rules/mechanisms/authenticators.authenticatorTypeFactoriesMu",
    "internal/rules/mechanisms/authorizers.authorizerTypeFactories",
    "internal/rules/mechanisms/authorizers.authorizerTypeFactoriesMu",
    "internal/rules/mechanisms/cellib.errType", "internal/rules/mechanisms/cellib.errTypeDef",
    "internal/rules/mechanisms/cellib.ipNetworksType",
    "internal/rules/mechanisms/contextualizers.typeFactories", "internal/rules/mechanisms/contextualizers.typeFactoriesMu",
    "internal/rules/mechanisms/errorhandlers.errorHandlerTypeFactories",
    "internal/rules/mechanisms/errorhandlers.errorHandlerTypeFactoriesMu",
    "internal/rules/mechanisms/finalizers.typeFactories", "internal/rules/mechanisms/finalizers.typeFactoriesMu",
}


def new_package_state(info):
    """package-level variables (other than sentinel errors) the reviewed tree does not have"""
    return [v for v in info.get("package_state") or []
            if v.get("type") != "error" and v["pkg"] + "." + v["name"] not in KNOWN_PACKAGE_STATE]


def trusted_list(name):
    src = open(os.path.join(vlib.LEAN, "HeimdallModel", "Model", "Footprint.lean")).read()
    body = src.split("def %s : List String := [" % name, 1)[1].split("]", 1)[0]
    return set(json.loads("[" + body + "]"))


# ---------------------------------------------------------------------------------------------------------------
# running cases

def objects(case):
    """the objects the factory hands out, in order: (op index, index within `creates` or None, spec dict)"""
    res = []
    for i, op in enumerate(case["ops"]):
        if op["op"] == "create":
            res.append((i, None, op))
        elif op["op"] == "par":
            res += [(i, j, cr) for j, cr in enumerate(op.get("creates") or [])]
    return res


def with_eff(case, model):
    """the effective configurations computed by the model (and, where it differs, the one the specification demands)
    travel to the implementation side, which loads each of them as a catalogue entry of its own and compares the
    result with the object the factory handed out"""
    c = copy.deepcopy(case)
    effs = model.get("eff", []) if isinstance(model, dict) else []
    specs = model.get("eff_spec", []) if isinstance(model, dict) else []
    for k, (_, _, spec) in enumerate(objects(c)):
        spec["eff"] = effs[k] if k < len(effs) else None
        spec["eff_spec"] = specs[k] if k < len(specs) else None
    # what the model says an execution renders (own template texts of the named-template fragment, own definitions)
    wants = model.get("want", []) if isinstance(model, dict) else []
    # ... and the requests it sends to the endpoint of its mechanism, where that endpoint is an observed one
    calls = model.get("want_calls", []) if isinstance(model, dict) else []
    for i, op in enumerate(c["ops"]):
        if op["op"] == "exec" and i < len(wants) and wants[i] is not None:
            op["want"] = wants[i]
        if op["op"] == "exec" and i < len(calls) and calls[i] is not None:
            op["want_calls"] = calls[i]
    return c


def run_both(exe, cases, env=None, timeout=1500):
    model = vlib.run_cases(vlib.driver_cmd(), cases)
    impl = vlib.run_cases([exe], [with_eff(c, m) for c, m in zip(cases, model)], env=env, timeout=timeout)
    return model, impl


def behaves_like_reference(case, gr, handle):
    """(number of executions of the handle that agreed with the reference object, number that did not)"""
    same = differ = 0
    for i, op in enumerate(case["ops"]):
        if op["op"] == "exec" and op["h"] == handle and i < len(gr) and gr[i].get("ran"):
            if gr[i].get("ref"):
                same += 1
            else:
                differ += 1
    return same, differ


def earlier_creations(case, i):
    """number of creations for the same catalogue entry before operation i (a plain `create`)"""
    op = case["ops"][i]
    if op.get("op") != "create":
        return 0
    n = 0
    for o in case["ops"][:i]:
        if o["op"] == "create" and (o["kind"], o["id"]) == (op["kind"], op["id"]):
            n += 1
        elif o["op"] == "par":
            n += sum(1 for cr in o.get("creates") or [] if (cr["kind"], cr["id"]) == (op["kind"], op["id"]))
    return n


def client_settings(case, handle):
    """what the HTTP client of the object's endpoint is built from, for the report"""
    objs = objects(case)
    if handle is None or handle >= len(objs):
        return "?"
    spec = objs[handle][2]
    for e in case["catalogue"]:
        if (e["kind"], e["id"]) == (spec["kind"], spec["id"]):
            ep = e["config"].get("endpoint") or e["config"].get("identity_info_endpoint") or {}
            ttl = (spec.get("config") or {}).get("cache_ttl", e["config"].get("cache_ttl"))
            return (f"{ep.get('method', 'POST')} {ep.get('url')}, http_cache: {json.dumps(ep.get('http_cache'))}, "
                    f"retry: {json.dumps(ep.get('retry'))}, cache_ttl: {ttl}")
    return "?"


def explain(case, i, a, b, ob, gr, handle, what_op):
    """why the answers for an object handed out / an operation differ: (text, property level)"""
    if b.get("changed"):
        return (f"{what_op} changed the mechanism object(s) handed out as number(s) {b['changed']}: a loaded mechanism "
                "was modified", True)
    if b.get("st") == "ok" and a.get("st") == "ok" and b.get("ref") is False and a.get("ref") is True:
        same, differ = behaves_like_reference(case, gr, handle) if handle is not None else (0, 0)
        if same and not differ and "ref_error" not in ob:
            return (f"{what_op}: the object differs structurally from the same configuration loaded on its own, but "
                    f"answered {same} request(s) like it (representation only)", False)
        return (f"{what_op}: the object a rule gets is not the catalogue configuration overlaid with the rule's own "
                "settings (differs from the same configuration loaded on its own)", True)
    if b.get("ran") and b.get("rendered") is False and a.get("rendered") is True:
        det = ob.get("rendering") or {}
        if det.get("not_rendered"):
            why = (f"expected {json.dumps(det['not_rendered'])[:200]} (its own template text rendered with its own "
                   "named templates) in what the execution produced")
        else:
            why = "its template uses a named template it does not define, and was rendered nevertheless"
        return (f"{what_op}: the object did not render its own template — {why}: what a mechanism renders depends on "
                "templates of other objects created in the same process (named templates: define / block / template)",
                True)
    if b.get("ran") and "calls" in a and b.get("calls") != a.get("calls"):
        own = client_settings(case, handle)
        return (f"{what_op}: the endpoint of the mechanism received {b.get('calls')} request(s) during this execution, "
                f"the object's own configuration ({own}) and its own earlier executions mean {a.get('calls')}: what a "
                "mechanism does (whether a response is reused and for how long, whether a request is repeated) depends on "
                "which other mechanisms of the process were executed before - state shared between the HTTP clients of "
                "endpoints", True)
    if b.get("ran") and b.get("ref") is False and a.get("ref") is True:
        return (f"{what_op}: the object answered differently from the same configuration loaded on its own", True)
    if b.get("par_ok") is False:
        return (f"{what_op}: concurrent executions answered differently from the same executions done alone", True)
    if a.get("st") == "config" and b.get("st") == "ok" and earlier_creations(case, i):
        return (f"{what_op}: a rule-level config the mechanism refuses (when it is the first one the factory sees) was "
                f"accepted after {earlier_creations(case, i)} earlier creation(s) for the same catalogue entry: the rule "
                "got a variant although its own config is no legal override", True)
    if a.get("st") == "ok" and b.get("st") == "config" and earlier_creations(case, i):
        return (f"{what_op}: a rule-level config the mechanism accepts was refused after "
                f"{earlier_creations(case, i)} earlier creation(s) for the same catalogue entry", True)
    return (f"{what_op}: implementation {json.dumps(b, sort_keys=True)[:300]} ≠ model "
            f"{json.dumps(a, sort_keys=True)[:300]}", False)


def judge(case, m, g):
    """None if implementation and model agree on the case, else (what, property_level, op index, details)"""
    if isinstance(g, dict) and "crash" in g:
        race = "DATA RACE" in g["crash"] or g.get("rc") == 66
        return ("data race reported by the race detector while mechanisms were executed concurrently" if race else
                "process crashed while mechanisms were created / executed", True, None, {"stderr": g["crash"][-6000:]})
    mr, gr = vlib.res_of(m), vlib.res_of(g)
    if not isinstance(mr, list) or not isinstance(gr, list) or len(mr) != len(gr):
        return ("model / harness error: " + json.dumps({"model": m, "impl": g})[:600], False, None, {})
    obs = g.get("obs", []) if isinstance(g, dict) else []
    handle = 0
    for i, (a, b) in enumerate(zip(mr, gr)):
        op = case["ops"][i]
        ob = obs[i] if i < len(obs) else {}
        first = handle
        handle += 1 if op["op"] == "create" else len(op.get("creates") or []) if op["op"] == "par" else 0
        if a == b:
            continue
        label = f"{op['op']} (operation {i}" + (f", config {json.dumps(op.get('config'))}" if op["op"] == "create" else "") + ")"
        if op["op"] == "par" and not b.get("changed") and b.get("par_ok") is not False:
            # one of the objects created during the batch
            for j, (ca, cb) in enumerate(zip(a.get("created") or [], b.get("created") or [])):
                if ca != cb:
                    cob = (ob.get("created") or [{}] * (j + 1))[j]
                    txt, prop = explain(case, i, ca, cb, cob, gr, first + j,
                                        f"variant {j} created during the concurrent batch (operation {i}, config "
                                        f"{json.dumps(op['creates'][j].get('config'))})")
                    return (txt, prop, i, {"obs": cob})
        txt, prop = explain(case, i, a, b, ob, gr, first if op["op"] == "create" else op.get("h") if op["op"] == "exec"
                            else None, label)
        return (txt, prop, i, {"obs": ob})
    return None


def spec_verdicts(case, m, g):
    """impl vs SPEC ("the rule's own setting always wins") for every object handed out whose specified effective
    configuration differs from the model's: [(known finding id or None, text, details)]"""
    res = []
    if not isinstance(m, dict) or not isinstance(g, dict):
        return res
    gr, obs = vlib.res_of(g), g.get("obs") or []
    zeros = m.get("zero_ignored") or []
    if not isinstance(gr, list):
        return res
    for k, (i, j, spec) in enumerate(objects(case)):
        ob = obs[i] if i < len(obs) else {}
        if j is not None:
            ob = (ob.get("created") or [{}] * (j + 1))[j]
        verdict = ob.get("spec")
        if verdict in ("differs", "unloadable"):
            zi = zeros[k] if k < len(zeros) else []
            text = (f"rule config {json.dumps(spec.get('config'))}: the object handed out is not the catalogue entry "
                    f"overlaid with the rule's own settings ({verdict}" + (f"; zero-valued setting(s) {zi} taken for "
                    "'not set'" if zi else "") + ")")
            res.append(("C17-zero-override" if zi else None, text, {"operation": i, "created": j, "obs": ob}))
    return res


def project(case, keep):
    """the case restricted to the operations `keep` (indices), handles renumbered; operations that refer to a
    dropped create are dropped as well"""
    hmap, ops, nh, old_h = {}, [], 0, 0
    for i, op in enumerate(case["ops"]):
        made = 1 if op["op"] == "create" else len(op.get("creates") or []) if op["op"] == "par" else 0
        if i not in keep:
            old_h += made
            continue
        o = copy.deepcopy(op)
        if o["op"] == "exec":
            if o["h"] not in hmap:
                continue
            o["h"] = hmap[o["h"]]
        elif o["op"] == "par":
            pairs = [(hmap[h], r) for h, r in zip(o["hs"], o.get("reqs") or [{}] * len(o["hs"])) if h in hmap]
            if not pairs:
                old_h += made
                continue
            o["hs"] = [p[0] for p in pairs]
            o["reqs"] = [p[1] for p in pairs]
        for k in range(made):
            hmap[old_h + k] = nh + k
        old_h += made
        nh += made
        ops.append(o)
    used = {(o["kind"], o["id"]) for o in ops if o["op"] == "create"}
    used |= {(cr["kind"], cr["id"]) for o in ops if o["op"] == "par" for cr in o.get("creates") or []}
    cat = [e for e in case["catalogue"] if (e["kind"], e["id"]) in used] or case["catalogue"][:1]
    return {"fam": "mech", "catalogue": cat, "ops": ops}


def shrink(exe, case, what_class, env=None):
    def fails(keep):
        c = project(case, set(keep))
        if not c["ops"]:
            return False
        m, g = run_both(exe, [c], env=env, timeout=300)
        j = judge(c, m[0], g[0])
        return j is not None and j[1] == what_class

    idx = list(range(len(case["ops"])))
    try:
        keep = vlib.ddmin(idx, fails)
    except Exception:
        keep = idx
    return project(case, set(keep))


# ---------------------------------------------------------------------------------------------------------------

def run(R):
    t_start = time.time()
    phases = {}

    def lap(name, t0):
        phases[name] = round(phases.get(name, 0) + time.time() - t0, 1)

    t0 = time.time()
    err, info = regenerate(R)
    lap("extract_footprints", t0)
    t0 = time.time()
    lean_ok = vlib.step_lean(R, PID)
    lap("lean_incl_waiting_for_the_project_lock", t0)
    # both tiers run the implementation under the race detector: the interleaving of WithConfig with Execute and
    # first uses at the same time are part of every batch
    race = True
    os.environ.setdefault("VERIF_MECH_TMP", R.tmp)
    env = dict(os.environ, GORACE="halt_on_error=1 exitcode=66", VERIF_MECH_TMP=R.tmp)
    t0 = time.time()
    exe, log = vlib.build_harness(R.tmp, race=race, pid=PID)
    lap("harness_build", t0)
    if exe is None:
        R.violation("harness does not build against the repository", {"build_log": log[-3000:]}, no_input=True)
        return
    corpus = vlib.load_corpus(PID)
    n, ncold, nlook, nnamed, nclient = (132, 28, 48, 24, 32) if R.tier == "quick" else (4000, 800, 1200, 600, 800)
    cases = corpus + [gen_mech.gen_case(R.rng) for _ in range(n)] + [gen_mech.gen_cold_case(R.rng) for _ in range(ncold)]
    # look-alike overrides: one factory creates, for the same catalogue entry, variants from configs that differ in type
    # or structure but print alike (some of them refused by the type's decoder), in any order
    look = [gen_mech.gen_lookalike_case(R.rng) for _ in range(nlook)]
    cases += look
    # named templates: the same template name declared differently in the catalogue prototype, in rule-level overrides
    # and in other mechanisms of the process, both creation orders, every earlier object executed after each creation
    named = [gen_mech.gen_named_case(R.rng) for _ in range(nnamed)]
    cases += named
    # endpoint clients: mechanisms of one process that talk to the same host with different `retry` / `http_cache`
    # settings, executed in any interleaving, each with a cache of its own; observed: the requests the endpoint receives
    client = [gen_mech.gen_client_case(R.rng) for _ in range(nclient)]
    cases += client
    t0 = time.time()
    model, impl = run_both(exe, cases, env=env)
    lap("stream", t0)

    stats = collections.Counter()
    by_type, by_status, exec_err = collections.Counter(), collections.Counter(), collections.Counter()
    nontrivial, behaviour = set(), {}
    concrete, structural = [], []
    for c, m, g in zip(cases, model, impl):
        j = judge(c, m, g)
        if j is not None:
            (concrete if j[1] else structural).append((c, m, g, j))
        if isinstance(m, dict):
            for k, v in (m.get("stats") or {}).items():
                stats[k] += v
        mr, gr = vlib.res_of(m), vlib.res_of(g)
        if not isinstance(mr, list) or not isinstance(gr, list):
            continue
        types = {(e["kind"], e["id"]): e for e in c["catalogue"]}
        obs = g.get("obs", []) if isinstance(g, dict) else []
        effs = m.get("eff", []) if isinstance(m, dict) else []
        hinfo = []
        for k, (i, j, spec) in enumerate(objects(c)):
            r = gr[i] if i < len(gr) else {}
            if j is not None:
                r = (r.get("created") or [{}] * (j + 1))[j] if r.get("ran") else {}
            e = types.get((spec["kind"], spec["id"]))
            t = (spec["kind"] + "/" + e["type"]) if e else "missing"
            by_type[t] += 1
            st = r.get("st", "?")
            by_status[("during batch: " if j is not None else "") +
                      (st if st != "ok" else ("prototype" if r.get("alias") else "variant"))] += 1
            conf = spec.get("config") or {}
            if spec.get("invalid"):
                stats["creates_with_rejected_value"] += 1
            if e and any(conf == z for z in gen_mech.ZERO.get((e["kind"], e["type"]), [])):
                stats["creates_with_zero_valued_setting"] += 1
            if st == "ok" and not r.get("alias"):
                nontrivial.add((t, tuple(sorted(conf.keys())), j is not None,
                                tuple(sorted(x for x, v in (r.get("shared") or {}).items() if v == "fresh"))))
            hinfo.append((t + "#" + spec["id"], effs[k] if k < len(effs) else None) if st == "ok" else None)
        for known, text, det in spec_verdicts(c, m, g):
            if known:
                R.known_hits[known] = R.known_hits.get(known, 0) + 1
                stats["spec_deviation_known_zero_override"] += 1
            else:
                R.violation("implementation ≠ specification: " + text, {"case": c, "details": det, "kind": "spec"},
                            no_input=False)
        for i, op in enumerate(c["ops"]):
            r = gr[i] if i < len(gr) else {}
            ob = obs[i] if i < len(obs) else {}
            if op["op"] == "exec" and r.get("ran"):
                out = ob.get("out")
                if ob.get("inconclusive") or (out or {}).get("inconclusive"):
                    stats["inconclusive_executions"] += 1
                elif out is not None:
                    exec_err[out.get("err", "?")] += 1
                    hi = hinfo[op["h"]] if op["h"] < len(hinfo) else None
                    if hi is not None:
                        key = vlib.canon([hi[0], hi[1], op["req"]])
                        behaviour.setdefault(key, {}).setdefault(vlib.canon(out), (c, i))
            elif op["op"] == "par" and r.get("ran"):
                stats["concurrent_batches"] += 1
                stats["concurrent_executions"] += ob.get("executions", 0)
                stats["inconclusive_executions"] += ob.get("inconclusive", 0)
                stats["variants_created_during_execution"] += ob.get("created_concurrently", 0)

    dirty = dirty_rows(info)
    # The static footprint reports state that the creations of one factory share (a map / sync.Map / cache field written
    # by mechanismsFactory.Create* or by a WithConfig) and the stream above shows nothing concrete: what such state can
    # do to "each rule observes the catalogue configuration overlaid with its OWN overrides" is to hand a rule the
    # variant of an earlier one.  Try exactly those histories: every type x every look-alike family x every ordered
    # pair of members.
    # The same for state per process: a package-level variable the reviewed tree does not have in the packages the
    # mechanisms (and their templates, expressions, values) are built from - a `sync.Once` / `sync.OnceValue`, a lazily
    # filled map.  What it holds may live inside a library where the footprint cannot look (the name space of named
    # templates shared by all templates derived from one base template): every template site x form of named template x
    # history shape (prototype / override / other mechanism, both orders) is tried as well.
    # State written on the REQUEST path (a dirty row of an `Execute`: a lazily filled table of clients, connections,
    # compiled programs): what it can do to the property is to make what one mechanism does depend on which other
    # mechanism was executed first.  Every type with an endpoint x ordered pair of different client settings, two
    # mechanisms of one process executed in both orders, is tried (`client_grid`).
    searched = 0
    new_state = new_package_state(info)
    exec_state = [d for d in dirty if d["method"] == "Execute"]

    def search(grid):
        nonlocal searched, concrete, cases
        t0 = time.time()
        searched += len(grid)
        gm, gi = run_both(exe, grid, env=env)
        for c, m, g in zip(grid, gm, gi):
            j = judge(c, m, g)
            if j is not None:
                (concrete if j[1] else structural).append((c, m, g, j))
        cases += grid
        lap("grid_search", t0)

    if (shared_factory_state(dirty) or new_state) and not concrete:
        search(gen_mech.lookalike_grid(R.rng) + gen_mech.named_grid(R.rng))
    if (exec_state or new_state) and not concrete:
        search(gen_mech.client_grid(R.rng))

    # All cases of a run go through ONE harness process.  Where the state of the process is what is wrong (a table
    # filled on first use), a case may fail because of what an EARLIER case has executed and pass when replayed on its
    # own.  A report has to be a replay that stands alone: the candidates are run again, each in a process of its own,
    # and the first ones that show the violation there are reported (and shrunk); if none of the first candidates
    # does, the client grid (small self-contained histories, both orders) is searched the same way, and only then the
    # run falls back to reporting what it saw in the shared process.
    t0 = time.time()

    def standing_alone(cands, limit, want):
        out = []
        for c, m, g, j in cands[:limit]:
            if len(out) >= want:
                break
            if j[2] is None:          # a crash / data race: the report of the run that showed it
                out.append((c, m, g, j))
                continue
            am, ag = run_both(exe, [c], env=env, timeout=300)
            ja = judge(c, am[0], ag[0])
            if ja is not None and ja[1]:
                out.append((c, am[0], ag[0], ja))
        return out

    reports = standing_alone(concrete, 8, 3)
    if concrete and not reports and any("the endpoint of the mechanism received" in x[3][0] for x in concrete):
        before = len(concrete)
        search(gen_mech.client_grid(R.rng))
        reports = standing_alone(concrete[before:], 12, 3)
    if concrete and not reports:
        reports = concrete[:3]
    lap("confirm_alone", t0)
    t0 = time.time()
    for k, (c, m, g, j) in enumerate(reports):
        what, _, i, details = j
        # every probe of the shrinker is a harness process of its own (the state of a process is part of what is
        # searched): the first report is always shrunk, the others while the quick budget lasts
        small = shrink(exe, c, True, env=env) if i is not None and (k == 0 or time.time() - t_start < 45) else c
        sm, sg = run_both(exe, [small], env=env, timeout=300)
        if judge(small, sm[0], sg[0]) is None:
            small, sm, sg = c, [m], [g]
        j2 = judge(small, sm[0], sg[0]) or j
        if i is None:   # a crash / data race: keep the report of the run that showed it
            j2 = j
        extra = ""
        if dirty:
            extra = " [static footprint: " + "; ".join(f"{d['type']}.{d['method']} writes "
                                                     f"{sorted({w['what'] for w in d['effects']})[:2]}" for d in dirty[:2]) + "]"
        R.violation(j2[0] + extra, {"case": small, "impl": vlib.res_of(sg[0]), "model": vlib.res_of(sm[0]),
                                   "details": j2[3], "dirty_footprints": dirty[:6], "kind": "property"}, no_input=False)
    lap("shrink", t0)
    # the behaviour of a mechanism object is a function of (type, id, effective configuration, request): whatever else
    # was created or executed before, in the same or in any other case, must not matter
    nhist = 0
    for key, outs in behaviour.items():
        if len(outs) > 1:
            nhist += 1
            if nhist > 3:
                continue
            (o1, (c1, i1)), (o2, (c2, i2)) = list(outs.items())[:2]
            same_obj = c1 is c2 and c1["ops"][i1]["h"] == c2["ops"][i2]["h"]
            R.violation(("one mechanism object answered the same request differently at two points of one history "
                         f"(operations {i1} and {i2}): what a loaded mechanism does was changed by what was created or "
                         "executed in between" if same_obj else
                         "two mechanism objects of the same type and id with the same effective configuration answered the "
                         "same request differently: the behaviour of a rule's mechanism depends on what else was loaded or "
                         "executed"), {"case": c1, "operation": i1, "impl": json.loads(o1), "other_case": c2,
                                      "other_operation": i2, "other_impl": json.loads(o2), "key": json.loads(key),
                                      "kind": "history"}, no_input=False)
    if nhist:
        R.coverage["history_oracle_keys_with_two_answers"] = nhist
    for c, m, g, j in structural[:3]:
        small = shrink(exe, c, False, env=env)
        sm, sg = run_both(exe, [small], env=env, timeout=300)
        if judge(small, sm[0], sg[0]) is None:
            small, sm, sg = c, [m], [g]
        j2 = judge(small, sm[0], sg[0]) or j
        R.violation("implementation ≠ model: " + j2[0], {"case": small, "impl": vlib.res_of(sg[0]),
                                                        "model": vlib.res_of(sm[0]), "details": j2[3],
                                                        "kind": "correspondence"}, no_input=False)

    if err:
        R.violation("write footprints could not be extracted from the mechanism packages: " + err, {"error": err},
                    no_input=True)
    if not lean_ok:
        what = ("theorems / obligations of Props/C17.lean no longer check"
                + (": the regenerated write footprints are not clean — " + "; ".join(
                    f"{d['type']}.{d['method']}: " + ", ".join(sorted({w['kind'] + ' ' + w['what'] + ' @' + w['pos']
                                                                     for w in d['effects']})[:3]) for d in dirty[:4])
                   if dirty else ": " + "; ".join(R.lean["failed"])[:600]))
        # the search for a concrete input is the run above (every mechanism type with a dirty row is generated and
        # executed there, alone and concurrently)
        R.violation(what, {"lean_log": R.lean["log"][-3000:], "failed": R.lean["failed"], "dirty_footprints": dirty,
                           "kind": "obligation"}, no_input=True)

    nops = sum(len(c["ops"]) for c in cases)
    R.coverage.update({
        "evaluations": nops, "distinct_nontrivial": len(nontrivial),
        "rule": "operations (create / execute / concurrent batch with executions and creations at the same time) on the "
                "real mechanism factory, every object handed out so far deep-dumped after each operation; non-trivial = "
                "a creation that produced a variant; distinct by (mechanism type, keys of the override, created during a "
                "batch or not, reference fields replaced)",
        "known_finding_hits": dict(R.known_hits),
        "phase_wall_s": phases,
        "cases": len(cases), "corpus_cases": len(corpus), "lookalike_cases": len(look), "named_template_cases": len(named),
        "endpoint_client_cases": len(client),
        "grid_cases_searched_because_of_dirty_footprint_or_new_package_state_or_history_dependent_traffic": searched,
        "package_state_variables": len(info.get("package_state") or []),
        "package_state_not_in_reviewed_tree": [v["pkg"] + "." + v["name"] + " : " + v["type"] +
                                               (" := " + v["init"] + "(…)" if v.get("init") else "")
                                               for v in new_state],
        "creates_by_type": dict(by_type),
        "creates_by_outcome": dict(by_status), "executions_by_outcome": dict(exec_err),
        "behaviour_keys": len(behaviour), "model_stats": dict(stats), "race_detector": race,
        "footprint_rows": len(info.get("entries", [])), "footprint_functions_analysed": info.get("functions_analysed"),
        "footprint_dirty_rows": len(dirty), "footprint_notes": info.get("notes", []),
        "samples": [cases[len(corpus)]] if len(cases) > len(corpus) else cases[:1],
    })
    R.assumptions += [
        "the write footprints come from a static analysis (go/ssa, flow-insensitive, field-insensitive below the "
        "receiver's own fields, taint of receiver / package-variable derived references, interface calls resolved over "
        "all module types, function values over all address-taken module functions with identical signature) that "
        "over-approximates writes made by module code and reports EVERY call of a function outside the module that is "
        "handed shared memory (receiver or argument, directly or inside a local object); what such a function does is "
        "not analysed: the calls must be on Footprint.trustedExt (44 reviewed entries: pure readers of their arguments, "
        "APIs documented as safe for concurrent use, key-material readers incl. go-jose (*JSONWebKey).Thumbprint, v4.0.4 "
        "jwk.go:388 reviewed). Not covered: reflection, unsafe, cgo, goroutines started by libraries, values that escape "
        "into per-request state",
        "reload callbacks (jwtSigner.OnChanged, HTTPMessageSignatures.OnChanged) replace key material of objects "
        "mechanisms share: excluded from 'never changes' (C16 owns what a reload does), covered only by the obligation "
        "that they write under the write lock and the jwt finalizer reads under the read lock; a reload is not exercised",
        "templates: the model renders the fragment of text/template that can carry state from one template to another "
        "(literal text, `.Subject.ID` / `.Request.Method`, define / block / template) with the template's OWN "
        "definitions; the implementation side looks for that rendering in what the execution produced (upstream headers "
        "/ cookies, claims of the issued JWT, outputs, redirect target, the request echoed by the test server), quoting "
        "and white space aside (the named-template cases are built so that the execution gets as far as rendering); every other template (pipelines, sprig functions, "
        "if / range / with, variables, comments, delimiters) is compared as before: behaviour of the object = behaviour "
        "of its effective configuration loaded on its own, and equal (type, id, configuration, request) => equal answer "
        "over the whole run. text/template and sprig themselves are trusted",
        "value-level validation of a rule's config is not modelled: operations marked `invalid` by the generator are "
        "taken as rejected (Override.valuesOk = false) and the run checks the rejection and that nothing changed",
        "runtime influence between variants through a shared cache (prototype and variants share the id, a prefix of "
        "the cache keys) is excluded: sequential executions run without cache, every goroutine of a batch has a cache "
        "of its own, and the executions whose upstream traffic is observed (endpoint-client cases) run with a cache "
        "per OBJECT, always with the same request per catalogue entry (C10 / C11 own caching and cache keys)",
        "endpoint clients: the model (Model/MechClient.lean) says how many requests the endpoint of a generic "
        "contextualizer / remote authorizer / generic authenticator receives per execution, from the object's own "
        "effective configuration (retry, http_cache.enabled, http_cache.default_ttl, method, payload, cache_ttl) and "
        "its own earlier executions; modelled rather than verified: the upstream of the test world answers without "
        "freshness information (or 503 to everything), httpretry repeats a 503 five times, lifetimes are either zero or "
        "long (30m / 1h: nothing expires during a run), durations are spelled canonically; jwks / metadata / "
        "introspection / token endpoints are not observed this way",
        "memory newly allocated by WithConfig is private to it until it returns (the machine allocates and "
        "initialises a cell in one step)",
        "data-race freedom is a runtime property: the model shows the absence of conflicting accesses w.r.t. the "
        "extracted footprints; supporting evidence: race detector over concurrent executions, also of first uses "
        "(thorough tier)",
        "per-type overlay rules (which key replaces / merges into which field) are a hand-written table "
        "(Model/MechTypes.lean) validated by the correspondence run: sharing pattern per field, and deep equality + "
        "equal behaviour of every variant with the model's effective configuration loaded as a prototype of its own",
        "known finding C17-zero-override: where the code tells 'set' from 'not set' by the zero value (strings, lists, "
        "templates) a rule cannot set the zero value; the model follows the code, the specification (own setting always "
        "wins) is evaluated next to it and the deviation is counted for exactly that input class",
    ]


def replay(R, path):
    with open(path) as fh:
        p = json.load(fh)
    R.coverage.update({"obligations": 1, "discharged": 1, "checker_cmd": "replay", "trusted_base": []})
    if "case" not in p:
        err, info = regenerate(R)
        d = dirty_rows(info)
        print(json.dumps(d, indent=1)[:4000])
        if err or d:
            R.violation("replay: write footprints not clean: " + (err or json.dumps(d)[:400]), {"dirty_footprints": d},
                        no_input=True)
        return
    regenerate(R)
    with vlib.LeanLock():
        vlib.lake(["build", "driver"])
    env = dict(os.environ, GORACE="halt_on_error=1 exitcode=66", VERIF_MECH_TMP=R.tmp)
    exe, log = vlib.build_harness(R.tmp, race=True, pid=PID)
    if exe is None:
        R.violation("harness does not build", {"build_log": log[-3000:]}, no_input=True)
        return
    cases = [p["case"]] + ([p["other_case"]] if "other_case" in p else [])
    for _ in range(20 if "stderr" in json.dumps(p.get("details", {})) else 1):
        m, g = run_both(exe, cases, env=env)
        for c, mm, gg in zip(cases, m, g):
            j = judge(c, mm, gg)
            if j is not None:
                print("reproduced:", j[0])
                print(json.dumps(j[3], indent=1)[:6000])
                R.violation("replay reproduces: " + j[0], {"case": c, "impl": vlib.res_of(gg), "model": vlib.res_of(mm)})
                return
    if p.get("kind") == "history":
        outs = []
        m, g = run_both(exe, cases, env=env)
        for c, gg, i in zip(cases, g, (p["operation"], p["other_operation"])):
            outs.append((gg.get("obs") or [])[i].get("out"))
        print(json.dumps(outs, indent=1))
        if len(outs) == 2 and outs[0] != outs[1]:
            R.violation("replay reproduces: same effective configuration, same request, different answers",
                        {"case": cases[0], "impl": outs})
