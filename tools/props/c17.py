"""C17 — mechanisms are immutable once loaded; rule-level overrides stay local."""
import collections
import copy
import json
import os
import subprocess

import gen_mech
import vlib

PID = "C17"
GEN = os.path.join(vlib.LEAN, "HeimdallModel", "Gen", "Footprints.lean")

STUB = """-- GENERATED stub: the footprint extractor failed on the current working tree (see the check's output)
import HeimdallModel.Model.Footprint

namespace Heimdall.Gen
open Heimdall.Footprint

def footprints : List Row := [
  { kind := "extractor", typ := "extractor", method := "failed", fields := [], reads := [], writes := [],
    globals := [], ext := [], unknown := [("extractor", "failed")] }
]

end Heimdall.Gen
"""


def regenerate(R):
    """Gen/Footprints.lean from the current source (go/ssa). Returns (error text or None, details)."""
    exe = os.path.join(R.tmp, "footprint")
    details = os.path.join(R.tmp, "footprints.json")
    err, out = None, None
    p = subprocess.run(["go", "build", "-o", exe, "."], cwd=os.path.join(vlib.VERIF, "extract", "footprint"),
                       env=vlib.go_env(), capture_output=True, text=True)
    if p.returncode != 0:
        err = "extractor does not build: " + p.stderr[-800:]
    else:
        p = subprocess.run([exe, "-repo", vlib.REPO, "-json", details], env=vlib.go_env(), capture_output=True, text=True,
                           timeout=600)
        if p.returncode != 0:
            err = "extractor failed closed: " + (p.stderr or p.stdout)[-1200:]
        else:
            out = p.stdout
    with vlib.LeanLock():
        old = open(GEN).read() if os.path.exists(GEN) else ""
        new = out if out is not None else STUB
        if old != new:
            with open(GEN, "w") as fh:
                fh.write(new)
    info = {}
    if out is not None:
        with open(details) as fh:
            info = json.load(fh)
    return err, info


def dirty_rows(info):
    trusted = trusted_ext()
    res = []
    for e in info.get("entries", []):
        bad = [dict(w, list=k) for k in ("writes", "globals", "unknown") for w in (e.get(k) or [])]
        bad += [dict(w, list="ext") for w in (e.get("ext") or []) if w["what"] not in trusted]
        if bad:
            res.append({"kind": e["kind"], "type": e["type"], "method": e["method"], "effects": bad})
    return res


def trusted_ext():
    src = open(os.path.join(vlib.LEAN, "HeimdallModel", "Model", "Footprint.lean")).read()
    body = src.split("def trustedExt : List String := [", 1)[1].split("]", 1)[0]
    return set(json.loads("[" + body + "]"))


# ---------------------------------------------------------------------------------------------------------------
# running cases

def with_eff(case, model):
    """the effective configurations computed by the model travel to the implementation side, which loads each of
    them as a catalogue entry of its own and compares the result with the variant"""
    c = copy.deepcopy(case)
    effs = model.get("eff", []) if isinstance(model, dict) else []
    k = 0
    for op in c["ops"]:
        if op["op"] == "create":
            op["eff"] = effs[k] if k < len(effs) else None
            k += 1
    return c


def run_both(exe, cases, env=None, timeout=1500):
    model = vlib.run_cases(vlib.driver_cmd(), cases)
    impl = vlib.run_cases([exe], [with_eff(c, m) for c, m in zip(cases, model)], env=env, timeout=timeout)
    return model, impl


def judge(case, m, g):
    """None if implementation and model agree on the case, else (what, property_level, op index, details)"""
    if isinstance(g, dict) and "crash" in g:
        race = "DATA RACE" in g["crash"] or g.get("rc") == 66
        return ("data race reported by the race detector while mechanisms were executed concurrently" if race else
                "process crashed while mechanisms were created / executed", True, None, {"stderr": g["crash"][-6000:]})
    mr, gr = vlib.res_of(m), vlib.res_of(g)
    if not isinstance(mr, list) or not isinstance(gr, list) or len(mr) != len(gr):
        return ("model / harness error: " + json.dumps({"model": m, "impl": g})[:600], False, None, {})
    obs = g.get("obs", []) if isinstance(g, dict) else []
    for i, (a, b) in enumerate(zip(mr, gr)):
        if a == b:
            continue
        op = case["ops"][i]
        ob = obs[i] if i < len(obs) else {}
        if b.get("changed"):
            return (f"{op['op']} (operation {i}) changed the mechanism object(s) handed out by create operation(s) "
                    f"{b['changed']}: a loaded mechanism was modified", True, i, {"obs": ob})
        if b.get("ref") is False and a.get("ref") is True:
            return (f"operation {i}: the object a rule gets for {json.dumps(op.get('config'))} is not the catalogue "
                    "configuration overlaid with the rule's own settings (differs from the same configuration loaded "
                    "on its own)", True, i, {"obs": ob})
        if b.get("par_ok") is False:
            return (f"operation {i}: concurrent executions answered differently from the same executions done alone",
                    True, i, {"obs": ob})
        return (f"operation {i} ({op['op']}): implementation {json.dumps(b, sort_keys=True)[:300]} ≠ model "
                f"{json.dumps(a, sort_keys=True)[:300]}", False, i, {"obs": ob})
    return None


def project(case, keep):
    """the case restricted to the operations `keep` (indices), handles renumbered; operations that refer to a
    dropped create are dropped as well"""
    hmap, ops, nh = {}, [], 0
    old_h = 0
    for i, op in enumerate(case["ops"]):
        if op["op"] == "create":
            if i in keep:
                hmap[old_h] = nh
                nh += 1
                ops.append(copy.deepcopy(op))
            old_h += 1
        elif i in keep:
            o = copy.deepcopy(op)
            if o["op"] == "exec":
                if o["h"] not in hmap:
                    continue
                o["h"] = hmap[o["h"]]
            else:
                pairs = [(hmap[h], r) for h, r in zip(o["hs"], o.get("reqs") or [{}] * len(o["hs"])) if h in hmap]
                if not pairs:
                    continue
                o["hs"] = [p[0] for p in pairs]
                o["reqs"] = [p[1] for p in pairs]
            ops.append(o)
    used = {(o["kind"], o["id"]) for o in ops if o["op"] == "create"}
    cat = [e for e in case["catalogue"] if (e["kind"], e["id"]) in used] or case["catalogue"][:1]
    return {"fam": "mech", "catalogue": cat, "ops": ops}


def shrink(exe, case, what_class, env=None):
    def fails(keep):
        c = project(case, set(keep))
        if not c["ops"]:
            return False
        m, g = run_both(exe, [c], env=env, timeout=300)
        j = judge(c, m[0], g[0])
        return j is not None and j[1] == what_class

    idx = list(range(len(case["ops"])))
    try:
        keep = vlib.ddmin(idx, fails)
    except Exception:
        keep = idx
    return project(case, set(keep))


# ---------------------------------------------------------------------------------------------------------------

def run(R):
    err, info = regenerate(R)
    lean_ok = vlib.step_lean(R, PID)
    race = R.tier == "thorough"
    os.environ.setdefault("VERIF_MECH_TMP", R.tmp)
    env = dict(os.environ, GORACE="halt_on_error=1 exitcode=66", VERIF_MECH_TMP=R.tmp)
    exe, log = vlib.build_harness(R.tmp, race=race)
    if exe is None:
        R.violation("harness does not build against the repository", {"build_log": log[-3000:]}, no_input=True)
        return
    corpus = vlib.load_corpus(PID)
    n, ncold = (140, 30) if R.tier == "quick" else (4000, 800)
    cases = corpus + [gen_mech.gen_case(R.rng) for _ in range(n)] + [gen_mech.gen_cold_case(R.rng) for _ in range(ncold)]
    model, impl = run_both(exe, cases, env=env)

    stats = collections.Counter()
    by_type, by_status, exec_err = collections.Counter(), collections.Counter(), collections.Counter()
    nontrivial, behaviour = set(), {}
    concrete, structural = [], []
    for c, m, g in zip(cases, model, impl):
        j = judge(c, m, g)
        if j is not None:
            (concrete if j[1] else structural).append((c, m, g, j))
        if isinstance(m, dict):
            for k, v in (m.get("stats") or {}).items():
                stats[k] += v
        mr, gr = vlib.res_of(m), vlib.res_of(g)
        if not isinstance(mr, list) or not isinstance(gr, list):
            continue
        types = {(e["kind"], e["id"]): e for e in c["catalogue"]}
        obs = g.get("obs", []) if isinstance(g, dict) else []
        effs = m.get("eff", []) if isinstance(m, dict) else []
        hinfo, k = [], 0
        for i, op in enumerate(c["ops"]):
            r = gr[i] if i < len(gr) else {}
            if op["op"] == "create":
                e = types.get((op["kind"], op["id"]))
                t = (op["kind"] + "/" + e["type"]) if e else "missing"
                by_type[t] += 1
                st = r.get("st", "?")
                by_status[st if st != "ok" else ("prototype" if r.get("alias") else "variant")] += 1
                if st == "ok" and not r.get("alias"):
                    nontrivial.add((t, tuple(sorted((op.get("config") or {}).keys())),
                                    tuple(sorted(x for x, v in (r.get("shared") or {}).items() if v == "fresh"))))
                hinfo.append((t + "#" + op["id"], effs[k] if k < len(effs) else None) if st == "ok" else None)
                k += 1
            elif op["op"] == "exec" and r.get("ran"):
                out = (obs[i] if i < len(obs) else {}).get("out")
                if out is not None:
                    exec_err[out.get("err", "?")] += 1
                    hi = hinfo[op["h"]] if op["h"] < len(hinfo) else None
                    if hi is not None:
                        key = vlib.canon([hi[0], hi[1], op["req"]])
                        behaviour.setdefault(key, {}).setdefault(vlib.canon(out), (c, i))
            elif op["op"] == "par" and r.get("ran"):
                stats["concurrent_batches"] += 1
                stats["concurrent_executions"] += (obs[i] if i < len(obs) else {}).get("executions", 0)
                stats["variants_created_during_execution"] += (obs[i] if i < len(obs) else {}).get("created_concurrently", 0)

    # the behaviour of a mechanism object is a function of (type, id, effective configuration, request): whatever else
    # was created or executed before, in the same or in any other case, must not matter
    for key, outs in behaviour.items():
        if len(outs) > 1:
            (o1, (c1, i1)), (o2, (c2, i2)) = list(outs.items())[:2]
            R.violation("two mechanism objects of the same type and id with the same effective configuration answered the same "
                        "request differently: the behaviour of a rule's mechanism depends on what else was loaded or "
                        "executed", {"case": c1, "operation": i1, "impl": json.loads(o1), "other_case": c2,
                                     "other_operation": i2, "other_impl": json.loads(o2), "key": json.loads(key),
                                     "kind": "history"}, no_input=False)

    dirty = dirty_rows(info)
    if dirty and not concrete and not race:
        # the footprints show a write to shared memory but no operation of the run above exhibited a change: look
        # for the data race itself - the mechanism types concerned, first uses at the same time, race detector
        types = sorted({gen_mech.GO_TYPES[d["type"]] for d in dirty if d["type"] in gen_mech.GO_TYPES}) or None
        rdir = os.path.join(R.tmp, "race")
        os.makedirs(rdir, exist_ok=True)
        rexe, _ = vlib.build_harness(rdir, race=True)
        if rexe is not None:
            tcases = [gen_mech.gen_cold_case(R.rng, types) for _ in range(60)]
            tm, tg = run_both(rexe, tcases, env=env)
            for c, m, g in zip(tcases, tm, tg):
                j = judge(c, m, g)
                if j is not None and j[1]:
                    concrete.append((c, m, g, j))
            stats["targeted_race_cases"] = len(tcases)
    for c, m, g, j in concrete[:3]:
        what, _, i, details = j
        small = shrink(exe, c, True, env=env) if i is not None else c
        sm, sg = run_both(exe, [small], env=env, timeout=300)
        if judge(small, sm[0], sg[0]) is None:
            small, sm, sg = c, [m], [g]
        j2 = judge(small, sm[0], sg[0]) or j
        if i is None:   # a crash / data race: keep the report of the run that showed it
            j2 = j
        extra = ""
        if dirty:
            extra = " [static footprint: " + "; ".join(f"{d['type']}.{d['method']} writes "
                                                     f"{sorted({w['what'] for w in d['effects']})[:2]}" for d in dirty[:2]) + "]"
        R.violation(j2[0] + extra, {"case": small, "impl": vlib.res_of(sg[0]), "model": vlib.res_of(sm[0]),
                                   "details": j2[3], "dirty_footprints": dirty[:6], "kind": "property"}, no_input=False)
    for c, m, g, j in structural[:3]:
        small = shrink(exe, c, False, env=env)
        sm, sg = run_both(exe, [small], env=env, timeout=300)
        if judge(small, sm[0], sg[0]) is None:
            small, sm, sg = c, [m], [g]
        j2 = judge(small, sm[0], sg[0]) or j
        R.violation("implementation ≠ model: " + j2[0], {"case": small, "impl": vlib.res_of(sg[0]),
                                                        "model": vlib.res_of(sm[0]), "details": j2[3],
                                                        "kind": "correspondence"}, no_input=False)

    if err:
        R.violation("write footprints could not be extracted from the mechanism packages: " + err, {"error": err},
                    no_input=True)
    if not lean_ok:
        what = ("theorems / obligations of Props/C17.lean no longer check"
                + (": the regenerated write footprints are not clean — " + "; ".join(
                    f"{d['type']}.{d['method']}: " + ", ".join(sorted({w['kind'] + ' ' + w['what'] + ' @' + w['pos']
                                                                     for w in d['effects']})[:3]) for d in dirty[:4])
                   if dirty else ": " + "; ".join(R.lean["failed"])[:600]))
        # the search for a concrete input is the run above (every mechanism type with a dirty row is generated and
        # executed there, alone and concurrently)
        R.violation(what, {"lean_log": R.lean["log"][-3000:], "failed": R.lean["failed"], "dirty_footprints": dirty,
                           "kind": "obligation"}, no_input=True)

    nops = sum(len(c["ops"]) for c in cases)
    R.coverage.update({
        "evaluations": nops, "distinct_nontrivial": len(nontrivial),
        "rule": "operations (create / execute / concurrent batch) on the real mechanism factory, every object handed "
                "out so far deep-dumped after each operation; non-trivial = a create that produced a variant; "
                "distinct by (mechanism type, keys of the override, reference fields replaced)",
        "cases": len(cases), "corpus_cases": len(corpus), "creates_by_type": dict(by_type),
        "creates_by_outcome": dict(by_status), "executions_by_outcome": dict(exec_err),
        "behaviour_keys": len(behaviour), "model_stats": dict(stats), "race_detector": race,
        "footprint_rows": len(info.get("entries", [])), "footprint_functions_analysed": info.get("functions_analysed"),
        "footprint_dirty_rows": len(dirty), "footprint_notes": info.get("notes", []),
        "samples": [cases[len(corpus)]] if len(cases) > len(corpus) else cases[:1],
    })
    R.assumptions += [
        "the write footprints are an over-approximating static analysis (go/ssa, flow- and field-insensitive taint of "
        "receiver / package-variable derived references, interface calls resolved over all module types, function "
        "values over all address-taken module functions with identical signature); reflection, unsafe, cgo and "
        "writes inside third-party libraries are outside of it: library calls on shared memory are compared with "
        "the list Footprint.trustedExt of calls documented to be safe for concurrent use",
        "trusted library calls on shared memory (Footprint.trustedExt): text/template Execute, cel-go Program.Eval / "
        "Env.Compile / Check / Program, validator Struct, http.Client.Do, response bodies / headers, gjson results, "
        "base64, jose Builder, httpsig Signer.Sign, and go-jose (*JSONWebKey).Thumbprint (called by jwtSigner.Hash on a "
        "copy of the signer's JWK; v4.0.4 jwk.go:388 reviewed: it only reads the key's public parameters into newly "
        "allocated buffers and hashes them)",
        "memory newly allocated by WithConfig is private to it until it returns (the machine allocates and "
        "initialises a cell in one step)",
        "data-race freedom is a runtime property: the model shows the absence of conflicting accesses w.r.t. the "
        "extracted footprints; supporting evidence: race detector over concurrent executions, also of first uses "
        "(thorough tier)",
        "per-type overlay rules (which key replaces / merges into which field) are a hand-written table "
        "(Model/MechTypes.lean) validated by the correspondence run: sharing pattern per field, and deep equality + "
        "equal behaviour of every variant with the model's effective configuration loaded as a prototype of its own",
        "where the code tells 'set' from 'not set' by the zero value (strings, lists: user_id, forward_headers, "
        "issuers ...) an override with the zero value is not observed; the model follows the code and the generator "
        "does not produce such overrides",
    ]


def replay(R, path):
    with open(path) as fh:
        p = json.load(fh)
    R.coverage.update({"obligations": 1, "discharged": 1, "checker_cmd": "replay", "trusted_base": []})
    if "case" not in p:
        err, info = regenerate(R)
        d = dirty_rows(info)
        print(json.dumps(d, indent=1)[:4000])
        if err or d:
            R.violation("replay: write footprints not clean: " + (err or json.dumps(d)[:400]), {"dirty_footprints": d},
                        no_input=True)
        return
    regenerate(R)
    with vlib.LeanLock():
        vlib.lake(["build", "driver"])
    env = dict(os.environ, GORACE="halt_on_error=1 exitcode=66", VERIF_MECH_TMP=R.tmp)
    exe, log = vlib.build_harness(R.tmp, race=("stderr" in json.dumps(p.get("details", {}))))
    if exe is None:
        R.violation("harness does not build", {"build_log": log[-3000:]}, no_input=True)
        return
    cases = [p["case"]] + ([p["other_case"]] if "other_case" in p else [])
    for _ in range(20 if "stderr" in json.dumps(p.get("details", {})) else 1):
        m, g = run_both(exe, cases, env=env)
        for c, mm, gg in zip(cases, m, g):
            j = judge(c, mm, gg)
            if j is not None:
                print("reproduced:", j[0])
                print(json.dumps(j[3], indent=1)[:6000])
                R.violation("replay reproduces: " + j[0], {"case": c, "impl": vlib.res_of(gg), "model": vlib.res_of(mm)})
                return
    if p.get("kind") == "history":
        outs = []
        m, g = run_both(exe, cases, env=env)
        for c, gg, i in zip(cases, g, (p["operation"], p["other_operation"])):
            outs.append((gg.get("obs") or [])[i].get("out"))
        print(json.dumps(outs, indent=1))
        if len(outs) == 2 and outs[0] != outs[1]:
            R.violation("replay reproduces: same effective configuration, same request, different answers",
                        {"case": cases[0], "impl": outs})
