"""C01 — a request is allowed only after its whole effective pipeline succeeded.

(B) theorems: lean/HeimdallModel/Props/C01.lean about Model/Pipeline.lean + Model/EntryPoints.lean.
(A) tie: family `pipeline` — the real rule-set parser, rule factory (CEL conditions, error handlers), repository,
    executor and the three real services on loopback ports are driven with rules whose mechanisms replay a scripted
    outcome vector; the error handlers are the real ones, configured with `to` templates / realms / `if` conditions
    that read what the client sent (header X-C01-To, query parameter `to`, URL parts), and the requests are chosen so
    that the templates render to a URL, to nothing, to blanks, to several lines, or fail; answers and mechanism traces
    are compared with the Lean model, and the positive answers with the executable specification
    (`expectedPositive`)."""
import concurrent.futures
import copy
import json
import os

import gen_pipeline
import go2lean_c01
import go2lean_c01entry
import vlib

PID = "C01"
EPS = ("decision", "envoy", "proxy")


# ---------------------------------------------------------------------------------------------------------------
# running both sides

def run_parallel(cmd, cases, workers):
    """split the case list over several executor processes (each one starts its own services on kernel-chosen
    loopback ports); the result order is the case order"""
    if len(cases) < 400 or workers <= 1:
        return vlib.run_cases(cmd, cases)
    size = (len(cases) + workers - 1) // workers
    chunks = [cases[i:i + size] for i in range(0, len(cases), size)]
    with concurrent.futures.ThreadPoolExecutor(max_workers=workers) as ex:
        parts = list(ex.map(lambda ch: vlib.run_cases(cmd, ch, timeout=1500), chunks))
    return [r for p in parts for r in p]


def canon_impl(i):
    """load-time rejections are compared as such, not by the stage that rejected; keys starting with "_" are
    observations for the evidence (what the Location header looked like), not part of the compared answer"""
    if not isinstance(i, dict):
        return i
    return {k: ({"load": "rejected"} if isinstance(v, dict) and "load" in v else v) for k, v in i.items()
            if not k.startswith("_")}


def differs(i, m):
    return vlib.canon(canon_impl(i)) != vlib.canon(vlib.res_of(m))


def impl_positive(ep, r):
    """what the caller observes as a positive answer; second component: True when the observation does not depend
    on status overrides (request reached the upstream / OK check response)"""
    if not isinstance(r, dict) or "load" in r:
        return False, False
    if ep == "proxy":
        if r.get("hits", 0) > 0 or r.get("relayed"):
            return True, True
        return 200 <= r.get("status", 0) < 300, False
    if ep == "envoy":
        if "rpcerr" in r:
            return False, False
        ok = bool(r.get("ok")) or r.get("code", -1) == 0
        return ok, ok
    return 200 <= r.get("status", 0) < 300, False


def spec_violations(i, m):
    """entry points at which the implementation answers positively although the specification (a rule applies and
    its effective pipeline completed) does not allow it"""
    res = []
    if not isinstance(i, dict) or not isinstance(m, dict):
        return res
    spec = m.get("spec", {})
    for ep in EPS:
        if ep not in i:
            continue
        pos, hard = impl_positive(ep, i[ep])
        if ep not in spec:
            # the model refuses to load this configuration (no authenticator, proxy rule without upstream)
            if pos and isinstance(vlib.res_of(m), dict) and "load" in vlib.res_of(m).get(ep, {}):
                res.append(ep)
            continue
        if pos and not spec[ep]["expected_positive"] and (hard or spec[ep]["hyp"]):
            res.append(ep)
    return res


def one(exe, case):
    i = vlib.run_cases([exe], [case])[0]
    m = vlib.run_cases(vlib.driver_cmd(), [case])[0]
    return i, m


# ---------------------------------------------------------------------------------------------------------------
# shrinking

def shrink(exe, case, fails):
    """greedy structural shrinking: drop steps, drop the default rule, drop conditions and flags, reset the
    configuration, as long as `fails(case)` stays true"""
    cur = copy.deepcopy(case)

    def attempt(cand):
        nonlocal cur
        # whether a template renders / a request-dependent condition holds is a function of the request
        gen_pipeline.derive(cand)
        if vlib.canon(cand) != vlib.canon(cur) and fails(cand):
            cur = cand
            return True
        return False

    changed = True
    rounds = 0
    while changed and rounds < 6:
        changed = False
        rounds += 1
        for key in ("default", "rule"):
            if cur.get(key) is not None:
                c = copy.deepcopy(cur)
                c[key] = None
                changed |= attempt(c)
        for key in ("rule", "default"):
            doc = cur.get(key)
            if not doc:
                continue
            for lst in ("eh", "fin", "hand", "auth"):
                idx = 0
                while idx < len(cur[key].get(lst, [])):
                    c = copy.deepcopy(cur)
                    del c[key][lst][idx]
                    if attempt(c):
                        changed = True
                    else:
                        idx += 1
                for idx in range(len(cur[key].get(lst, []))):
                    for fld, val in (("cond", None), ("coe", False), ("fb", False), ("kinds", []), ("realm", None),
                                     ("rrealm", None), ("to", "static"), ("code", 0)):
                        if cur[key][lst][idx].get(fld) not in (None, val):
                            c = copy.deepcopy(cur)
                            c[key][lst][idx][fld] = val
                            changed |= attempt(c)
        for key in list(cur.get("cfg", {})):
            c = copy.deepcopy(cur)
            del c["cfg"][key]
            changed |= attempt(c)
        for fld, val in (("cfg", {}), ("style", 0), ("upstream", 200), ("accept", None)):
            if cur.get(fld) != val:
                c = copy.deepcopy(cur)
                c[fld] = val
                changed |= attempt(c)
        for fld in ("hdr", "q", "origin"):
            if (cur.get("req") or {}).get(fld) is not None:
                c = copy.deepcopy(cur)
                c["req"][fld] = None
                changed |= attempt(c)
        if (cur.get("req") or {}).get("preflight"):
            c = copy.deepcopy(cur)
            c["req"]["preflight"] = False
            changed |= attempt(c)
        cors = (cur.get("cfg") or {}).get("cors")
        if cors:
            for fld, val in (("origins", []), ("methods", None), ("creds", False)):
                if cors.get(fld) != val:
                    c = copy.deepcopy(cur)
                    c["cfg"]["cors"][fld] = val
                    changed |= attempt(c)
    return cur


def describe(case, ep, i, m):
    spec = m.get("spec", {}).get(ep, {}) if isinstance(m, dict) else {}
    return (f"{ep}: implementation answers {json.dumps(i.get(ep) if isinstance(i, dict) else i)} — a positive answer "
            f"— but no rule applied or its effective pipeline did not complete (spec expected_positive="
            f"{spec.get('expected_positive')}, model {json.dumps(vlib.res_of(m).get(ep) if isinstance(m, dict) else m)})")


# ---------------------------------------------------------------------------------------------------------------

def budget(R):
    if R.tier == "quick":
        return 6000, False, 4
    return 120000, True, min(8, os.cpu_count() or 4)


def run(R):
    lean_ok = vlib.step_lean(R, PID)
    # the composites / conditional handlers translated from the current source, proved equal to the model
    go2lean_c01.step(R)
    # the entry-point kernels (rule executor, HTTP handler, Envoy handler) translated from the current source
    go2lean_c01entry.step(R)
    exe = vlib.step_harness(R)
    if exe is None:
        R.violation("harness does not build against /repo (API used by the correspondence check changed)",
                    {"build_log": R.harness_log[-3000:]}, no_input=True)
        return
    if not os.path.exists(vlib.driver_cmd()[0]):
        R.violation("Lean driver does not build: " + "; ".join(R.lean.get("failed", []))[:600],
                    {"lean_log": R.lean["log"]}, no_input=True)
        return
    corpus = vlib.load_corpus(PID)
    n, small, workers = budget(R)
    cases = corpus + [gen_pipeline.gen_case(R.rng) for _ in range(n)]
    n_small = 0
    if small:
        ss = gen_pipeline.small_scope_cases()
        n_small = len(ss)
        cases += ss
    impl = run_parallel([exe], cases, workers)
    model = run_parallel(vlib.driver_cmd(), cases, workers)

    bad_model = [(c, i, m) for c, i, m in zip(cases, impl, model) if differs(i, m)]
    bad_spec = [(c, i, m, eps) for c, i, m in zip(cases, impl, model) for eps in [spec_violations(i, m)] if eps]

    if bad_model and not bad_spec and not small:
        # the tie is broken: look for an input on which the *property* fails (small-scope enumeration)
        ss = gen_pipeline.small_scope_cases()
        si = run_parallel([exe], ss, workers)
        sm = run_parallel(vlib.driver_cmd(), ss, workers)
        bad_spec = [(c, i, m, eps) for c, i, m in zip(ss, si, sm) for eps in [spec_violations(i, m)] if eps]

    # ---- evidence
    nontriv = set()
    branches = {}
    rejected = 0
    steps_hist = {}
    positives = {ep: 0 for ep in EPS}
    verbosity = {"verbose": 0, "verbose_and_negotiation_fails": 0, "verbose_negotiation_fails_and_error_answer": 0}
    accepts = {}
    levels = {}
    trace_and_broken_condition = 0
    to_nominal = {}      # `to` template x nominal rendering class, over all configured redirect handlers
    observed_loc = {ep: {} for ep in EPS}   # Location header of the answers (a redirect handler ran), per class
    req_dist = {}
    req_conds = {"true": 0, "false": 0}
    realms = {}
    cors_dist = {}       # CORS configuration x Origin header class x kind of request
    front = {"proxy_answers_with_headers_set_in_front": 0, "of_those_refusals": 0, "of_those_after_a_panic": 0,
             "of_those_forwarded": 0, "preflight_answered_by_cors_middleware": 0,
             "preflight_through_the_pipeline": 0, "decision_answers_with_headers_set_in_front": 0}
    for c, i, m in zip(cases, impl, model):
        if gen_pipeline.nontrivial(c):
            nontriv.add(vlib.case_hash(c))
        st = m.get("stats", {}) if isinstance(m, dict) else {}
        for ep in EPS:
            b = st.get(ep, "driver-error")
            branches[f"{ep}:{b}"] = branches.get(f"{ep}:{b}", 0) + 1
            if isinstance(i, dict) and impl_positive(ep, i.get(ep))[0]:
                positives[ep] += 1
        if st.get("decision") == "rejected":
            rejected += 1
        lvl = c.get("cfg", {}).get("log", "disabled")
        levels[lvl] = levels.get(lvl, 0) + 1
        if lvl == "trace" and any((h.get("cond") or {}).get("bad") or (h.get("cond") or {}).get("err")
                                  for key in ("rule", "default") if c.get(key)
                                  for h in c[key].get("hand", []) + c[key].get("fin", []) if not h.get("coe")):
            trace_and_broken_condition += 1
        acc = c.get("accept")
        accepts[str(acc)] = accepts.get(str(acc), 0) + 1
        if c.get("cfg", {}).get("verbose"):
            verbosity["verbose"] += 1
            if acc in gen_pipeline.ACCEPTS[-4:]:
                verbosity["verbose_and_negotiation_fails"] += 1
                if st.get("decision") in ("error-handled", "error-returned", "no-rule", "panic"):
                    verbosity["verbose_negotiation_fails_and_error_answer"] += 1
        rq = c.get("req") or {}
        cors = c.get("cfg", {}).get("cors")
        ck = ("none" if cors is None else "origins=" + ",".join(cors.get("origins") or []) + ";methods="
              + ("default" if cors.get("methods") is None else ",".join(cors["methods"]))
              + (";creds" if cors.get("creds") else ""))
        ck += " | origin=" + json.dumps(rq.get("origin")) + (" | preflight" if rq.get("preflight") else "")
        cors_dist[ck] = cors_dist.get(ck, 0) + 1
        if isinstance(i, dict):
            if isinstance(i.get("proxy"), dict) and i["proxy"].get("pre"):
                front["proxy_answers_with_headers_set_in_front"] += 1
                pb = st.get("proxy")
                if pb in ("error-handled", "error-returned", "no-rule", "panic"):
                    front["of_those_refusals"] += 1
                if pb == "panic":
                    front["of_those_after_a_panic"] += 1
                if i["proxy"].get("hits"):
                    front["of_those_forwarded"] += 1
            if isinstance(i.get("decision"), dict) and i["decision"].get("pre"):
                front["decision_answers_with_headers_set_in_front"] += 1
        if rq.get("preflight"):
            front["preflight_answered_by_cors_middleware" if st.get("proxy") == "preflight-answered"
                  else "preflight_through_the_pipeline"] += 1
        rk = "hdr=" + gen_pipeline.render_class(rq.get("hdr") is not None, rq.get("hdr")).replace("fails", "absent") \
            + ",q=" + gen_pipeline.render_class(rq.get("q") is not None, rq.get("q")).replace("fails", "absent")
        req_dist[rk] = req_dist.get(rk, 0) + 1
        for key in ("rule", "default"):
            for st in (c.get(key) or {}).get("hand", []) + (c.get(key) or {}).get("fin", []) \
                    + (c.get(key) or {}).get("eh", []):
                if (st.get("cond") or {}).get("on"):
                    req_conds["true" if st["cond"]["lit"] else "false"] += 1
            for e in (c.get(key) or {}).get("eh", []):
                if e.get("kind") == "redirect":
                    tk = (e.get("to") or ("static" if e.get("render", True) else "fail")) + ":" + \
                        gen_pipeline.render_class(e.get("render", True), e.get("rendered"))
                    to_nominal[tk] = to_nominal.get(tk, 0) + 1
                elif e.get("kind") == "www":
                    for fld in ("realm", "rrealm"):
                        rk2 = fld + "=" + json.dumps(e.get(fld))
                        realms[rk2] = realms.get(rk2, 0) + 1
        if isinstance(i, dict):
            for ep, cl in (i.get("_obs") or {}).items():
                if cl != "none" and ep in observed_loc:
                    observed_loc[ep][cl] = observed_loc[ep].get(cl, 0) + 1
        d = c.get("rule") or c.get("default") or {}
        k = len(d.get("auth", [])) + len(d.get("hand", [])) + len(d.get("fin", []))
        steps_hist[str(k)] = steps_hist.get(str(k), 0) + 1
    R.coverage.update({
        "evaluations": len(cases), "distinct_nontrivial": len(nontriv),
        "rule": "a case = status overrides, respond.verbose, log.level (trace/debug/info/warn/disabled; logger "
                "of the request context) and the `cors` block (absent / five configurations: one or several exact "
                "origins, every origin, GET allowed or not, credentials) of the services, the request's Origin header "
                "(absent, allowed, not allowed, empty, other case), GET or CORS preflight request (OPTIONS + "
                "Access-Control-Request-Method), the request's Accept header (absent, "
                "acceptable, unsupported, malformed), the request's X-C01-To header and `to` query parameter (absent, "
                "URL, empty, blank, multi-line, not a URL), a rule and/or default rule (0-3 authenticators, 0-4 "
                "authorizers/contextualizers, 0-3 finalizers, 0-3 error handlers: default / www_authenticate with "
                "varied catalogue and rule-level realm / redirect whose `to` template is static, fails, or reads the "
                "header, the query parameter, the URL; per step an outcome ok/error "
                "kinds/panic, an `if` condition true/false/on subject/on error type/on the request's header, query, "
                "path/not evaluable, fallback and "
                "continue-on-error flags), whether the request matches the rule, the upstream's status; each case is "
                "sent through the real decision, Envoy ext_authz and proxy services and through the Lean model; "
                "non-trivial = the outcome vector contains a failure (error, panic, condition that cannot be "
                "evaluated) or a skipped step; distinct by hash of the case",
        "entry_point_runs": 3 * len(cases),
        "corpus_cases": len(corpus), "small_scope_cases": n_small,
        "exhaustive": False,
        "model_branches_per_entry_point": dict(sorted(branches.items())),
        "positive_answers_observed": positives,
        "log_level_distribution": dict(sorted(levels.items())),
        "trace_level_with_non_evaluable_condition_on_mandatory_step": trace_and_broken_condition,
        "verbosity_distribution": verbosity, "accept_header_distribution": dict(sorted(accepts.items())),
        "request_data_distribution": dict(sorted(req_dist.items())),
        "redirect_to_template_x_nominal_rendering": dict(sorted(to_nominal.items())),
        "location_header_observed_in_answers": {ep: dict(sorted(v.items())) for ep, v in observed_loc.items()},
        "request_dependent_conditions": req_conds,
        "cors_configuration_x_origin_header": dict(sorted(cors_dist.items())),
        "response_headers_set_in_front_of_the_handler": front,
        "www_authenticate_realms": dict(sorted(realms.items())),
        "cases_rejected_at_load": rejected,
        "pipeline_length_histogram": dict(sorted(steps_hist.items(), key=lambda kv: int(kv[0]))),
        "samples": [cases[len(corpus)]] if len(cases) > len(corpus) else cases[:1],
        "impl_vs_model_disagreements": len(bad_model), "impl_vs_spec_disagreements": len(bad_spec),
    })
    if small:
        R.coverage["small_scope"] = ("all pipelines of 1-2 authenticators x 0-1 authorizer x 0-1 finalizer over 5 "
                                     "authenticator / 9 step outcome classes x 7 error pipelines, 3 entry points")
    R.assumptions += [
        "mechanisms (authenticators, authorizers, contextualizers, finalizers) are parameters of the model: their "
        "outcome for the request is scripted; everything around them is the real code",
        "status overrides respond.with.*.code outside 2xx and redirect codes outside 2xx are side conditions of the "
        "status theorems (c01_sound, c01_failure_refused); forwarding and the Envoy OK response need none",
        "the upstream answers (no communication failure while proxying); WriteHeader with codes outside 100..999 "
        "is not modelled; a Go error is modelled by the sentinels errors.Is can see in it",
        "CEL evaluation, text/template, net/http, httputil.ReverseProxy, grpc-go are exercised, not modelled",
        "what an error handler's configuration makes of the request is a parameter of the model (`Rendered`: the "
        "`to` template fails / renders to some string; request-dependent `if` conditions: their truth value): the "
        "generator computes it for its 11 templates and 4 request questions from the request it sends, and the "
        "comparison of the answers validates that; the value of the Location header is not compared (not C01's "
        "subject), its class is only counted in the evidence",
        "of rs/cors only the names of three response headers are modelled (Vary always; Access-Control-Allow-Origin "
        "/ -Credentials for a non-empty exactly listed origin when GET is allowed) and that a preflight request is "
        "answered by the middleware with 204 without calling the service handler; wildcard origin patterns, "
        "Access-Control-Request-Headers, private-network requests, OPTIONS requests without "
        "Access-Control-Request-Method are not generated; a preflight request answered by the proxy's CORS "
        "middleware (operator configured serve.proxy.cors) is a positive status without a rule - the explicit "
        "exception of c01_chain_sound (nothing forwarded, no mechanism executed), not judged by the specification",
        "content negotiation of the Accept header is a request attribute of the model (`negotiable`), tabulated for "
        "the 11 generated header values and validated through the observed presence of an error body; body content "
        "and content type are out of scope (C12)",
    ]

    # ---- verdict
    reported = set()
    for c, i, m, eps in bad_spec[:2]:
        ep = eps[0]
        sc = shrink(exe, c, lambda x, ep=ep: ep in spec_violations(*one(exe, x)))
        sc.pop("note", None)
        if vlib.case_hash(sc) in reported:
            continue
        reported.add(vlib.case_hash(sc))
        si, sm = one(exe, sc)
        R.violation(describe(sc, ep, si, sm),
                    {"case": sc, "impl": si, "model": vlib.res_of(sm), "spec": sm.get("spec") if isinstance(sm, dict)
                     else None, "kind": "impl-vs-spec", "entry_point": ep}, no_input=False)
    if not bad_spec:
        for c, i, m in bad_model[:2]:
            sc = shrink(exe, c, lambda x: differs(*one(exe, x)))
            si, sm = one(exe, sc)
            R.violation("the implementation no longer behaves like the model the C01 theorems are about (no input "
                        "with a wrongly positive answer was found): impl " + json.dumps(canon_impl(si))[:300]
                        + " model " + json.dumps(vlib.res_of(sm))[:300],
                        {"case": sc, "impl": si, "model": vlib.res_of(sm), "kind": "impl-vs-model",
                         "stream": "pipeline"}, no_input=True)
    if not lean_ok:
        R.violation("theorems of Props/C01.lean no longer check: " + "; ".join(R.lean["failed"])[:600],
                    {"lean_log": R.lean["log"], "failed": R.lean["failed"],
                     "theorems": R.lean.get("failed_theorems")}, no_input=True)
    go2lean_c01.report(R, exe, corpus, one, spec_violations, differs, describe, shrink)
    go2lean_c01entry.report(R)
    # the replay file carries the first violation: concrete inputs first
    R.violations.sort(key=lambda v: v[2])


def replay(R, path):
    with open(path) as fh:
        p = json.load(fh)
    exe = vlib.step_harness(R)
    if exe is None:
        R.violation("harness does not build", {"build_log": R.harness_log[-3000:]}, no_input=True)
        return
    c = p["case"] if "case" in p else p
    i, m = one(exe, c)
    print("impl :", json.dumps(canon_impl(i)))
    print("model:", json.dumps(vlib.res_of(m)))
    print("spec :", json.dumps(m.get("spec") if isinstance(m, dict) else None))
    R.coverage.update({"obligations": 1, "discharged": 1, "checker_cmd": "replay", "trusted_base": [],
                       "evaluations": 1, "distinct_nontrivial": 0, "samples": [c]})
    eps = spec_violations(i, m)
    if eps:
        R.violation(describe(c, eps[0], i, m), {"case": c, "impl": i, "model": vlib.res_of(m)})
    elif differs(i, m):
        R.violation("replay: implementation still differs from the model", {"case": c, "impl": i,
                                                                             "model": vlib.res_of(m)}, no_input=True)
