"""C08 — percent-encoding cannot change the matched rule; encoded slashes obey the rule."""
import copy
import json

import gen_repo
import go2lean_c08
import repo_common as rc
import vlib

PID = "C08"


def variants(rng, op, k):
    """the lookup in its given spelling, then k re-encodings of unreserved octets (either hex case)"""
    res = []
    tgt = op["target"]
    path, _, query = tgt.partition("?")
    for _ in range(k):
        p2 = gen_repo.reencode(rng, path, rng.choice([0.2, 0.5, 1.0]))
        res.append(dict(op, target=p2 + ("?" + query if query else "")))
    return res


def slash_variants(rng, op):
    """insert an encoded slash (both hex cases) into a segment"""
    path, _, query = op["target"].partition("?")
    segs = path.split("/")
    cand = [i for i, s in enumerate(segs) if s]
    if not cand:
        return []
    i = rng.choice(cand)
    out = []
    for enc in ("%2F", "%2f"):
        s2 = list(segs)
        pos = rng.randrange(len(s2[i]) + 1)
        while pos > 0 and pos < len(s2[i]) and "%" in s2[i][max(0, pos - 2):pos]:
            pos -= 1
        s2[i] = s2[i][:pos] + enc + s2[i][pos:]
        out.append(dict(op, target="/".join(s2) + ("?" + query if query else "")))
    return out


def canonical_target(rng, exprs):
    t = gen_repo.gen_target(rng, exprs, raw=True)
    return t


def gen_case(rng):
    base = gen_repo.gen_repo_case(rng, max_ops=6)
    ops = [o for o in base["ops"] if o["op"] != "find"]
    if not ops:
        return base, []
    exprs = sorted({rt["path"] for o in ops if "rules" in o for r in o["rules"] for rt in r["routes"]}) or ["/a"]
    groups = []   # (start index, count) of spellings of one logical request
    for _ in range(rng.choice([2, 3, 4])):
        f = {"op": "find", "method": rng.choice(gen_repo.METHODS), "host": rng.choice(gen_repo.HOSTS),
             "target": canonical_target(rng, exprs)}
        vs = [f] + variants(rng, f, 3)
        groups.append((len(ops), len(vs)))
        ops += vs
        sv = slash_variants(rng, f)
        for s in sv:
            vs2 = [s] + variants(rng, s, 2)
            groups.append((len(ops), len(vs2)))
            ops += vs2
    return dict(base, ops=ops), groups


def run(R):
    lean_ok = vlib.step_lean(R, PID)
    go2lean_c08.step(R)      # isUnreserved / unhex translated from the current source, proved equal to the model
    exe = vlib.step_harness(R)
    if exe is None:
        R.violation("harness does not build against /repo", {"build_log": R.harness_log[-3000:]}, no_input=True)
        return
    corpus = vlib.load_corpus(PID)
    n = 1200 if R.tier == "quick" else 90000
    gen = [gen_case(R.rng) for _ in range(n)]
    cases = corpus + [g[0] for g in gen]
    groups = [[] for _ in corpus] + [g[1] for g in gen]
    impl, model, nbad = rc.check_correspondence(R, exe, cases, "percent-encoded request path")
    # SPEC oracle on the implementation: all spellings of one logical request are served alike
    ngroups = 0
    nontriv = set()
    viol = 0
    slash_seen = {"off_rejected": 0, "no_decode_kept": 0, "on_decoded": 0}
    for c, i, gs in zip(cases, impl, groups):
        if not isinstance(i, list):
            continue
        for (st, cnt) in gs:
            ngroups += 1
            ref = i[st]
            tg = c["ops"][st]["target"]
            if any(vlib.canon(x) != vlib.canon(ref) for x in i[st:st + cnt]):
                viol += 1
                if viol <= 3:
                    bad = next(k for k in range(st, st + cnt) if vlib.canon(i[k]) != vlib.canon(ref))
                    keep = [o for o in c["ops"] if o["op"] != "find"] + [c["ops"][st], c["ops"][bad]]
                    R.violation("re-encoding unreserved characters changed the outcome: "
                                f"{tg} -> {json.dumps(ref)[:200]} but {c['ops'][bad]['target']} -> {json.dumps(i[bad])[:200]}",
                                {"case": dict(c, ops=keep), "kind": "impl-spelling-vs-impl-respelling"}, no_input=False)
            if isinstance(ref, dict) and ref.get("rule") and not str(ref["rule"]).startswith("config/") and "%" in "".join(
                    c["ops"][k]["target"] for k in range(st + 1, st + cnt)):
                nontriv.add(vlib.case_hash({"ops": [o for o in c["ops"] if o["op"] != "find"], "t": tg}))
            if "%2f" in tg.lower().split("?")[0] and isinstance(ref, dict):
                if ref.get("exec") == "argument":
                    slash_seen["off_rejected"] += 1
                elif any("%2f" in str(v[1]).lower() for v in ref.get("caps", [])):
                    slash_seen["no_decode_kept"] += 1
                elif ref.get("exec") == "ok":
                    slash_seen["on_decoded"] += 1
    st = rc.stats_sum(model)
    R.coverage.update({
        "evaluations": sum(len(c["ops"]) for c in cases), "distinct_nontrivial": len(nontriv),
        "rule": "rule sets mixing literal and wildcard expressions for the same paths (with/without path_params, all "
                "three encoded-slash settings, with/without default rule); every request is sent in its given spelling "
                "and in 3 re-encodings of random subsets of its unreserved octets (random hex case), plus %2F/%2f "
                "insertions with 2 re-encodings each, through the real request context + repository + rule; compared "
                "with the Lean model and spelling against spelling. Non-trivial = group whose reference is answered by "
                "a regular rule and that contains a percent-encoded spelling; distinct by (rule sets, target)",
        "spelling_groups": ngroups, "encoded_slash_outcomes": slash_seen,
        "lookups_matched": st.get("matched", 0), "lookups_default_rule": st.get("default", 0),
        "corpus_cases": len(corpus), "samples": [cases[len(corpus)]] if len(cases) > len(corpus) else [cases[0]],
    })
    R.assumptions += [
        "net/url's parsing of the request line (url.ParseRequestURI, EscapedPath) is used as is by the harness and "
        "trusted; generated targets stay inside the characters net/url keeps verbatim in EscapedPath",
        "the path sent upstream (Backend.CreateURL) is covered by C15, not here",
    ]
    if not lean_ok:
        R.violation("theorems of Props/C08.lean no longer check: " + "; ".join(R.lean["failed"])[:600],
                    {"lean_log": R.lean["log"], "failed": R.lean["failed"]}, no_input=True)
    go2lean_c08.report(R, exe)
    R.violations.sort(key=lambda v: v[2])      # the replay file carries the first violation: concrete inputs first


replay = rc.replay
