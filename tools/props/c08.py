"""C08 — percent-encoding cannot change the matched rule; encoded slashes obey the rule."""
import copy
import json
import urllib.parse

import gen_repo
import go2lean_c08
import repo_common as rc
import vlib

PID = "C08"

# segments whose only escape is an encoded percent sign: such a path is its own default encoding (net/url keeps no raw
# path for it), and decoding it twice shows (`%2561` -> `%61` -> `a`)
PERCENT_VALUES = ["%2561dmin", "100%25", "a%252Fb", "v1%2541", "%25", "%2541"]
# add_path_prefix values the property-level oracle reasons about (the others are left to the model)
PLAIN_ADD = ("", "/x", "/v2/app", "/svc-1", "/~u", "x")


def variants(rng, op, k):
    """the lookup in its given spelling, then k re-encodings of unreserved octets (either hex case)"""
    res = []
    tgt = op["target"]
    path, _, query = tgt.partition("?")
    for _ in range(k):
        p2 = gen_repo.reencode(rng, path, rng.choice([0.2, 0.5, 1.0]))
        res.append(dict(op, target=p2 + ("?" + query if query else "")))
    return res


def slash_variants(rng, op):
    """insert an encoded slash (both hex cases) into a segment"""
    path, _, query = op["target"].partition("?")
    segs = path.split("/")
    cand = [i for i, s in enumerate(segs) if s]
    if not cand:
        return []
    i = rng.choice(cand)
    out = []
    for enc in ("%2F", "%2f"):
        s2 = list(segs)
        pos = rng.randrange(len(s2[i]) + 1)
        while pos > 0 and pos < len(s2[i]) and "%" in s2[i][max(0, pos - 2):pos]:
            pos -= 1
        s2[i] = s2[i][:pos] + enc + s2[i][pos:]
        out.append(dict(op, target="/".join(s2) + ("?" + query if query else "")))
    return out


def canonical_target(rng, exprs):
    t = gen_repo.gen_target(rng, exprs, raw=True, extra=PERCENT_VALUES + DOT_SEGMENTS[:9] + DOT_SLASH_SEGMENTS[:4])
    return t


def norm_unreserved(p):
    """undo the escapes of unreserved octets (RFC 3986 6.2.2.2); every other escape stays as written"""
    out, i = [], 0
    while i < len(p):
        if p[i] == "%" and i + 2 < len(p) + 0 and all(c in "0123456789abcdefABCDEF" for c in p[i + 1:i + 3]) and len(p[i + 1:i + 3]) == 2:
            c = chr(int(p[i + 1:i + 3], 16))
            if c in gen_repo.UNRESERVED:
                out.append(c)
            else:
                out.append(p[i:i + 3])
            i += 3
        else:
            out.append(p[i])
            i += 1
    return "".join(out)


def pp_key(pp):
    return (pp.get("name"), pp.get("type"), pp.get("value"))


def shared_definitions(case):
    """path_params definitions (name, type, value) that rules with different encoded-slash settings of this history
    have in common"""
    seen = {}
    for o in case["ops"]:
        for r in o.get("rules", []):
            for rt in r.get("routes", []):
                for pp in rt.get("pp", []):
                    seen.setdefault(pp_key(pp), set()).add(r.get("esh") or "off")
    return {k for k, v in seen.items() if len(v) > 1}


def rules_by_version(case):
    res = {}
    for o in case["ops"]:
        for r in o.get("rules", []):
            if r.get("ver"):
                res[str(r["ver"])] = r
    return res


def spelling_view(res):
    """what has to be the same for all spellings of one request: everything, except that of the path sent upstream the
    normal form counts (escapes of unreserved octets undone; every other escape, the encoded slash included, as sent)"""
    if not isinstance(res, dict):
        return res
    v = copy.deepcopy(res)
    for r in (v, v.get("envoy") if isinstance(v.get("envoy"), dict) else {}):
        if isinstance(r.get("up"), dict):
            r["up"]["path"] = norm_unreserved(str(r["up"]["path"]))
        if isinstance(r.get("sent"), str) and not r["sent"].startswith("hex:"):
            path, q, query = r["sent"].partition("?")
            r["sent"] = norm_unreserved(path) + q + query
    return v


def sent_path(res):
    """path part of the request target the proxy wrote to the upstream connection (None: nothing written / not ASCII);
    an empty path is written as `/`"""
    sent = res.get("sent")
    if not isinstance(sent, str) or sent.startswith("hex:"):
        return None
    path = sent.partition("?")[0]
    if path == "/" and isinstance(res.get("up"), dict) and res["up"].get("path") == "":
        return ""
    return path


def cut_status(op, rule):
    strip = ((rule or {}).get("forward_to") or {}).get("rewrite", {}).get("strip", "")
    return bool(strip) and op["target"].partition("?")[0].startswith(strip)


def drop_up_path(v):
    v = copy.deepcopy(v)
    for r in (v, v.get("envoy") if isinstance(v.get("envoy"), dict) else {}):
        if isinstance(r.get("up"), dict):
            r["up"].pop("path", None)
        if isinstance(r.get("sent"), str):
            r["sent"] = "?" + r["sent"].partition("?")[2]
    return v


def without_envoy(res):
    """the answer through the request context of the HTTP based services alone (what only the proxy service adds - the
    request target written to the upstream connection - is not part of the comparison of the two contexts)"""
    return {k: x for k, x in res.items() if k not in ("envoy", "sent")}


def slash_clause(op, res, rule, path=None):
    """encoded slashes of the request in the path sent upstream; None = fine, otherwise what is wrong.
    path: the path to judge instead of the one of the URL the rule returned (the one the proxy wrote to the upstream)"""
    if not isinstance(res, dict) or rule is None:
        return None
    raw = op["target"].partition("?")[0]
    slashes = [raw[i:i + 3] for i in range(len(raw) - 2) if raw[i:i + 3] in ("%2F", "%2f")]
    esh = rule.get("esh") or "off"
    if esh == "off" and slashes:
        if res.get("exec") != "argument" or "up" in res:
            return "setting off: a request with an encoded slash was not answered with the precondition error"
        return None
    up = res.get("up")
    if not isinstance(up, dict):
        return None
    rw = (rule.get("forward_to") or {}).get("rewrite") or {}
    add, strip = rw.get("add", ""), rw.get("strip", "")
    if add not in PLAIN_ADD or "%" in strip or raw.isascii() is False or any(ord(c) < 33 for c in raw):
        return None
    path = str(up["path"]) if path is None else path
    if not path.startswith(add):
        return f"the path sent upstream does not start with add_path_prefix {add!r}"
    sent = path[len(add):]
    got = [sent[i:i + 3] for i in range(len(sent) - 2) if sent[i:i + 3] in ("%2F", "%2f")]
    if esh == "no_decode" and got != slashes:
        return (f"setting no_decode: the request has the encoded slashes {slashes}, the path sent upstream {path!r} "
                f"has {got}")
    if esh == "on" and got:
        return f"setting on: the path sent upstream {path!r} still has an encoded slash"
    # what is sent decodes to what was received (behind the prefix that was cut, if any)
    dec_raw, dec_sent = urllib.parse.unquote_to_bytes(raw), urllib.parse.unquote_to_bytes(sent)
    if (not strip and dec_sent != dec_raw) or (strip and not dec_raw.endswith(dec_sent)):
        return (f"setting {esh}: the path sent upstream {path!r} does not decode to the decoded request path"
                + (" (behind the stripped prefix)" if strip else ""))
    return None


# path_params definitions whose verdict on a captured value with an encoded slash depends on how the value is decoded
# (`on`: `a/b`, `no_decode`: `a%2Fb`; the glob separator is `/`), next to ones that do not care
SHARED_PP = [("glob", "a*"), ("glob", "a**"), ("glob", "*b"), ("glob", "**"), ("glob", "*"), ("glob", "a?b"),
             ("glob", "a*b"), ("exact", "a/b"), ("exact", "a%2Fb"), ("exact", "a%2fb"), ("exact", "ab"),
             ("regex", "^a"), ("regex", "b$"), ("regex", "^a.b$"), ("regex", "^a...b$"), ("regex", "a/b")]
SHARED_VALUES = ["a%2Fb", "a%2fb", "a%2Fb", "ab", "a", "a%2Fb%2fc", "%2F", "a%252Fb", "a%2F", "axb", "a%20b", "b"]
ESH = ["", "off", "on", "no_decode"]


def shared_pp_case(rng):
    """Several rules - of one rule set or of several, loaded one after the other into ONE rule factory - carry the very
    same path_params definition (name, type, value) under DIFFERENT encoded-slash settings, and rule sets are
    re-loaded with nothing but the setting of one rule changed (the documented hot reload).  What a route answers to a
    request with an encoded slash in the captured segment has to follow the setting of ITS rule as currently loaded,
    whatever was compiled in the process before."""
    name = rng.choice(["x", "id", "name"])
    ptype, pvalue = rng.choice(SHARED_PP)
    lits = rng.sample(["f", "g", "h", "files", "k"], rng.choice([2, 2, 3, 4]))
    settings = [rng.choice(ESH) for _ in lits]
    if len({x or "off" for x in settings}) == 1:       # at least two effective settings
        settings[-1] = rng.choice([x for x in ("off", "on", "no_decode") if x != (settings[0] or "off")])

    def mk(i, lit, esh):
        gen_repo.VERSION[0] += 1
        tail = rng.choice(["", "", "", "/*rest", "/z"])
        pp = [{"name": name, "type": ptype, "value": pvalue}]
        if rng.random() < 0.15:   # a definition of its own now and then: same name, other expression
            t2, v2 = rng.choice(SHARED_PP)
            pp = [{"name": name, "type": t2, "value": v2}]
        routes = [{"path": f"/{lit}/:{name}{tail}", "pp": pp}]
        if rng.random() < 0.25:   # a second route of the same rule with the same definition, and one without any
            routes.append({"path": f"/{lit}2/:{name}", "pp": rng.choice([pp, []])})
        rule = {"id": "r%d" % i, "bt": rng.choice([True, False, None]), "esh": esh, "scheme": "", "methods": [],
                "hosts": [], "routes": routes, "ver": gen_repo.VERSION[0]}
        if rng.random() < 0.5:
            rule["forward_to"] = gen_repo.gen_forward_to(rng, routes)
        return rule

    def flip(rule):
        """the same rule, only `allow_encoded_slashes` differs"""
        gen_repo.VERSION[0] += 1
        r2 = copy.deepcopy(rule)
        r2["esh"] = rng.choice([x for x in ESH if (x or "off") != (rule["esh"] or "off")])
        r2["ver"] = gen_repo.VERSION[0]
        return r2

    rules = [mk(i, lit, esh) for i, (lit, esh) in enumerate(zip(lits, settings))]
    rng.shuffle(rules)
    nsrc = rng.choice([1, 2, 2, 3])
    live = {}
    for k, r in enumerate(rules):
        live.setdefault("s%d" % (1 + k % nsrc), []).append(r)
    ops, groups = [], []

    def lookups():
        for r in [x for rs in live.values() for x in rs]:
            for rt in r["routes"]:
                for v in rng.sample(SHARED_VALUES, rng.choice([1, 2, 2, 3])):
                    t = rt["path"].replace(":" + name, v).replace("*rest", rng.choice(["q", "q/r", "a%2Fb"]))
                    if rng.random() < 0.15:
                        t += "?" + rng.choice(["a=b", "x=%2F", "q"])
                    f = {"op": "find", "method": rng.choice(gen_repo.METHODS), "host": rng.choice(gen_repo.HOSTS),
                         "target": t}
                    vs = [f] + variants(rng, f, rng.choice([1, 2]))
                    groups.append((len(ops), len(vs)))
                    ops.extend(vs)

    for src in sorted(live):
        ops.append({"op": "add", "src": src, "rules": list(live[src])})
        if rng.random() < 0.3:
            lookups()
    lookups()
    for _ in range(rng.choice([0, 1, 1, 2])):
        src = rng.choice(sorted(live))
        x = rng.random()
        if x < 0.65 or len(live) == 1:
            # hot reload: one rule of the rule set comes back with another setting, the others as they were
            k = rng.randrange(len(live[src]))
            live[src] = [flip(r) if j == k else r for j, r in enumerate(live[src])]
            ops.append({"op": "upd", "src": src, "rules": list(live[src])})
        else:
            # the rule set is removed and loaded again later, every rule with another setting
            ops.append({"op": "del", "src": src})
            rs = live.pop(src)
            if rng.random() < 0.5:
                lookups()
            live[src] = [flip(r) for r in rs]
            ops.append({"op": "add", "src": src, "rules": list(live[src])})
        lookups()
    return {"fam": "repo", "envoy": True, "proxy": True, "dr": rng.random() < 0.5, "dr_bt": rng.random() < 0.5,
            "ops": ops}, groups


# Dot segments.  `.` is an unreserved character: `.`, `%2E` and `%2e` are the same octet, so `/files/./a`, `/files/%2E/a`
# and `/files/%2e/a` are spellings of ONE request, and so are `..`, `%2E%2E`, `.%2E`, `%2e.`.  Whether a segment is a dot
# segment can therefore only be said of the DECODED path - and next to an encoded slash the decoded path has segment
# borders the received one has not (`docs%2F..`).  Heimdall routes on segments as received and forwards them as the
# setting of the rule says; nothing resolves, drops or re-spells a dot segment.
DOT_SEGMENTS = [".", "..", "%2E", "%2e", "%2E%2E", "%2e%2e", ".%2E", "%2e.", "%2E%2e", "...", ".a", "a.", "..a", ".%2E."]
DOT_SLASH_SEGMENTS = ["docs%2F..", "..%2Fa", "a%2F.%2Fb", "%2F..", "..%2f", "a%2f%2E%2E", "%2E%2F%2e", "a%2F.", ".%2Fb",
                      "a%2F%2e%2e%2Fb", "..%2F..", "a%2Fb"]
DOT_LITS = ["files", "docs", "d", "v1.0", "api"]


def dot_segment_case(rng):
    """Rules (all three settings, most with a backend, every shape of `rewrite`) over wildcard expressions and over
    literal expressions that spell a dot segment themselves, and requests whose paths carry dot segments in every
    spelling (`.`, `..`, `%2E`, `%2e%2e`, `.%2E`, ...) at any position - first, in the middle, last, several - alone,
    next to an encoded slash (`docs%2F..`, `..%2fa`) and in one path with an encoded slash elsewhere."""
    lits = rng.sample(DOT_LITS, rng.choice([2, 3, 3, 4]))
    rules = []
    for i, lit in enumerate(lits):
        gen_repo.VERSION[0] += 1
        shape = rng.choice(["rest", "rest", "two", "one", "mid", "lit", "free"])
        dot = rng.choice([".", "..", "%2E", "%2e%2e"])
        paths = {"rest": [f"/{lit}/*rest"], "two": [f"/{lit}/:x/:y", f"/{lit}/:x"], "one": [f"/{lit}/:x", f"/{lit}/:x/a"],
                 "mid": [f"/{lit}/:x/a", f"/{lit}/:x/:y/a"], "lit": [f"/{lit}/{dot}/a", f"/{lit}/:x/a", f"/{lit}/{dot}"],
                 "free": [f"/{lit}/**"]}[shape]
        routes = []
        for p in paths:
            pp = []
            if ":x" in p and rng.random() < 0.3:
                pp = [dict(rng.choice([{"type": "glob", "value": "*"}, {"type": "glob", "value": ".*"},
                                       {"type": "exact", "value": ".."}, {"type": "exact", "value": "."},
                                       {"type": "regex", "value": "^..$"}, {"type": "glob", "value": "**"},
                                       {"type": "regex", "value": "^.$"}]), name="x")]
            routes.append({"path": p, "pp": pp})
        rule = {"id": "r%d" % i, "bt": rng.choice([True, False, None]),
                "esh": rng.choice(["", "off", "on", "no_decode", "no_decode", "on"]), "scheme": "", "methods": [],
                "hosts": [], "routes": routes, "ver": gen_repo.VERSION[0]}
        if rng.random() < 0.85:
            rule["forward_to"] = gen_repo.gen_forward_to(rng, routes) if rng.random() < 0.6 else \
                {"host": rng.choice(gen_repo.UP_HOSTS)}
        rules.append(rule)
    nsrc = rng.choice([1, 1, 2])
    ops = []
    for k in range(nsrc):
        rs = rules[k::nsrc]
        if rs:
            ops.append({"op": "add", "src": "s%d" % (k + 1), "rules": rs})
    groups = []
    plain = ["a", "b", "docs", "x", "a%20b", "v1.0"]
    for _ in range(rng.choice([4, 5, 6, 8])):
        lit = rng.choice(lits)
        if rng.random() < 0.6:
            # along an expression of one of the rules: wildcards take plain values and dot segments, a dot segment the
            # expression spells is sent in that and in other spellings
            e = rng.choice([rt["path"] for r in rules for rt in r["routes"]]).split("/")[1:]
            lit, segs = e[0], []
            for sg in e[1:]:
                if sg.startswith(":"):
                    segs.append(rng.choice(plain + DOT_SEGMENTS[:9]))
                elif sg.startswith("*"):
                    segs += [rng.choice(plain + DOT_SEGMENTS[:6]) for _ in range(rng.choice([1, 2, 3]))]
                elif urllib.parse.unquote(sg) in (".", ".."):
                    segs.append(rng.choice([sg, sg, urllib.parse.unquote(sg), "%2E" * len(urllib.parse.unquote(sg))]))
                else:
                    segs.append(sg)
            segs = segs or [rng.choice(plain)]
            if not dot_segments_of("/" + "/".join(segs)) or rng.random() < 0.2:
                segs.insert(rng.randrange(len(segs) + 1), rng.choice(DOT_SEGMENTS))
        else:
            n = rng.choice([1, 2, 2, 3, 4])
            segs = [rng.choice(plain) for _ in range(n)]
            for _ in range(rng.choice([1, 1, 2])):          # dot segments, any position
                segs.insert(rng.randrange(len(segs) + 1), rng.choice(DOT_SEGMENTS))
        x = rng.random()
        if x < 0.4:                                       # an encoded slash right next to a dot segment
            segs[rng.randrange(len(segs))] = rng.choice(DOT_SLASH_SEGMENTS)
        elif x < 0.7:                                     # ... or elsewhere in the path
            k = rng.randrange(len(segs))
            segs[k] = rng.choice(["a%2Fb", "a%2fb", "%2F", segs[k] + "%2F", "%2f" + segs[k]])
        head = [lit] if rng.random() < 0.9 else [rng.choice(DOT_SEGMENTS), lit]
        t = "/" + "/".join(head + segs) + rng.choice(["", "", "", "/", "?a=b", "?x=%2E%2E%2F"])
        f = {"op": "find", "method": rng.choice(gen_repo.METHODS), "host": rng.choice(gen_repo.HOSTS), "target": t}
        vs = [f] + variants(rng, f, 3)
        groups.append((len(ops), len(vs)))
        ops += vs
    return {"fam": "repo", "envoy": True, "proxy": True, "dr": rng.random() < 0.5, "dr_bt": rng.random() < 0.5,
            "ops": ops}, groups


def dot_segments_of(target):
    """positions (segment indices) of the segments of the received path that decode to `.` or `..`"""
    path = target.partition("?")[0]
    return [k for k, sg in enumerate(path.split("/")) if urllib.parse.unquote(sg) in (".", "..")]


def gen_case(rng):
    x = rng.random()
    if x < 0.12:
        return shared_pp_case(rng)
    if x < 0.22:
        return dot_segment_case(rng)
    base = gen_repo.gen_repo_case(rng, max_ops=6, fwd=0.6)
    ops = [o for o in base["ops"] if o["op"] != "find"]
    if not ops:
        return base, []
    exprs = sorted({rt["path"] for o in ops if "rules" in o for r in o["rules"] for rt in r["routes"]}) or ["/a"]
    groups = []   # (start index, count) of spellings of one logical request
    for _ in range(rng.choice([2, 3, 4])):
        f = {"op": "find", "method": rng.choice(gen_repo.METHODS), "host": rng.choice(gen_repo.HOSTS),
             "target": canonical_target(rng, exprs)}
        vs = [f] + variants(rng, f, 3)
        groups.append((len(ops), len(vs)))
        ops += vs
        sv = slash_variants(rng, f)
        for s in sv:
            vs2 = [s] + variants(rng, s, 2)
            groups.append((len(ops), len(vs2)))
            ops += vs2
    # proxy: every forwarded lookup also through the request context of the proxy service (what is written upstream)
    return dict(base, ops=ops, proxy=True), groups


def run(R):
    lean_ok = vlib.step_lean(R, PID)
    go2lean_c08.step(R)      # isUnreserved / unhex translated from the current source, proved equal to the model
    exe = vlib.step_harness(R)
    if exe is None:
        R.violation("harness does not build against /repo", {"build_log": R.harness_log[-3000:]}, no_input=True)
        return
    # every corpus case through both request contexts and the proxy's Finalize
    corpus = [dict(c, envoy=True, proxy=True) for c in vlib.load_corpus(PID)]
    n = 1200 if R.tier == "quick" else 90000
    gen = [gen_case(R.rng) for _ in range(n)]
    cases = corpus + [g[0] for g in gen]
    groups = [[tuple(g) for g in c.get("groups", [])] for c in corpus] + [g[1] for g in gen]
    impl, model, nbad = rc.check_correspondence(R, exe, cases, "percent-encoded request path")
    # SPEC oracle on the implementation: all spellings of one logical request are served alike, the two request
    # contexts agree, encoded slashes appear in the path sent upstream as the setting of the rule says
    ngroups = 0
    nontriv = set()
    viol = 0
    slash_seen = {"off_rejected": 0, "no_decode_kept": 0, "on_decoded": 0}
    up_seen = {"forwarded_lookups": 0, "forwarded_groups_with_respelling": 0, "no_decode_slash_sent_encoded": 0,
               "on_slash_sent_decoded": 0, "literal_prefix_cut_depends_on_spelling": 0, "envoy_lookups": 0,
               "written_by_proxy": 0, "rewrite_shapes": {}}

    dot_seen = {"lookups_with_dot_segment": 0, "forwarded": 0, "next_to_encoded_slash": 0, "no_decode_with_encoded_slash": 0,
                "written_by_proxy": 0, "answered_by_literal_dot_expression": 0}
    shared_seen = {"lookups_with_encoded_slash": 0, "answered_off": 0, "answered_on": 0, "answered_no_decode": 0}
    said = set()

    def report(what, c, keep_ops, kind):
        nonlocal viol
        if what in said:
            return
        said.add(what)
        viol += 1
        if viol <= 4:
            keep = [o for o in c["ops"] if o["op"] != "find"] + keep_ops
            R.violation(what, {"case": dict(c, ops=keep), "kind": kind}, no_input=False)

    for c, i, gs in zip(cases, impl, groups):
        if not isinstance(i, list):
            continue
        byver = rules_by_version(c)
        shared = shared_definitions(c)
        # every lookup on its own: the two request contexts, the encoded-slash clause for the path sent upstream
        for op, r in zip(c["ops"], i):
            if op["op"] != "find" or not isinstance(r, dict):
                continue
            rule = byver.get(str(r.get("ver"))) if r.get("ver") else None
            if rule is not None and "%2f" in op["target"].partition("?")[0].lower() and any(
                    pp_key(pp) in shared for rt in rule["routes"] for pp in rt.get("pp", [])):
                shared_seen["lookups_with_encoded_slash"] += 1
                shared_seen["answered_" + (rule.get("esh") or "off")] += 1
            if isinstance(r.get("envoy"), dict):
                up_seen["envoy_lookups"] += 1
                if not r.get("badrequest") and vlib.canon(r["envoy"]) != vlib.canon(without_envoy(r)):
                    report("the request context of the Envoy ext_authz service and the one of the HTTP based services "
                           f"disagree on rule / captured values / acceptance / upstream URL for {op['target']}: "
                           f"http {json.dumps(without_envoy(r))[:220]} envoy {json.dumps(r['envoy'])[:220]}",
                           c, [op], "impl-http-context-vs-envoy-context")
            dots = dot_segments_of(op["target"])
            if dots:
                dot_seen["lookups_with_dot_segment"] += 1
                raw_path = op["target"].partition("?")[0]
                if rule is not None and any(urllib.parse.unquote(sg) in (".", "..")
                                            for rt in rule["routes"] for sg in rt["path"].split("/")):
                    dot_seen["answered_by_literal_dot_expression"] += 1
                if isinstance(r.get("up"), dict):
                    dot_seen["forwarded"] += 1
                    if "%2f" in raw_path.lower():
                        dot_seen["next_to_encoded_slash"] += 1
                        if (rule or {}).get("esh") == "no_decode":
                            dot_seen["no_decode_with_encoded_slash"] += 1
                    # a dot segment is forwarded, never resolved: the path sent has as many segments decoding to
                    # `.` / `..` behind every prefix as the received one (rules without strip_path_prefix; under `on`
                    # the segments are those of the decoded path)
                    rw = ((rule or {}).get("forward_to") or {}).get("rewrite") or {}
                    for what, pth in (("the URL the rule returned", str(r["up"]["path"])), ("the request line the proxy "
                                      "wrote", sent_path(r))):
                        if pth is None or rw.get("strip") or rw.get("add", "") not in PLAIN_ADD or not raw_path.isascii():
                            continue
                        if what.startswith("the request line"):
                            dot_seen["written_by_proxy"] += 1
                        view = (lambda x: urllib.parse.unquote(x, errors="replace")) if (rule or {}).get("esh") == "on" \
                            else (lambda x: x)
                        want = len(dot_segments_of(view(raw_path)))
                        got = len(dot_segments_of(view(pth[len(rw.get("add", "")):])))
                        if got != want:
                            report(f"dot segments are forwarded as received, never resolved or dropped: the request "
                                   f"{op['target']} has {want} of them, the path of {what} {pth!r} has {got} (rule "
                                   f"{r.get('rule')}, setting {(rule or {}).get('esh') or 'off'})", c, [op],
                                   "impl-dot-segment-resolved")
            if isinstance(r.get("up"), dict):
                up_seen["forwarded_lookups"] += 1
                shape = "+".join(sorted(((rule or {}).get("forward_to") or {}).get("rewrite", {}).keys())) or "none"
                up_seen["rewrite_shapes"][shape] = up_seen["rewrite_shapes"].get(shape, 0) + 1
            # what the proxy service wrote to the upstream connection: the URL the rule returned, and the encoded
            # slashes of the request in it as the setting of the rule says
            if c.get("proxy") and isinstance(r.get("up"), dict) and \
                    (r["up"].get("scheme") in ("http", "https") or "sent" in r) and \
                    not any(str(x).startswith("hex:") for x in (r["up"]["path"], r["up"]["query"], r.get("sent"))):
                want = (r["up"]["path"] or "/") + ("?" + r["up"]["query"] if r["up"]["query"] else "")
                if r.get("sent") != want:
                    report(f"the request target the proxy service wrote to the upstream ({r.get('sent')!r}) is not the "
                           f"one of the URL the rule computed ({want!r}; scheme {r['up'].get('scheme')}) for the request "
                           f"{op['target']}, rule {r.get('rule')}", c, [op], "impl-proxy-request-line-vs-rule-url")
            sp = sent_path(r)
            if sp is not None:
                up_seen["written_by_proxy"] += 1
                bad = slash_clause(op, r, rule, path=sp)
                if bad:
                    report(f"{bad} — in the request line the proxy service wrote to the upstream: {r['sent']!r} "
                           f"(request {op['target']}, rule {r.get('rule')})", c, [op], "impl-proxy-sent-encoded-slash")
            for rr in (r, r.get("envoy")):
                if not isinstance(rr, dict) or rr.get("badrequest") or rr.get("ver") != r.get("ver"):
                    continue
                bad = slash_clause(op, rr, rule)
                if bad:
                    report(f"{bad} (request {op['target']}, rule {rr.get('rule')})", c, [op], "impl-upstream-encoded-slash")
                elif isinstance(rr.get("up"), dict) and "%2f" in op["target"].partition("?")[0].lower() and rr is r:
                    esh = (rule or {}).get("esh")
                    if esh == "no_decode" and "%2f" in str(rr["up"]["path"]).lower():
                        up_seen["no_decode_slash_sent_encoded"] += 1
                    elif esh == "on":
                        up_seen["on_slash_sent_decoded"] += 1
        for (st, cnt) in gs:
            ngroups += 1
            ref = i[st]
            tg = c["ops"][st]["target"]
            rule = byver.get(str(ref.get("ver"))) if isinstance(ref, dict) and ref.get("ver") else None
            refv = spelling_view(ref)
            fwd_group = isinstance(ref, dict) and isinstance(ref.get("up"), dict)
            if fwd_group and "%" in "".join(c["ops"][k]["target"] for k in range(st + 1, st + cnt)):
                up_seen["forwarded_groups_with_respelling"] += 1
            for k in range(st, st + cnt):
                x = spelling_view(i[k])
                if vlib.canon(x) == vlib.canon(refv):
                    continue
                # strip_path_prefix is a literal cut on the received spelling: a prefix spelled with escapes is not
                # cut. The property speaks about rule, captured values, acceptance and encoded slashes, not about
                # the prefix; recorded as an observation (design/C08.md), the rest of the answer has to agree
                if fwd_group and isinstance(x, dict) and (rule or {}).get("esh") != "on" and \
                        cut_status(c["ops"][k], rule) != cut_status(c["ops"][st], rule) and \
                        vlib.canon(drop_up_path(x)) == vlib.canon(drop_up_path(refv)):
                    up_seen["literal_prefix_cut_depends_on_spelling"] += 1
                    continue
                report("re-encoding unreserved characters changed the outcome: "
                       f"{tg} -> {json.dumps(ref)[:260]} but {c['ops'][k]['target']} -> {json.dumps(i[k])[:260]}",
                       c, [c["ops"][st], c["ops"][k]], "impl-spelling-vs-impl-respelling")
                break
            if isinstance(ref, dict) and ref.get("rule") and not str(ref["rule"]).startswith("config/") and "%" in "".join(
                    c["ops"][k]["target"] for k in range(st + 1, st + cnt)):
                nontriv.add(vlib.case_hash({"ops": [o for o in c["ops"] if o["op"] != "find"], "t": tg}))
            if "%2f" in tg.lower().split("?")[0] and isinstance(ref, dict):
                if ref.get("exec") == "argument":
                    slash_seen["off_rejected"] += 1
                elif any("%2f" in str(v[1]).lower() for v in ref.get("caps", [])):
                    slash_seen["no_decode_kept"] += 1
                elif ref.get("exec") == "ok" and (rule or {}).get("esh") == "on":
                    slash_seen["on_decoded"] += 1
    st = rc.stats_sum(model)
    R.coverage.update({
        "evaluations": sum(len(c["ops"]) for c in cases), "distinct_nontrivial": len(nontriv),
        "rule": "rule sets mixing literal and wildcard expressions for the same paths (with/without path_params, all "
                "three encoded-slash settings, with/without default rule); every request is sent in its given spelling "
                "and in 3 re-encodings of random subsets of its unreserved octets (random hex case), plus %2F/%2f "
                "insertions with 2 re-encodings each, through BOTH real request contexts (HTTP based services, Envoy "
                "ext_authz) + repository + rule; 60 % of the rules have a backend (forward_to: no rewrite / scheme / "
                "strip_path_prefix / add_path_prefix / both / query parameters), for which the URL of "
                "Backend.CreateURL / URLRewriter.Rewrite is observed; compared with the Lean model, spelling against "
                "spelling, context against context, and with the encoded-slash clause for the path sent upstream. Every "
                "forwarded lookup is made a third time through the request context of the PROXY service, whose "
                "Finalize (httputil.ReverseProxy + rewriteRequest) writes the request to a recording upstream "
                "connection: the request target found there is compared with the model, with the URL the rule "
                "returned, and with the encoded-slash clause. 12 % of the histories load several rules with the very "
                "same path_params definition under different encoded-slash settings into one rule factory and re-load "
                "rule sets with only the setting of a rule changed. 10 % of the histories are about dot segments: "
                "requests with `.` / `..` in every spelling (%2E, %2e%2E, .%2E ...) at any position, alone, next to an "
                "encoded slash (docs%2F..) and beside one, against wildcard rules and rules whose literal expression "
                "spells a dot segment, all settings and rewrite shapes. Non-trivial = group whose reference is answered by "
                "a regular rule and that contains a percent-encoded spelling; distinct by (rule sets, target)",
        "spelling_groups": ngroups, "encoded_slash_outcomes": slash_seen, "upstream_url": up_seen,
        "path_params_definition_shared_across_settings": shared_seen, "dot_segments": dot_seen,
        "lookups_forwarded_model": st.get("forwarded", 0),
        "lookups_matched": st.get("matched", 0), "lookups_default_rule": st.get("default", 0),
        "corpus_cases": len(corpus), "samples": [cases[len(corpus)]] if len(cases) > len(corpus) else [cases[0]],
    })
    R.assumptions += [
        "net/url's parsing of the request line (url.ParseRequestURI, EscapedPath) is used as is by the harness and "
        "trusted; generated targets stay inside the characters net/url keeps verbatim in EscapedPath",
        "of the URL sent upstream only the path (and that scheme, host and raw query do not depend on the spelling) "
        "belongs to C08; the forwarding of headers, body and method is C15's",
        "the request line the proxy writes is observed on an in-memory connection handed out by a net/http Transport "
        "that replaces the one of the proxy's request context (white-box); net/http's Transport and "
        "httputil.ReverseProxy are used as they are (modelled: the request line carries URL.RequestURI() of the "
        "outgoing URL, schemes http / https only); the rule factory of the harness runs in decision mode (proxy mode "
        "additionally refuses rules without forward_to at load time, nothing else differs)",
        "the CheckRequest handed to grpcv3.NewRequestContext carries the request target as received in `path` (the "
        "documented contract of Envoy's ext_authz filter); what Envoy itself does to a path before is not modelled",
    ]
    if not lean_ok:
        R.violation("theorems of Props/C08.lean no longer check: " + "; ".join(R.lean["failed"])[:600],
                    {"lean_log": R.lean["log"], "failed": R.lean["failed"]}, no_input=True)
    go2lean_c08.report(R, exe)
    R.violations.sort(key=lambda v: v[2])      # the replay file carries the first violation: concrete inputs first


replay = rc.replay
