"""C08 — percent-encoding cannot change the matched rule; encoded slashes obey the rule."""
import copy
import json
import urllib.parse

import gen_repo
import go2lean_c08
import repo_common as rc
import vlib

PID = "C08"

# segments whose only escape is an encoded percent sign: such a path is its own default encoding (net/url keeps no raw
# path for it), and decoding it twice shows (`%2561` -> `%61` -> `a`)
PERCENT_VALUES = ["%2561dmin", "100%25", "a%252Fb", "v1%2541", "%25", "%2541"]
# add_path_prefix values the property-level oracle reasons about (the others are left to the model)
PLAIN_ADD = ("", "/x", "/v2/app", "/svc-1", "/~u", "x")


def variants(rng, op, k):
    """the lookup in its given spelling, then k re-encodings of unreserved octets (either hex case)"""
    res = []
    tgt = op["target"]
    path, _, query = tgt.partition("?")
    for _ in range(k):
        p2 = gen_repo.reencode(rng, path, rng.choice([0.2, 0.5, 1.0]))
        res.append(dict(op, target=p2 + ("?" + query if query else "")))
    return res


def slash_variants(rng, op):
    """insert an encoded slash (both hex cases) into a segment"""
    path, _, query = op["target"].partition("?")
    segs = path.split("/")
    cand = [i for i, s in enumerate(segs) if s]
    if not cand:
        return []
    i = rng.choice(cand)
    out = []
    for enc in ("%2F", "%2f"):
        s2 = list(segs)
        pos = rng.randrange(len(s2[i]) + 1)
        while pos > 0 and pos < len(s2[i]) and "%" in s2[i][max(0, pos - 2):pos]:
            pos -= 1
        s2[i] = s2[i][:pos] + enc + s2[i][pos:]
        out.append(dict(op, target="/".join(s2) + ("?" + query if query else "")))
    return out


def canonical_target(rng, exprs):
    t = gen_repo.gen_target(rng, exprs, raw=True, extra=PERCENT_VALUES)
    return t


def norm_unreserved(p):
    """undo the escapes of unreserved octets (RFC 3986 6.2.2.2); every other escape stays as written"""
    out, i = [], 0
    while i < len(p):
        if p[i] == "%" and i + 2 < len(p) + 0 and all(c in "0123456789abcdefABCDEF" for c in p[i + 1:i + 3]) and len(p[i + 1:i + 3]) == 2:
            c = chr(int(p[i + 1:i + 3], 16))
            if c in gen_repo.UNRESERVED:
                out.append(c)
            else:
                out.append(p[i:i + 3])
            i += 3
        else:
            out.append(p[i])
            i += 1
    return "".join(out)


def rules_by_version(case):
    res = {}
    for o in case["ops"]:
        for r in o.get("rules", []):
            if r.get("ver"):
                res[str(r["ver"])] = r
    return res


def spelling_view(res):
    """what has to be the same for all spellings of one request: everything, except that of the path sent upstream the
    normal form counts (escapes of unreserved octets undone; every other escape, the encoded slash included, as sent)"""
    if not isinstance(res, dict):
        return res
    v = copy.deepcopy(res)
    for r in (v, v.get("envoy") if isinstance(v.get("envoy"), dict) else {}):
        if isinstance(r.get("up"), dict):
            r["up"]["path"] = norm_unreserved(str(r["up"]["path"]))
    return v


def cut_status(op, rule):
    strip = ((rule or {}).get("forward_to") or {}).get("rewrite", {}).get("strip", "")
    return bool(strip) and op["target"].partition("?")[0].startswith(strip)


def drop_up_path(v):
    v = copy.deepcopy(v)
    for r in (v, v.get("envoy") if isinstance(v.get("envoy"), dict) else {}):
        if isinstance(r.get("up"), dict):
            r["up"].pop("path", None)
    return v


def without_envoy(res):
    return {k: x for k, x in res.items() if k != "envoy"}


def slash_clause(op, res, rule):
    """encoded slashes of the request in the path sent upstream; None = fine, otherwise what is wrong"""
    if not isinstance(res, dict) or rule is None:
        return None
    raw = op["target"].partition("?")[0]
    slashes = [raw[i:i + 3] for i in range(len(raw) - 2) if raw[i:i + 3] in ("%2F", "%2f")]
    esh = rule.get("esh") or "off"
    if esh == "off" and slashes:
        if res.get("exec") != "argument" or "up" in res:
            return "setting off: a request with an encoded slash was not answered with the precondition error"
        return None
    up = res.get("up")
    if not isinstance(up, dict):
        return None
    rw = (rule.get("forward_to") or {}).get("rewrite") or {}
    add, strip = rw.get("add", ""), rw.get("strip", "")
    if add not in PLAIN_ADD or "%" in strip or raw.isascii() is False or any(ord(c) < 33 for c in raw):
        return None
    path = str(up["path"])
    if not path.startswith(add):
        return f"the path sent upstream does not start with add_path_prefix {add!r}"
    sent = path[len(add):]
    got = [sent[i:i + 3] for i in range(len(sent) - 2) if sent[i:i + 3] in ("%2F", "%2f")]
    if esh == "no_decode" and got != slashes:
        return (f"setting no_decode: the request has the encoded slashes {slashes}, the path sent upstream {path!r} "
                f"has {got}")
    if esh == "on" and got:
        return f"setting on: the path sent upstream {path!r} still has an encoded slash"
    # what is sent decodes to what was received (behind the prefix that was cut, if any)
    dec_raw, dec_sent = urllib.parse.unquote_to_bytes(raw), urllib.parse.unquote_to_bytes(sent)
    if (not strip and dec_sent != dec_raw) or (strip and not dec_raw.endswith(dec_sent)):
        return (f"setting {esh}: the path sent upstream {path!r} does not decode to the decoded request path"
                + (" (behind the stripped prefix)" if strip else ""))
    return None


def gen_case(rng):
    base = gen_repo.gen_repo_case(rng, max_ops=6, fwd=0.6)
    ops = [o for o in base["ops"] if o["op"] != "find"]
    if not ops:
        return base, []
    exprs = sorted({rt["path"] for o in ops if "rules" in o for r in o["rules"] for rt in r["routes"]}) or ["/a"]
    groups = []   # (start index, count) of spellings of one logical request
    for _ in range(rng.choice([2, 3, 4])):
        f = {"op": "find", "method": rng.choice(gen_repo.METHODS), "host": rng.choice(gen_repo.HOSTS),
             "target": canonical_target(rng, exprs)}
        vs = [f] + variants(rng, f, 3)
        groups.append((len(ops), len(vs)))
        ops += vs
        sv = slash_variants(rng, f)
        for s in sv:
            vs2 = [s] + variants(rng, s, 2)
            groups.append((len(ops), len(vs2)))
            ops += vs2
    return dict(base, ops=ops), groups


def run(R):
    lean_ok = vlib.step_lean(R, PID)
    go2lean_c08.step(R)      # isUnreserved / unhex translated from the current source, proved equal to the model
    exe = vlib.step_harness(R)
    if exe is None:
        R.violation("harness does not build against /repo", {"build_log": R.harness_log[-3000:]}, no_input=True)
        return
    corpus = [dict(c, envoy=True) for c in vlib.load_corpus(PID)]   # every corpus case through both request contexts
    n = 1200 if R.tier == "quick" else 90000
    gen = [gen_case(R.rng) for _ in range(n)]
    cases = corpus + [g[0] for g in gen]
    groups = [[tuple(g) for g in c.get("groups", [])] for c in corpus] + [g[1] for g in gen]
    impl, model, nbad = rc.check_correspondence(R, exe, cases, "percent-encoded request path")
    # SPEC oracle on the implementation: all spellings of one logical request are served alike, the two request
    # contexts agree, encoded slashes appear in the path sent upstream as the setting of the rule says
    ngroups = 0
    nontriv = set()
    viol = 0
    slash_seen = {"off_rejected": 0, "no_decode_kept": 0, "on_decoded": 0}
    up_seen = {"forwarded_lookups": 0, "forwarded_groups_with_respelling": 0, "no_decode_slash_sent_encoded": 0,
               "on_slash_sent_decoded": 0, "literal_prefix_cut_depends_on_spelling": 0, "envoy_lookups": 0,
               "rewrite_shapes": {}}

    said = set()

    def report(what, c, keep_ops, kind):
        nonlocal viol
        if what in said:
            return
        said.add(what)
        viol += 1
        if viol <= 4:
            keep = [o for o in c["ops"] if o["op"] != "find"] + keep_ops
            R.violation(what, {"case": dict(c, ops=keep), "kind": kind}, no_input=False)

    for c, i, gs in zip(cases, impl, groups):
        if not isinstance(i, list):
            continue
        byver = rules_by_version(c)
        # every lookup on its own: the two request contexts, the encoded-slash clause for the path sent upstream
        for op, r in zip(c["ops"], i):
            if op["op"] != "find" or not isinstance(r, dict):
                continue
            rule = byver.get(str(r.get("ver"))) if r.get("ver") else None
            if isinstance(r.get("envoy"), dict):
                up_seen["envoy_lookups"] += 1
                if not r.get("badrequest") and vlib.canon(r["envoy"]) != vlib.canon(without_envoy(r)):
                    report("the request context of the Envoy ext_authz service and the one of the HTTP based services "
                           f"disagree on rule / captured values / acceptance / upstream URL for {op['target']}: "
                           f"http {json.dumps(without_envoy(r))[:220]} envoy {json.dumps(r['envoy'])[:220]}",
                           c, [op], "impl-http-context-vs-envoy-context")
            if isinstance(r.get("up"), dict):
                up_seen["forwarded_lookups"] += 1
                shape = "+".join(sorted(((rule or {}).get("forward_to") or {}).get("rewrite", {}).keys())) or "none"
                up_seen["rewrite_shapes"][shape] = up_seen["rewrite_shapes"].get(shape, 0) + 1
            for rr in (r, r.get("envoy")):
                if not isinstance(rr, dict) or rr.get("badrequest") or rr.get("ver") != r.get("ver"):
                    continue
                bad = slash_clause(op, rr, rule)
                if bad:
                    report(f"{bad} (request {op['target']}, rule {rr.get('rule')})", c, [op], "impl-upstream-encoded-slash")
                elif isinstance(rr.get("up"), dict) and "%2f" in op["target"].partition("?")[0].lower() and rr is r:
                    esh = (rule or {}).get("esh")
                    if esh == "no_decode" and "%2f" in str(rr["up"]["path"]).lower():
                        up_seen["no_decode_slash_sent_encoded"] += 1
                    elif esh == "on":
                        up_seen["on_slash_sent_decoded"] += 1
        for (st, cnt) in gs:
            ngroups += 1
            ref = i[st]
            tg = c["ops"][st]["target"]
            rule = byver.get(str(ref.get("ver"))) if isinstance(ref, dict) and ref.get("ver") else None
            refv = spelling_view(ref)
            fwd_group = isinstance(ref, dict) and isinstance(ref.get("up"), dict)
            if fwd_group and "%" in "".join(c["ops"][k]["target"] for k in range(st + 1, st + cnt)):
                up_seen["forwarded_groups_with_respelling"] += 1
            for k in range(st, st + cnt):
                x = spelling_view(i[k])
                if vlib.canon(x) == vlib.canon(refv):
                    continue
                # strip_path_prefix is a literal cut on the received spelling: a prefix spelled with escapes is not
                # cut. The property speaks about rule, captured values, acceptance and encoded slashes, not about
                # the prefix; recorded as an observation (design/C08.md), the rest of the answer has to agree
                if fwd_group and isinstance(x, dict) and (rule or {}).get("esh") != "on" and \
                        cut_status(c["ops"][k], rule) != cut_status(c["ops"][st], rule) and \
                        vlib.canon(drop_up_path(x)) == vlib.canon(drop_up_path(refv)):
                    up_seen["literal_prefix_cut_depends_on_spelling"] += 1
                    continue
                report("re-encoding unreserved characters changed the outcome: "
                       f"{tg} -> {json.dumps(ref)[:260]} but {c['ops'][k]['target']} -> {json.dumps(i[k])[:260]}",
                       c, [c["ops"][st], c["ops"][k]], "impl-spelling-vs-impl-respelling")
                break
            if isinstance(ref, dict) and ref.get("rule") and not str(ref["rule"]).startswith("config/") and "%" in "".join(
                    c["ops"][k]["target"] for k in range(st + 1, st + cnt)):
                nontriv.add(vlib.case_hash({"ops": [o for o in c["ops"] if o["op"] != "find"], "t": tg}))
            if "%2f" in tg.lower().split("?")[0] and isinstance(ref, dict):
                if ref.get("exec") == "argument":
                    slash_seen["off_rejected"] += 1
                elif any("%2f" in str(v[1]).lower() for v in ref.get("caps", [])):
                    slash_seen["no_decode_kept"] += 1
                elif ref.get("exec") == "ok" and (rule or {}).get("esh") == "on":
                    slash_seen["on_decoded"] += 1
    st = rc.stats_sum(model)
    R.coverage.update({
        "evaluations": sum(len(c["ops"]) for c in cases), "distinct_nontrivial": len(nontriv),
        "rule": "rule sets mixing literal and wildcard expressions for the same paths (with/without path_params, all "
                "three encoded-slash settings, with/without default rule); every request is sent in its given spelling "
                "and in 3 re-encodings of random subsets of its unreserved octets (random hex case), plus %2F/%2f "
                "insertions with 2 re-encodings each, through BOTH real request contexts (HTTP based services, Envoy "
                "ext_authz) + repository + rule; 60 % of the rules have a backend (forward_to: no rewrite / scheme / "
                "strip_path_prefix / add_path_prefix / both / query parameters), for which the URL of "
                "Backend.CreateURL / URLRewriter.Rewrite is observed; compared with the Lean model, spelling against "
                "spelling, context against context, and with the encoded-slash clause for the path sent upstream. Non-trivial = group whose reference is answered by "
                "a regular rule and that contains a percent-encoded spelling; distinct by (rule sets, target)",
        "spelling_groups": ngroups, "encoded_slash_outcomes": slash_seen, "upstream_url": up_seen,
        "lookups_forwarded_model": st.get("forwarded", 0),
        "lookups_matched": st.get("matched", 0), "lookups_default_rule": st.get("default", 0),
        "corpus_cases": len(corpus), "samples": [cases[len(corpus)]] if len(cases) > len(corpus) else [cases[0]],
    })
    R.assumptions += [
        "net/url's parsing of the request line (url.ParseRequestURI, EscapedPath) is used as is by the harness and "
        "trusted; generated targets stay inside the characters net/url keeps verbatim in EscapedPath",
        "of the URL sent upstream only the path (and that scheme, host and raw query do not depend on the spelling) "
        "belongs to C08; the forwarding of headers, body and method is C15's",
        "the CheckRequest handed to grpcv3.NewRequestContext carries the request target as received in `path` (the "
        "documented contract of Envoy's ext_authz filter); what Envoy itself does to a path before is not modelled",
    ]
    if not lean_ok:
        R.violation("theorems of Props/C08.lean no longer check: " + "; ".join(R.lean["failed"])[:600],
                    {"lean_log": R.lean["log"], "failed": R.lean["failed"]}, no_input=True)
    go2lean_c08.report(R, exe)
    R.violations.sort(key=lambda v: v[2])      # the replay file carries the first violation: concrete inputs first


replay = rc.replay
