"""C07 — rule-set changes are atomic for concurrent requests and never lost."""
import itertools
import json
import os
import random
import subprocess

import gen_repo
import vlib

PID = "C07"
PROTO_ARGS = ["-file", os.path.join(vlib.REPO, "internal/rules/repository_impl.go"), "-type", "repository",
              "-name", "repoProtocol", "-methods", "FindRule,AddRuleSet,UpdateRuleSet,DeleteRuleSet",
              "-roles", "K=sync.Mutex,T=sync.RWMutex,index=*radixtree.Tree,known=[]rule.Rule,default=rule.Rule"]


def regenerate(R):
    """Gen/RepoProtocol.lean from the current source; returns error text or None"""
    exe = os.path.join(R.tmp, "proto")
    p = subprocess.run(["go", "build", "-o", exe, "."], cwd=os.path.join(vlib.VERIF, "extract", "proto"),
                       env=vlib.go_env(), capture_output=True, text=True)
    if p.returncode != 0:
        return "extractor does not build: " + p.stderr[-800:]
    p = subprocess.run([exe] + PROTO_ARGS, capture_output=True, text=True)
    if p.returncode != 0:
        return "extractor failed closed: " + p.stderr[-800:]
    path = os.path.join(vlib.LEAN, "HeimdallModel", "Gen", "RepoProtocol.lean")
    with vlib.LeanLock():
        old = open(path).read() if os.path.exists(path) else ""
        if old != p.stdout:
            with open(path, "w") as fh:
                fh.write(p.stdout)
    R.coverage["generated_protocol_events"] = p.stdout.count('",') + p.stdout.count('"\n')
    return None


def _own(src, e):
    """the expression below the subtree of one source"""
    return "/" + src + (e if e.startswith("/") else "/" + e)


def gen_conc_case(rng):
    """2-3 writers changing three sources concurrently, 1-2 readers looking up while they do. Most expressions of a
    source live below its own subtree (so that changes succeed and several sources coexist), some are shared (so that
    the one-source-per-expression constraint rejects changes); updates and deletions mostly hit loaded sources; some
    rule sets are large (a longer window between the first and the last route of a change)."""
    base = gen_repo.http_exprs(rng)
    srcs = ["s1", "s2", "s3"]
    shared = rng.sample(base, min(len(base), rng.choice([0, 1, 2])))
    pool = {s: [_own(s, e) for e in rng.sample(base, min(len(base), rng.choice([2, 3, 4])))] + shared for s in srcs}
    nid = [0]

    def rules_for(src, big=False):
        n = rng.choice([8, 15, 25]) if big else rng.choice([1, 1, 2, 3])
        out = []
        for _ in range(n):
            nid[0] += 1
            out.append(gen_repo.gen_rule(rng, "r%d" % nid[0], pool[src]))
        return out

    init, live = [], set()
    for s in rng.sample(srcs, rng.choice([1, 2, 2])):
        init.append({"op": "add", "src": s, "rules": rules_for(s)})
        live.add(s)
    writers = []
    for w in range(rng.choice([2, 2, 3])):
        ops = []
        for _ in range(rng.choice([1, 2, 2])):
            r = rng.random()
            big = rng.random() < 0.2
            if r < 0.35:
                src = rng.choice([x for x in srcs if x not in live] or srcs)
                ops.append({"op": "add", "src": src, "rules": rules_for(src, big)})
                live.add(src)
            elif r < 0.8:
                src = rng.choice(sorted(live)) if rng.random() < 0.85 else rng.choice(srcs)
                ops.append({"op": "upd", "src": src, "rules": rules_for(src, big)})
            else:
                src = rng.choice(sorted(live)) if rng.random() < 0.85 else rng.choice(srcs)
                ops.append({"op": "del", "src": src})
        writers.append(ops)
    # lookups aimed at what the changes add or remove
    exprs = sorted({rt["path"] for ops in [init] + writers for o in ops for r in o.get("rules", []) for rt in r["routes"]})
    targets = [gen_repo.gen_target(rng, exprs) for _ in range(rng.choice([3, 4, 6]))]

    def q(t):
        return {"op": "find", "method": rng.choice(gen_repo.METHODS[:2]), "host": rng.choice(gen_repo.HOSTS[:2]), "target": t}

    readers = [[q(rng.choice(targets)) for _ in range(rng.choice([3, 5, 8]))] for _ in range(rng.choice([1, 2]))]
    final = [q(gen_repo.gen_target(rng, [e])) for e in exprs[:12]] + [q(t) for t in targets]
    return {"fam": "conc", "dr": rng.random() < 0.5, "dr_bt": rng.random() < 0.5, "init": init, "writers": writers,
            "readers": readers, "laps": rng.choice([1, 3, 6]), "final": final, "seed": rng.randrange(1 << 30)}


PANIC_LIMIT_MS = 3000       # the steps of a scenario take milliseconds; a leaked lock makes one wait for ever
PANIC_CONFIRM_MS = 6000     # a hang is reported only if it shows again when the scenario runs alone, with more time


def gen_panic_case(rng):
    """Scenario family "panicking lookup": a rule whose route matcher panics for a marker request is loaded next to
    ordinary rule sets; lookups that panic (recovered the way the request goroutines recover), rule-set changes that
    panic inside the computation on the private clone (`Routes()` of a rule), then ordinary changes and lookups —
    one after the other, or (`par`) concurrently under scheduling jitter. The harness reports a step that does not
    finish as a deadlock; everything that does finish must be what the sequential model answers (the faulty rule
    lives under a path no other expression covers)."""
    base = gen_repo.http_exprs(rng)
    srcs = ["s1", "s2", "s3"]
    pool = {s: [_own(s, e) for e in rng.sample(base, min(len(base), rng.choice([2, 3])))] for s in srcs}
    nid = [0]

    def rules_for(src):
        out = []
        for _ in range(rng.choice([1, 1, 2, 3])):
            nid[0] += 1
            out.append(gen_repo.gen_rule(rng, "p%d" % nid[0], pool[src]))
        return out

    live = set()
    init = []
    for s in rng.sample(srcs, rng.choice([1, 2])):
        init.append({"op": "add", "src": s, "rules": rules_for(s)})
        live.add(s)

    def change():
        r = rng.random()
        if r < 0.4 and len(live) < len(srcs):
            src = rng.choice([x for x in srcs if x not in live])
            live.add(src)
            return {"op": "add", "src": src, "rules": rules_for(src)}
        if r < 0.8 or not live:
            src = rng.choice(sorted(live) or srcs)
            return {"op": "upd", "src": src, "rules": rules_for(src)}
        src = rng.choice(sorted(live))
        live.discard(src)
        return {"op": "del", "src": src}

    def exprs_now(ops):
        return sorted({rt["path"] for o in ops for r in o.get("rules", []) for rt in r["routes"]}) or ["/s1/a"]

    changes = []

    def finds(k):
        ex = exprs_now(init + changes)
        return [{"op": "find", "method": rng.choice(gen_repo.METHODS[:2]), "host": rng.choice(gen_repo.HOSTS[:2]),
                 "target": gen_repo.gen_target(rng, ex)} for _ in range(k)]

    def panic_step():
        r = rng.random()
        if r < 0.7:
            return {"op": "panicfind", "n": rng.choice([1, 1, 2, 3])}
        nid[0] += 1
        return {"op": rng.choice(["panicadd", "panicdel"]), "src": "zzg%d" % nid[0]}

    steps = finds(rng.choice([1, 2]))
    for _ in range(rng.choice([1, 2, 3])):
        if rng.random() < 0.6:
            steps.append(panic_step())
            ch = change()
            changes.append(ch)
            steps.append(ch)
        else:
            # panicking lookups while a change and ordinary lookups are running
            ch = change()
            sub = [{"op": "panicfind", "n": rng.choice([1, 2])} for _ in range(rng.choice([1, 2]))] + [ch]
            changes.append(ch)
            sub += finds(rng.choice([1, 2]))
            rng.shuffle(sub)
            steps.append({"op": "par", "ops": sub})
            ch = change()
            changes.append(ch)
            steps.append(ch)
        steps += finds(rng.choice([2, 3]))
    return {"fam": "conc", "mode": "panic", "dr": rng.random() < 0.5, "dr_bt": rng.random() < 0.5, "init": init,
            "steps": steps, "timeout_ms": PANIC_LIMIT_MS, "seed": rng.randrange(1 << 30)}


def _is_change(o):
    return o.get("op") in ("add", "upd", "del")


def panic_model_case(case):
    """the sequential history the scenario is compared with (panicking steps left out; the lookups of a `par` step
    once before and once after its change) and, per step, where its answers are"""
    ops, plan = list(case["init"]), []
    for st in case["steps"]:
        if st["op"] == "find" or _is_change(st):
            plan.append(("one", len(ops)))
            ops.append(st)
        elif st["op"] == "par":
            fs = [o for o in st["ops"] if o["op"] == "find"]
            cs = [o for o in st["ops"] if _is_change(o)]
            before = len(ops)
            ops += fs
            at_change = len(ops)
            ops += cs[:1]
            after = len(ops)
            ops += fs
            plan.append(("par", before, at_change, after, len(cs)))
        else:
            plan.append(("panic",))
    return {"fam": "repo", "dr": case["dr"], "dr_bt": case["dr_bt"], "ops": ops}, plan


def check_panic_case(case, res, m=None):
    """(explanation or None, stats): every step that finished answers as the sequential model does — a lookup made
    concurrently with a change (`par`) as before or after it; every panicking step did panic and was recovered."""
    mc, plan = panic_model_case(case)
    if m is None:
        m = vlib.res_of(vlib.run_cases(vlib.driver_cmd(), [mc])[0])
    stats = {"panics_recovered": res.get("panics", 0), "changes_after_a_panic": 0, "lookups_after_a_panic": 0,
             "concurrent_steps": 0}
    if not isinstance(m, list):
        return "model error: " + json.dumps(m)[:200], stats
    ninit = len(case["init"])
    if list(res.get("init", [])) != m[:ninit]:
        return f"initial loads answered {res.get('init')}, sequentially {m[:ninit]}", stats
    seen_panic = False
    for k, (st, pl, got) in enumerate(zip(case["steps"], plan, res["steps"])):
        if pl[0] == "panic":
            want = {"panics": st.get("n", 1), "of": st.get("n", 1)} if st["op"] == "panicfind" else {"panic": True}
            if got != want:
                return f"step {k} ({st['op']}) was expected to panic inside the repository and be recovered, got {got}", stats
            seen_panic = True
        elif pl[0] == "one":
            if vlib.canon(got) != vlib.canon(m[pl[1]]):
                return (f"step {k} ({st['op']} {st.get('src', st.get('target', ''))}) after {stats['panics_recovered']} recovered "
                        f"panic(s) answers {json.dumps(got)[:160]}, the sequential model {json.dumps(m[pl[1]])[:160]}"), stats
            if seen_panic:
                stats["changes_after_a_panic" if _is_change(st) else "lookups_after_a_panic"] += 1
        else:
            _, before, at_change, after, ncs = pl
            stats["concurrent_steps"] += 1
            fi = 0
            for o, g in zip(st["ops"], got):
                if o["op"] == "find":
                    if vlib.canon(g) not in (vlib.canon(m[before + fi]), vlib.canon(m[after + fi])):
                        return (f"step {k}: lookup {o['target']} made while a change and panicking lookups were running answers "
                                f"{json.dumps(g)[:160]}: neither the state before nor the state after the change"), stats
                    fi += 1
                elif _is_change(o):
                    if ncs and g != m[at_change]:
                        return f"step {k}: change {o['op']} {o['src']} returned {g}, sequentially {m[at_change]}", stats
                    stats["changes_after_a_panic"] += 1
                elif g not in ({"panics": o.get("n", 1), "of": o.get("n", 1)}, {"panic": True}):
                    return f"step {k}: {o['op']} was expected to panic and be recovered, got {g}", stats
            seen_panic = True
    return None, stats


def describe_hang(h, case=None):
    who = "lookup"
    if case is not None:
        k = h.get("step", 0)
        before = [o for st in case["steps"][:k + 1] for o in (st.get("ops", []) if st["op"] == "par" else [st])]
        kinds = {"lookup" if o["op"] == "panicfind" else "change" for o in before if o["op"].startswith("panic")}
        who = " and a panicking ".join(sorted(kinds, reverse=True)) or "lookup"
    what = {"add": "rule-set change (add)", "upd": "rule-set change (update)", "del": "rule-set change (delete)",
            "find": "lookup", "par": "rule-set change running next to panicking lookups"}.get(h.get("op"), str(h.get("op")))
    kind = "change never completes" if h.get("op") != "find" else "lookup never completes"
    return (f"lock leaked by a panicking {who}: {kind} — step {h.get('step')} ({what}) did not finish within "
            f"{h.get('after_ms')} ms after {h.get('panics_before')} panic(s) had been recovered (deadlock of requests and "
            f"changes)")


def run_panic_cases(R, exe, cases, env, tot):
    """runs the scenarios in small batches and stops at the first confirmed hang (every further scenario would wait
    for its time limit as well); returns True if a hang or a disagreement was reported"""
    bad = False
    i = 0
    while i < len(cases) and not bad:
        batch = cases[i:i + 3] if i < 6 else cases[i:i + 50]
        i += len(batch)
        models = [vlib.res_of(x) for x in vlib.run_cases(vlib.driver_cmd(), [panic_model_case(c)[0] for c in batch])]
        for c, h, m in zip(batch, vlib.run_cases([exe], batch, env=env, timeout=300), models):
            tot["scenarios"] += 1
            if isinstance(h, dict) and h.get("deadlock"):
                again = vlib.run_cases([exe], [dict(c, timeout_ms=PANIC_CONFIRM_MS)], env=env, timeout=300)[0]
                if isinstance(again, dict) and again.get("deadlock"):
                    # smaller scenario: the panicking steps before the step that hangs, and that step
                    k = again.get("step", len(c["steps"]) - 1)
                    small = dict(c, steps=[o for o in c["steps"][:k] if o["op"].startswith("panic")] + [c["steps"][k]])
                    h2 = vlib.run_cases([exe], [small], env=env, timeout=300)[0] if len(small["steps"]) < len(c["steps"]) else None
                    if isinstance(h2, dict) and h2.get("deadlock"):
                        c, again = small, h2
                    R.violation(describe_hang(again, c), {"case": c, "kind": "panic-deadlock", "impl": again,
                                                         "model": "every step finishes (c07_deadlock_free)"}, no_input=False)
                    bad = True
                    break
                tot["slow_not_hung"] += 1
                h = again
            if not isinstance(h, dict) or "steps" not in h:
                R.violation("harness error in the panicking-lookup scenario: " + json.dumps(h)[:300],
                            {"case": c, "result": h, "kind": "panic-scenario"}, no_input=True)
                bad = True
                continue
            why, st = check_panic_case(c, h, m)
            for k, v in st.items():
                tot[k] += v
            if why:
                R.violation("after a recovered panic inside the repository the rule sets are not what the sequential "
                            "model says: " + why[:500], {"case": c, "impl": h, "kind": "panic-scenario"}, no_input=False)
                bad = True
    return bad


def orders(writers_hist):
    """all total orders of the writer operations consistent with program order and real-time precedence"""
    items = [(w, k) for w, ops in enumerate(writers_hist) for k in range(len(ops))]
    n = len(items)
    res = []

    def ok_before(a, b):
        # a must precede b
        (wa, ka), (wb, kb) = a, b
        if wa == wb:
            return ka < kb
        return writers_hist[wa][ka]["e"] < writers_hist[wb][kb]["s"]

    def rec(prefix, remaining):
        if not remaining:
            res.append(list(prefix))
            return
        for x in remaining:
            if any(ok_before(y, x) for y in remaining if y != x):
                continue
            prefix.append(x)
            rec(prefix, [y for y in remaining if y != x])
            prefix.pop()

    rec([], items)
    return res[:2000]


def check_history(case, hist):
    """returns (None, n_orders, stats) if linearizable, else (explanation, n_orders, stats).

    Some total order of the changes (consistent with program order and real-time precedence) must explain
    * the result of every change (the sequential model applied in that order),
    * every lookup as the model's answer after a prefix of that order which contains every change that finished
      before the lookup started and none that started after it ended — with prefixes that never shrink along the
      real-time order of the lookups (a reader never sees an older state after a newer one),
    * the results of the initial loads and the lookups made after everything has finished (the final state)."""
    W, Rd = hist["writers"], hist["readers"]
    lookups = []          # (end, start, query index, observed)
    queries = []
    for r, ops in enumerate(Rd):
        for o in ops:
            qd = case["readers"][r][o.get("k", 0)]
            if qd not in queries:
                queries.append(qd)
            lookups.append((o["e"], o["s"], queries.index(qd), o["res"]))
    finals = case.get("final", [])
    for qd in finals:
        if qd not in queries:
            queries.append(qd)
    lookups.sort()
    ords = orders(W)
    seq_cases = []
    for o in ords:
        ops = list(case["init"]) + list(queries)
        for (w, k) in o:
            ops.append(case["writers"][w][k])
            ops += queries
        seq_cases.append({"fam": "repo", "dr": case["dr"], "dr_bt": case["dr_bt"], "ops": ops})
    model = [vlib.res_of(m) for m in vlib.run_cases(vlib.driver_cmd(), seq_cases)]
    ninit, nq = len(case["init"]), len(queries)
    stats = {"lookups": len(lookups), "lookups_that_could_fail": 0, "final_probes": len(finals)}
    why = []
    counted = False
    for o, m in zip(ords, model):
        if not isinstance(m, list):
            why.append("model error")
            continue

        def at(p, qi):
            base = ninit if p == 0 else ninit + nq + (p - 1) * (nq + 1) + 1
            return m[base + qi]

        if not counted:
            counted = True
            for (_, _, qi, _) in lookups:
                if len({json.dumps(vlib.canon(at(p, qi)), sort_keys=True) for p in range(len(o) + 1)}) > 1:
                    stats["lookups_that_could_fail"] += 1
        good = True
        if [x for x in hist.get("init", [])] != m[:ninit]:
            good = False
            why.append(f"initial loads answered {hist.get('init')}, sequentially {m[:ninit]}")
        for pos, (w, k) in enumerate(o):
            if not good:
                break
            got = W[w][k]["res"]
            want = m[ninit + nq + pos * (nq + 1)]
            if got != want:
                good = False
                why.append(f"order {o}: change {case['writers'][w][k]['op']} of writer {w} returned {got}, sequentially {want}")
        if not good:
            continue
        chosen = []       # (end of the lookup, position chosen)
        for (e, s0, qi, res) in lookups:
            lo = max([p for (e2, p) in chosen if e2 < s0], default=0)
            ok = None
            for p in range(lo, len(o) + 1):
                pref = o[:p]
                if any(W[w][kk]["e"] < s0 and (w, kk) not in pref for (w, kk) in o):
                    continue
                if any(W[w][kk]["s"] > e and (w, kk) in pref for (w, kk) in o):
                    continue
                if vlib.canon(at(p, qi)) == vlib.canon(res):
                    ok = p
                    break
            if ok is None:
                good = False
                why.append(f"order {o}: lookup {queries[qi]['target']} answered {json.dumps(res)[:160]}: no admissible "
                           f"prefix of the commit order (not older than what an earlier lookup has seen) gives that")
                break
            chosen.append((e, ok))
        if not good:
            continue
        for qd, res in zip(finals, hist.get("final", [])):
            if vlib.canon(at(len(o), queries.index(qd))) != vlib.canon(res):
                good = False
                why.append(f"order {o}: after all changes lookup {qd['target']} answers {json.dumps(res)[:160]}, the "
                           f"sequential model {json.dumps(at(len(o), queries.index(qd)))[:160]}")
                break
        if good:
            return None, len(ords), stats
    return "; ".join(why[:3]), len(ords), stats


def overlays(R):
    """mutexes with scheduling jitter in the repository, scheduling points inside the tree operations"""
    ov = vlib.jitter_copy(R.tmp, "internal/rules/repository_impl.go")
    ov.update(vlib.yield_copy(R.tmp, "internal/x/radixtree/tree.go", ["addNode", "delNode"]))
    return ov


def run(R):
    with vlib.LeanLock():      # nobody may rewrite the generated protocol between extraction and build
        err = regenerate(R)
        lean_ok = vlib.step_lean(R, PID)
    race = R.tier == "thorough"
    ov = overlays(R)
    exe, log = vlib.build_harness(R.tmp, extra_overlay=ov, race=race, pid=PID)
    if exe is None:
        R.violation("harness does not build against /repo", {"build_log": log[-3000:]}, no_input=True)
        return
    corpus_all = vlib.load_corpus(PID)
    corpus = [c for c in corpus_all if c.get("mode") != "panic"]
    n = 150 if R.tier == "quick" else 5000
    cases = corpus + [gen_conc_case(R.rng) for _ in range(n)]
    env = dict(os.environ, GORACE="halt_on_error=1 exitcode=66")
    # scenario family "panicking lookup" (own random stream: the concurrent cases stay what they were)
    prng = random.Random(R.seed * 7919 + 7)
    pcases = [c for c in corpus_all if c.get("mode") == "panic"]
    pcases += [gen_panic_case(prng) for _ in range(24 if R.tier == "quick" else 600)]
    ptot = {"scenarios": 0, "panics_recovered": 0, "changes_after_a_panic": 0, "lookups_after_a_panic": 0,
            "concurrent_steps": 0, "slow_not_hung": 0}
    leak = run_panic_cases(R, exe, pcases, env, ptot)
    if (err or not lean_ok) and not leak:
        # replay search: the protocol read off the source is not the one the proofs are about — look for a lock that
        # does not survive a panic with a larger budget
        run_panic_cases(R, exe, [gen_panic_case(prng) for _ in range(40)], env, ptot)
        ptot["replay_search"] = True
    hists = vlib.run_cases([exe], cases, env=env, timeout=1500)
    nlin, norders, overlap, nontriv = 0, 0, 0, set()
    races = 0
    tot = {"lookups": 0, "lookups_that_could_fail": 0, "final_probes": 0, "changes": 0, "changes_rejected": 0,
           "histories_two_sources_changed_concurrently": 0}
    for c, h in zip(cases, hists):
        if isinstance(h, dict) and "crash" in h:
            kind = "data race reported by the race detector" if "DATA RACE" in h["crash"] or h.get("rc") == 66 else \
                "process crashed during concurrent operations"
            races += 1
            R.violation(kind, {"case": c, "stderr": h["crash"], "kind": "crash"}, no_input=False)
            continue
        if isinstance(h, dict) and h.get("deadlock"):
            R.violation(f"deadlock: concurrent rule-set changes and lookups did not finish within {h.get('after_ms')} ms",
                        {"case": c, "kind": "deadlock"}, no_input=False)
            continue
        if not isinstance(h, dict) or "writers" not in h:
            R.violation("harness error in concurrent run: " + json.dumps(h)[:300], {"case": c, "result": h}, no_input=True)
            continue
        why, no, st = check_history(c, h)
        norders += no
        nlin += 1
        for k in ("lookups", "lookups_that_could_fail", "final_probes"):
            tot[k] += st[k]
        ws = [o for w in h["writers"] for o in w]
        tot["changes"] += len(ws)
        tot["changes_rejected"] += sum(1 for o in ws if o["res"] != "ok")
        okw = [(dict(o), c["writers"][wi][k]["src"]) for wi, w in enumerate(h["writers"]) for k, o in enumerate(w)
               if o["res"] == "ok"]
        if any(a["s"] < b["e"] and b["s"] < a["e"] and sa != sb for (a, sa), (b, sb) in itertools.combinations(okw, 2)):
            tot["histories_two_sources_changed_concurrently"] += 1
        conc_w = any(a["s"] < b["e"] and b["s"] < a["e"] for a, b in itertools.combinations(ws, 2))
        rs = [o for r in h["readers"] for o in r]
        conc_r = any(a["s"] < b["e"] and b["s"] < a["e"] for a in ws for b in rs)
        if conc_w and conc_r:
            overlap += 1
            nontriv.add(vlib.case_hash({k: c[k] for k in ("init", "writers", "readers")}))
        if why:
            R.violation("concurrent history is not linearizable w.r.t. the sequential repository model: " + why[:500],
                        {"case": c, "history": h, "kind": "linearizability"}, no_input=False)
    R.coverage.update({
        "evaluations": len(cases), "distinct_nontrivial": len(nontriv),
        "rule": "2-3 concurrent writers (1-2 add/update/delete each, over 3 sources) and 1-2 concurrent readers "
                "(3-8 lookups each) against the real repository compiled from an automatically rewritten copy of "
                "repository_impl.go whose mutexes add scheduling jitter; every history (logical start/end stamps) "
                "is checked for linearizability: some commit order consistent with program and real-time order must "
                "explain every change result, every lookup as the sequential model's answer after an admissible "
                "prefix (prefixes never shrink along the real-time order of lookups), the initial loads and the "
                "lookups made after everything has finished. Non-trivial = history in which writer operations "
                "overlap each other and a lookup; distinct by hash of the scenario",
        "histories_checked": nlin, "candidate_commit_orders": norders, "histories_with_overlap": overlap,
        "race_detector": race, "crashes_or_races": races, "jitter_overlay": sorted(os.path.basename(k) for k in ov),
        "corpus_cases": len(corpus_all), **tot,
        "panicking_lookup_scenarios": dict(ptot, rule="a rule whose route matcher panics for a marker request (and rule "
                                           "sets whose Routes() panics inside AddRuleSet / DeleteRuleSet) registered in "
                                           "the real repository; panicking calls are recovered as the request goroutines "
                                           "do, then changes and lookups follow (sequentially, or concurrently under "
                                           "jitter) under a watchdog of %d ms; every finished step is compared with the "
                                           "sequential model" % PANIC_LIMIT_MS),
        "samples": [cases[len(corpus)]] if len(cases) > len(corpus) else [cases[0]],
    })
    R.assumptions += [
        "sync.Mutex / sync.RWMutex implement mutual exclusion (Go runtime, trusted); the machine of Model/Conc.lean "
        "abstracts them as atomic acquire/release steps",
        "data-race and crash freedom are runtime properties: the model cannot exhibit them; supporting evidence only "
        "(race detector in the thorough tier)",
        "the abstraction of extracted source events to machine events (Model/RepoProtocol.lean: abstractEv, canon) is "
        "part of the trusted tie",
        "Tree.Clone is a deep copy (a shallow copy would let writers mutate the published index); validated by the "
        "linearizability runs, not proved",
        "a panic inside the repository is recovered above it and the process goes on (recover middleware of the "
        "listeners, C19); which calls can panic is modelled (the search; the clone and the computation on the private "
        "clone), the assignment of the index pointer under rulesTreeMutex cannot",
        "Go's sync.RWMutex blocks new readers once a writer waits in Lock() (modelled by wRWRequest / wRWAcquire)",
    ]
    if len(ov) < 2:
        R.violation("the scheduling overlay could not be applied (repository_impl.go declares no sync mutex, or the tree "
                    "has no addNode/delNode): the concurrent runs would be weaker than claimed",
                    {"overlay": sorted(ov)}, no_input=True)
    if nlin and (overlap == 0 or tot["lookups_that_could_fail"] == 0):
        R.violation("the concurrent runs did not overlap (single CPU?): nothing was tested",
                    {"histories_with_overlap": overlap, **tot}, no_input=True)
    if err:
        R.violation("protocol extraction from repository_impl.go failed: " + err, {"error": err}, no_input=True)
    if not lean_ok:
        R.violation("theorems / protocol obligations of Props/C07.lean no longer check (the locking protocol read off "
                    "repository_impl.go is not the one the proofs are about): " + "; ".join(R.lean["failed"])[:500],
                    {"lean_log": R.lean["log"], "failed": R.lean["failed"],
                     "generated": open(os.path.join(vlib.LEAN, "HeimdallModel", "Gen", "RepoProtocol.lean")).read()},
                    no_input=True)


def replay(R, path):
    with open(path) as fh:
        p = json.load(fh)
    ov = overlays(R)
    exe, log = vlib.build_harness(R.tmp, extra_overlay=ov, pid=PID)
    R.coverage.update({"obligations": 1, "discharged": 1, "checker_cmd": "replay", "trusted_base": []})
    if "case" not in p:
        print("this replay names a theorem / tie that no longer checks, there is no input to run:", p.get("what", ""))
        return
    if p["case"].get("mode") == "panic":
        c = dict(p["case"], timeout_ms=PANIC_CONFIRM_MS)
        h = vlib.run_cases([exe], [c])[0]
        if isinstance(h, dict) and h.get("deadlock"):
            print(describe_hang(h, c))
            R.violation("replay reproduces: " + describe_hang(h, c), {"case": p["case"], "impl": h})
        elif isinstance(h, dict) and "steps" in h:
            why = check_panic_case(c, h)[0]
            if why:
                print(why)
                R.violation("replay reproduces: " + why[:400], {"case": p["case"], "impl": h})
        else:
            R.violation("replay: harness error " + json.dumps(h)[:300], {"case": p["case"]}, no_input=True)
        return
    bad = 0
    for k in range(200):
        c = dict(p["case"], seed=k)
        h = vlib.run_cases([exe], [c])[0]
        why = check_history(c, h)[0] if isinstance(h, dict) and "writers" in h else "crash"
        if why:
            bad += 1
            print("not linearizable with seed", k, ":", why[:300])
            break
    if bad:
        R.violation("replay reproduces a non-linearizable history", {"case": p["case"]})
