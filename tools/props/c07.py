"""C07 — rule-set changes are atomic for concurrent requests and never lost."""
import itertools
import json
import os
import subprocess

import gen_repo
import vlib

PID = "C07"
PROTO_ARGS = ["-file", os.path.join(vlib.REPO, "internal/rules/repository_impl.go"), "-type", "repository",
              "-name", "repoProtocol", "-methods", "FindRule,AddRuleSet,UpdateRuleSet,DeleteRuleSet",
              "-roles", "K=sync.Mutex,T=sync.RWMutex,index=*radixtree.Tree,known=[]rule.Rule,default=rule.Rule"]


def regenerate(R):
    """Gen/RepoProtocol.lean from the current source; returns error text or None"""
    exe = os.path.join(R.tmp, "proto")
    p = subprocess.run(["go", "build", "-o", exe, "."], cwd=os.path.join(vlib.VERIF, "extract", "proto"),
                       env=vlib.go_env(), capture_output=True, text=True)
    if p.returncode != 0:
        return "extractor does not build: " + p.stderr[-800:]
    p = subprocess.run([exe] + PROTO_ARGS, capture_output=True, text=True)
    if p.returncode != 0:
        return "extractor failed closed: " + p.stderr[-800:]
    path = os.path.join(vlib.LEAN, "HeimdallModel", "Gen", "RepoProtocol.lean")
    with vlib.LeanLock():
        old = open(path).read() if os.path.exists(path) else ""
        if old != p.stdout:
            with open(path, "w") as fh:
                fh.write(p.stdout)
    R.coverage["generated_protocol_events"] = p.stdout.count('",') + p.stdout.count('"\n')
    return None


def gen_conc_case(rng):
    base = gen_repo.gen_repo_case(rng, max_ops=4)
    changes = [o for o in base["ops"] if o["op"] != "find"]
    exprs = sorted({rt["path"] for o in changes if "rules" in o for r in o["rules"] for rt in r["routes"]}) or ["/a"]
    init = changes[:1]
    nw = rng.choice([2, 2, 3])
    writers = []
    srcs = ["s1", "s2", "s3"]
    live = {o["src"]: o["rules"] for o in init if o["op"] == "add"}
    for w in range(nw):
        ops = []
        for _ in range(rng.choice([1, 2, 2])):
            r = rng.random()
            src = rng.choice(srcs)
            if r < 0.45:
                rules = [gen_repo.gen_rule(rng, "w%d_%d" % (w, len(ops)), exprs) for _ in range(rng.choice([1, 2]))]
                ops.append({"op": "add", "src": src, "rules": rules})
            elif r < 0.8:
                rules = [gen_repo.gen_rule(rng, "u%d_%d" % (w, len(ops)), exprs) for _ in range(rng.choice([1, 2]))]
                ops.append({"op": "upd", "src": src, "rules": rules})
            else:
                ops.append({"op": "del", "src": src})
        writers.append(ops)
    targets = [gen_repo.gen_target(rng, exprs) for _ in range(3)]
    readers = []
    for _ in range(rng.choice([1, 2])):
        readers.append([{"op": "find", "method": rng.choice(gen_repo.METHODS[:2]), "host": rng.choice(gen_repo.HOSTS[:2]),
                         "target": rng.choice(targets)} for _ in range(rng.choice([3, 5, 8]))])
    return {"fam": "conc", "dr": base["dr"], "dr_bt": base["dr_bt"], "init": init, "writers": writers,
            "readers": readers, "seed": rng.randrange(1 << 30)}


def orders(writers_hist):
    """all total orders of the writer operations consistent with program order and real-time precedence"""
    items = [(w, k) for w, ops in enumerate(writers_hist) for k in range(len(ops))]
    n = len(items)
    res = []

    def ok_before(a, b):
        # a must precede b
        (wa, ka), (wb, kb) = a, b
        if wa == wb:
            return ka < kb
        return writers_hist[wa][ka]["e"] < writers_hist[wb][kb]["s"]

    def rec(prefix, remaining):
        if not remaining:
            res.append(list(prefix))
            return
        for x in remaining:
            if any(ok_before(y, x) for y in remaining if y != x):
                continue
            prefix.append(x)
            rec(prefix, [y for y in remaining if y != x])
            prefix.pop()

    rec([], items)
    return res[:200]


def check_history(case, hist):
    """returns (None, n_orders) if linearizable, else (explanation, n_orders)"""
    W, Rd = hist["writers"], hist["readers"]
    reads = [(r, k) for r, ops in enumerate(Rd) for k in range(len(ops))]
    queries = []
    for (r, k) in reads:
        q = case["readers"][r][k]
        if q not in queries:
            queries.append(q)
    ords = orders(W)
    seq_cases = []
    for o in ords:
        ops = list(case["init"]) + list(queries)
        for (w, k) in o:
            ops.append(case["writers"][w][k])
            ops += queries
        seq_cases.append({"fam": "repo", "dr": case["dr"], "dr_bt": case["dr_bt"], "ops": ops})
    model = [vlib.res_of(m) for m in vlib.run_cases(vlib.driver_cmd(), seq_cases)]
    ninit, nq = len(case["init"]), len(queries)
    why = []
    for o, m in zip(ords, model):
        if not isinstance(m, list):
            why.append("model error")
            continue
        # results of the changes in this order
        good = True
        for pos, (w, k) in enumerate(o):
            got = W[w][k]["res"]
            want = m[ninit + nq + pos * (nq + 1)]
            if got != want:
                good = False
                why.append(f"order {o}: change {case['writers'][w][k]['op']} of writer {w} returned {got}, sequentially {want}")
                break
        if not good:
            continue
        for (r, k) in reads:
            obs = Rd[r][k]
            qi = queries.index(case["readers"][r][k])
            lo = sum(1 for (w, kk) in o if W[w][kk]["e"] < obs["s"])          # certainly committed before
            hi = len(o) - sum(1 for (w, kk) in o if W[w][kk]["s"] > obs["e"])  # possibly committed before
            # positions must be a prefix: the lo ops certainly before must be the first ones considered
            cands = []
            for p in range(0, len(o) + 1):
                pref = o[:p]
                if any(W[w][kk]["e"] < obs["s"] and (w, kk) not in pref for (w, kk) in o):
                    continue
                if any(W[w][kk]["s"] > obs["e"] and (w, kk) in pref for (w, kk) in o):
                    continue
                cands.append(p)
            def at(p):
                base = ninit if p == 0 else ninit + nq + (p - 1) * (nq + 1) + 1
                return m[base + qi]
            if not any(vlib.canon(at(p)) == vlib.canon(obs["res"]) for p in cands):
                good = False
                why.append(f"order {o}: lookup {case['readers'][r][k]['target']} answered {json.dumps(obs['res'])[:160]}, "
                           f"no admissible prefix of the commit order gives that")
                break
        if good:
            return None, len(ords)
    return "; ".join(why[:3]), len(ords)


def run(R):
    err = regenerate(R)
    lean_ok = vlib.step_lean(R, PID)
    race = R.tier == "thorough"
    ov = vlib.jitter_copy(R.tmp, "internal/rules/repository_impl.go")
    exe, log = vlib.build_harness(R.tmp, extra_overlay=ov, race=race)
    if exe is None:
        R.violation("harness does not build against /repo", {"build_log": log[-3000:]}, no_input=True)
        return
    corpus = vlib.load_corpus(PID)
    n = 150 if R.tier == "quick" else 5000
    cases = corpus + [gen_conc_case(R.rng) for _ in range(n)]
    env = dict(os.environ, GORACE="halt_on_error=1 exitcode=66")
    hists = vlib.run_cases([exe], cases, env=env, timeout=1500)
    nlin, norders, overlap, nontriv = 0, 0, 0, set()
    races = 0
    for c, h in zip(cases, hists):
        if isinstance(h, dict) and "crash" in h:
            kind = "data race reported by the race detector" if "DATA RACE" in h["crash"] or h.get("rc") == 66 else \
                "process crashed during concurrent operations"
            races += 1
            R.violation(kind, {"case": c, "stderr": h["crash"], "kind": "crash"}, no_input=False)
            continue
        if isinstance(h, dict) and h.get("deadlock"):
            R.violation(f"deadlock: concurrent rule-set changes and lookups did not finish within {h.get('after_ms')} ms",
                        {"case": c, "kind": "deadlock"}, no_input=False)
            continue
        if not isinstance(h, dict) or "writers" not in h:
            R.violation("harness error in concurrent run: " + json.dumps(h)[:300], {"case": c, "result": h}, no_input=True)
            continue
        why, no = check_history(c, h)
        norders += no
        nlin += 1
        ws = [o for w in h["writers"] for o in w]
        conc_w = any(a["s"] < b["e"] and b["s"] < a["e"] for a, b in itertools.combinations(ws, 2))
        rs = [o for r in h["readers"] for o in r]
        conc_r = any(a["s"] < b["e"] and b["s"] < a["e"] for a in ws for b in rs)
        if conc_w and conc_r:
            overlap += 1
            nontriv.add(vlib.case_hash({k: c[k] for k in ("init", "writers", "readers")}))
        if why:
            R.violation("concurrent history is not linearizable w.r.t. the sequential repository model: " + why[:500],
                        {"case": c, "history": h, "kind": "linearizability"}, no_input=False)
    R.coverage.update({
        "evaluations": len(cases), "distinct_nontrivial": len(nontriv),
        "rule": "2-3 concurrent writers (1-2 add/update/delete each, over 3 sources) and 1-2 concurrent readers "
                "(3-8 lookups each) against the real repository compiled from an automatically rewritten copy of "
                "repository_impl.go whose mutexes add scheduling jitter; every history (logical start/end stamps) "
                "is checked for linearizability: some commit order consistent with program and real-time order must "
                "explain every change result and every lookup as the sequential model's answer after an admissible "
                "prefix. Non-trivial = history in which writer operations overlap each other and a lookup; distinct "
                "by hash of the scenario",
        "histories_checked": nlin, "candidate_commit_orders": norders, "histories_with_overlap": overlap,
        "race_detector": race, "crashes_or_races": races, "jitter_overlay": bool(ov), "corpus_cases": len(corpus),
        "samples": [cases[len(corpus)]] if len(cases) > len(corpus) else [cases[0]],
    })
    R.assumptions += [
        "sync.Mutex / sync.RWMutex implement mutual exclusion (Go runtime, trusted); the machine of Model/Conc.lean "
        "abstracts them as atomic acquire/release steps",
        "data-race and crash freedom are runtime properties: the model cannot exhibit them; supporting evidence only "
        "(race detector in the thorough tier)",
        "the abstraction of extracted source events to machine events (Model/RepoProtocol.lean: abstractEv, canon) is "
        "part of the trusted tie",
        "Tree.Clone is a deep copy (a shallow copy would let writers mutate the published index); validated by the "
        "linearizability runs, not proved",
    ]
    if err:
        R.violation("protocol extraction from repository_impl.go failed: " + err, {"error": err}, no_input=True)
    if not lean_ok:
        R.violation("theorems / protocol obligations of Props/C07.lean no longer check (the locking protocol read off "
                    "repository_impl.go is not the one the proofs are about): " + "; ".join(R.lean["failed"])[:500],
                    {"lean_log": R.lean["log"], "failed": R.lean["failed"],
                     "generated": open(os.path.join(vlib.LEAN, "HeimdallModel", "Gen", "RepoProtocol.lean")).read()},
                    no_input=True)


def replay(R, path):
    with open(path) as fh:
        p = json.load(fh)
    ov = vlib.jitter_copy(R.tmp, "internal/rules/repository_impl.go")
    exe, log = vlib.build_harness(R.tmp, extra_overlay=ov)
    R.coverage.update({"obligations": 1, "discharged": 1, "checker_cmd": "replay", "trusted_base": []})
    bad = 0
    for k in range(200):
        c = dict(p["case"], seed=k)
        h = vlib.run_cases([exe], [c])[0]
        why, _ = check_history(c, h) if isinstance(h, dict) and "writers" in h else ("crash", 0)
        if why:
            bad += 1
            print("not linearizable with seed", k, ":", why[:300])
            break
    if bad:
        R.violation("replay reproduces a non-linearizable history", {"case": p["case"]})
