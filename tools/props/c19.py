"""C19 — no reloadable or remote input can crash the process."""
import collections
import concurrent.futures
import copy
import json
import os
import random
import re
import subprocess
import time

import gen_loaders as G
import vlib

PID = "C19"
HINT = ("on this input the implementation behaves like the model without the checks (Guards.original), i.e. like "
        "the code before fixes/C19-1.patch, C19-2.patch, C19-3.patch")
HINT_PTR = ("on this input the implementation behaves like the model of a load that decodes the document into a pointer "
            "(loadCreds false): a null document is accepted as 'no credentials at all' (c19_redis_credentials_never_panic_iff)")
HINT_K8S = ("on this input the implementation behaves like the model without the checks in updateStatus "
            "(StatusGuards.original), i.e. like the code before fixes/C19-4.patch")
HINT_RETURNING = ("the implementation behaves like the model of an event loop that registers a removed / renamed file again "
                  "and RETURNS when that fails (WatchLoop ⟨true, true⟩, c19_watcher_returning_loop_dies)")
HINT_FOLLOWING = ("the implementation behaves like the model of an event loop that registers a replaced file again "
                  "(WatchLoop.renew): more notifications than the model of the code predicts")
HINT_COMM = ("the implementation behaves like the model of a fetch that reports a body which broke off as a "
             "communication error (pollEndpoint .communication, c19_partial_response_keeps_iff)")
NOISE = ("detail", "detail0", "stack", "why", "confirmed_alone", "head", "rerun_alone")
ENV = None


# ---------------------------------------------------------------------------------------------------------------
# regenerated facts

def regenerate(R):
    """Gen/LoaderGuards.lean (who recovers on which goroutine) from the current source; error text or None"""
    exe = os.path.join(R.tmp, "guards")
    p = subprocess.run(["go", "build", "-o", exe, "."], cwd=os.path.join(vlib.VERIF, "extract", "guards"),
                       env=vlib.go_env(), capture_output=True, text=True)
    if p.returncode != 0:
        return "extractor does not build: " + p.stderr[-800:]
    p = subprocess.run([exe, "-repo", vlib.REPO], capture_output=True, text=True)
    path = os.path.join(vlib.LEAN, "HeimdallModel", "Gen", "LoaderGuards.lean")
    if p.returncode != 0:
        return "extractor failed closed: " + p.stderr[-800:]
    with vlib.LeanLock():
        old = open(path).read() if os.path.exists(path) else ""
        if old != p.stdout:
            with open(path, "w") as fh:
                fh.write(p.stdout)
    R.coverage["generated_recover_facts"] = p.stdout.count("(\"") + p.stdout.count("def ")
    R.coverage["generated_file"] = "lean/HeimdallModel/Gen/LoaderGuards.lean"
    return None


# ---------------------------------------------------------------------------------------------------------------
# running

def harness_env(R):
    global ENV
    ENV = dict(vlib.go_env(), TMPDIR=R.tmp)


def run_impl(exe, cases, timeout=900):
    """vlib.run_cases restarts the harness after a crash but gives up after 50 of them; on a tree where many inputs
    end the process the cases it did not run are run again, in further rounds"""
    res = vlib.run_cases([exe], cases, timeout=timeout, env=ENV)
    for _ in range(60):
        todo = [k for k, r in enumerate(res) if isinstance(r, dict) and r.get("crash") == "too many crashes, not run"]
        if not todo:
            break
        again = vlib.run_cases([exe], [cases[k] for k in todo], timeout=timeout, env=ENV)
        for k, r in zip(todo, again):
            res[k] = r
    return res


WAITING_OPS = ("watchfiles", "k8s")      # cases that mostly wait (fsnotify, informer): several processes side by side


def run_impl_side_by_side(exe, cases, workers=4):
    if len(cases) < 2 * workers:
        return run_impl(exe, cases)
    chunks = [list(range(k, len(cases), workers)) for k in range(workers)]
    res = [None] * len(cases)
    with concurrent.futures.ThreadPoolExecutor(workers) as pool:
        for idx, out in zip(chunks, pool.map(lambda ix: run_impl(exe, [cases[k] for k in ix]), chunks)):
            for k, r in zip(idx, out):
                res[k] = r
    return res


def expand_sweeps(cases, impl, model):
    """a remote case with "cuts" is one fetch per offset: each becomes a case of its own (with the expectation the
    property has for that offset), so that it is judged, counted, reported and replayed like any other"""
    if not any(c.get("op") == "remote" and "cuts" in c for c in cases):
        return cases, impl, model
    oc, oi, om = [], [], []
    for c, i, m in zip(cases, impl, model):
        if c.get("op") == "remote" and "cuts" in c and isinstance(i, dict) and isinstance(i.get("cls"), list):
            lo, _, step = c["cuts"]
            for j, cls in enumerate(i["cls"]):
                cut = lo + j * max(step, 1)
                cc = {k: v for k, v in c.items() if k != "cuts"}
                cc.update({"cut": cut, "len": i.get("len"), "expect": G.transport_expect(c, cut, i.get("len", 0))})
                oc.append(cc)
                oi.append({"cls": "panic", "detail": cls[7:]} if cls.startswith("panic") else {"cls": cls})
                om.append(None)
        else:
            oc.append(c)
            oi.append(i)
            om.append(m)
    return oc, oi, om


def run_model(cases):
    return vlib.run_cases(vlib.driver_cmd(), cases)


def crash_head(exe, case):
    """the beginning of what a crashing harness process writes (run_cases keeps the end only)"""
    p = subprocess.run([exe], input=json.dumps(case) + "\n", capture_output=True, text=True, timeout=300, env=ENV)
    head = [l for l in p.stderr.splitlines() if l.strip()][:3]
    where = [l.strip() for l in p.stderr.splitlines() if "/repo/internal/" in l or "heimdall/internal/" in l]
    where = [w for w in where if "zzverif" not in w][:2]
    return " | ".join(head + where)[:600]


def strip(i):
    if isinstance(i, dict):
        return {k: v for k, v in i.items() if k not in NOISE}
    return i


def ids_of(answers):
    return sorted(a for a in answers if a not in ("-", "panic"))


def canon_impl(case, i):
    """implementation answer in the form the model answers"""
    if not isinstance(i, dict) or "crash" in i or "panic" in i or "harness_error" in i:
        return i
    i = strip(i)
    if case["op"] == "ruleset" and "state1" in i:
        i = dict(i, state0=ids_of(i["state0"]), state1=ids_of(i["state1"]))
    if case["op"] == "watchfiles":
        i = {"alive": i.get("alive"), "observed": i.get("observed")}
    if case["op"] == "endpoint":
        i = {"alive": i.get("alive"), "polls": i.get("polls"), "rules": [ids_of(a) for a in i.get("answers", [])]}
    if case["op"] == "k8s":
        i = {"alive": i.get("alive"), "handled": i.get("handled")}
    return i


def crashed(i):
    return isinstance(i, dict) and ("crash" in i or "panic" in i)


def outcome_of(case, i):
    """how the call the property is about ended on the implementation side"""
    if crashed(i):
        return "crash"
    if not isinstance(i, dict):
        return "?"
    if case["op"] == "creds":
        if i.get("start") != "ok":
            return "start:" + str(i.get("start"))
        if "panic" in i.get("states", []):
            return "panic"
        return (i.get("reloads") or ["ok"])[-1] if case.get("mode") != "watch" else (
            "alive" if i.get("alive") else "dead")
    if case["op"] == "rulehist":
        outs = i.get("outcomes", [])
        return "panic" if "panic" in outs else ("rejected" if "error" in outs else "ok")
    if case["op"] == "watchfiles":
        return "stopped" if "timeout" in i else "alive"
    if case["op"] == "endpoint":
        polls = i.get("polls", [])
        return "panic" if "panic" in polls else ("kept" if "kept" in polls else "applied")
    if case["op"] == "k8s":
        return "stopped" if i.get("timeout") else "alive"
    return i.get("reload") or i.get("load") or i.get("cls") or ("alive" if i.get("alive") else "dead")


def modelled(case):
    return case["op"] in ("material", "ruleset", "watch", "provider", "serve", "creds", "watchfiles", "endpoint",
                          "k8s") and not case.get("judge_only")


def nontrivial(case):
    op = case["op"]
    if op == "material":
        return bool(case["blocks"]) or bool(case.get("cut"))
    if op == "ruleset":
        d = case.get("second_doc")
        return bool(case.get("judge_only") and case.get("second")) or bool(d and d.get("rules"))
    if op in ("watch", "provider"):
        return "panic" in case.get("events", []) or case.get("mode") == "material"
    if op == "serve":
        return "panic" in case["requests"]
    if op == "remote":
        return case["kind"] != "valid"
    if op == "creds":
        return len(case["contents"]) > 1
    if op == "rulehist":
        return any(s.get("kind") != "good" for s in case["steps"])
    if op == "watchfiles":
        return any(s["do"] not in ("write", "rewrite", "register") for s in case["steps"])
    if op == "endpoint":
        return any(s.get("damage") or (s.get("resp") or {}).get("kind") != "body"
                   or (s.get("resp") or {}).get("content", {}).get("kind") != "ruleset" for s in case["steps"])
    if op == "k8s":
        return bool(case.get("unreachable")) or any(
            s.get("patch") not in (None, [], ["200"]) or s["obj"].get("active_in") not in ("0/0", "1/1")
            for s in case["steps"])
    return op == "raw"


def slim(case):
    return {k: v for k, v in case.items() if k not in ("label", "accepts", "compiles", "expect_states", "expect")}


# ---------------------------------------------------------------------------------------------------------------
# judging one case

def judge_cases(cases, impl):
    """the specification's question for every observed reload: before, outcome, after"""
    qs, idx = [], []

    def ask(k, step, before, outcome, after):
        qs.append({"fam": "loaders", "op": "judge", "before": before, "after": after,
                   "outcome": outcome if outcome in ("ok", "error", "panic") else "fatal"})
        idx.append((k, step))

    for k, (c, i) in enumerate(zip(cases, impl)):
        if not isinstance(i, dict):
            continue
        if c["op"] in ("material", "ruleset") and "reload" in i:
            ask(k, None, i.get("state0"), i["reload"], i.get("state1"))
        elif c["op"] == "creds" and c.get("mode") != "watch" and "reloads" in i:
            # one question per reload of the history: what the redis client was handed before and after
            for n, o in enumerate(i["reloads"]):
                if n + 1 < len(i.get("states", [])):
                    ask(k, n, i["states"][n], o, i["states"][n + 1])
        elif c["op"] == "rulehist" and "outcomes" in i:
            # one question per step: what the lookups answered before and after
            for n, o in enumerate(i["outcomes"]):
                if n + 1 < len(i.get("answers", [])):
                    ask(k, n, i["answers"][n], o, i["answers"][n + 1])
        elif c["op"] == "endpoint" and "polls" in i:
            # one question per poll: a poll the provider did not act upon (fetch failed and everything left alone,
            # rule set refused by the processor) is a rejected reload
            for n, o in enumerate(i["polls"]):
                if n + 1 < len(i.get("answers", [])):
                    rejected = o == "kept" or o.endswith(":refused")
                    ask(k, n, i["answers"][n], "panic" if o == "panic" else ("error" if rejected else "ok"),
                        i["answers"][n + 1])
    return qs, idx


def collect_judgements(idx, answers):
    """{case index: verdict of the specification (old operations) | {step: verdict} (histories)}"""
    adm = {}
    for (k, step), a in zip(idx, answers):
        r = vlib.res_of(a)
        if step is None:
            adm[k] = r
        else:
            adm.setdefault(k, {})[step] = r
    return adm


def what_class(doc):
    """a credentials document descriptor in words"""
    if not isinstance(doc, dict):
        return "?"
    if doc.get("kind") == "map":
        return "mapping with the keys " + ", ".join(repr(f[0]) for f in doc.get("fields", []))
    return {"none": "no document (empty file, white space, comments)", "malformed": "not YAML",
            "null": "null document (only '---' so far, 'null', '~')", "scalar": "scalar document",
            "seq": "sequence document", "exotic": "YAML with aliases / tags / merge keys"}.get(doc.get("kind"), "?")


def verdict(case, i, m, admissible):
    """None if fine, else (what, concrete, kind)"""
    op = case["op"]
    if isinstance(i, dict) and "harness_error" in i:
        return "the harness could not run the case: " + i["harness_error"][:300], False, "harness"
    if crashed(i):
        what = {"material": "reading key / trust material", "ruleset": "loading a rule set",
                "watch": "a file watcher notification", "provider": "a rule file event",
                "serve": "a request", "remote": "a remote response", "raw": "a request",
                "k8s": "a RuleSet resource event (kubernetes provider: the handlers run on the informer's goroutine, "
                       "where client-go's HandleCrash panics again)",
                "watchfiles": "operations on watched files", "endpoint": "a poll of a rule set endpoint",
                "creds": "a credentials file", "rulehist": "a rule file history"}[op]
        return f"the process dies on {what}", True, "crash"
    if op == "creds" and isinstance(i, dict):
        if i.get("timeout"):
            return "a change of the credentials file was not handled within 12 s (watcher stopped?)", True, "stopped"
        if i.get("start") == "panic":
            return f"reading the credentials file at start panics: {str(i.get('detail'))[:200]}", True, "panic"
        docs = case.get("docs", [])
        for n, o in enumerate(i.get("reloads", [])):
            if o == "panic":
                return (f"reloading the credentials file panics (content {n + 1}: {what_class(docs[n + 1])}): "
                        f"{str(i.get('detail'))[:200]}"), True, "panic"
            if o not in ("ok", "error"):
                return f"reload {n + 1} of the credentials file neither reported success nor failure: {i}", False, "harness"
        for n, st in enumerate(i.get("states", [])):
            if st == "panic":
                return (f"after the credentials file was read with content {n} ({what_class(docs[n]) if n < len(docs) else '?'}"
                        f", {json.dumps(case['contents'][n])[:60]}) asking for the credentials (AuthCredentialsFn, "
                        "called by the redis client on its own goroutines, where nothing recovers) panics: the "
                        "next (re-)connect ends the process"), True, "panic"
            if st == "error":
                return f"asking for the credentials fails after content {n}", True, "state"
        if isinstance(admissible, dict):
            for n in sorted(admissible):
                if admissible[n] is False:
                    return (f"a rejected reload of the credentials file (content {n + 1}: {what_class(docs[n + 1])}) "
                            f"changed the credentials in use: before {json.dumps(i['states'][n])}, after "
                            f"{json.dumps(i['states'][n + 1])}"), True, "state"
    if op == "rulehist" and isinstance(i, dict):
        outs, answers = i.get("outcomes", []), i.get("answers", [])
        for n, o in enumerate(outs):
            step = case["steps"][n]
            where = f"step {n + 1} (file {step['file']}: {step.get('kind', '?')})"
            if o == "panic":
                return f"a rule file change panics, {where}: {str(i.get('detail'))[:200]}", True, "panic"
            if o not in ("ok", "error"):
                return f"{where} could not be carried out: {i}", False, "harness"
            if n + 1 < len(answers) and "panic" in answers[n + 1] and "panic" not in answers[n]:
                k = answers[n + 1].index("panic")
                return (f"after {'the rejected' if o == 'error' else 'the'} rule file change of {where} the lookup "
                        f"for {case['probes'][k]} panics (answered by {answers[n][k]} before)"), True, "panic"
            if isinstance(admissible, dict) and admissible.get(n) is False:
                diff = [f"{p}: {b} -> {a}" for p, b, a in zip(case["probes"], answers[n], answers[n + 1]) if a != b]
                return (f"a rejected rule file change, {where}, changed what requests are answered with: "
                        + "; ".join(diff)[:300]), True, "state"
        return None
    if op == "watchfiles" and isinstance(i, dict):
        mo = (vlib.res_of(m) or {}).get("observed", []) if m is not None else []
        extra = None
        for n, obs in enumerate(i.get("observed", [])):
            want = mo[n] if n < len(mo) else None
            if want is None:
                continue
            step = case["steps"][n]
            where = f"step {n + 1} ('{step['do']}'" + (f" of watched file {step['file']}" if step["file"] >= 0 else "") + ")"
            if len(want) != len(obs) or any((a == "absent") != (b == "absent") for a, b in zip(want, obs)):
                return f"the files are not where the history puts them after {where}: {obs} vs {want}", False, "harness"
            for y, (a, b) in enumerate(zip(want, obs)):
                if a == "delivered" and b == "silent":
                    lim = case.get("limit_ms", 12000) / 1000
                    return (f"after {where} a change of watched file {y} was not delivered to its listener within "
                            f"{lim:g} s (the watcher goroutine has stopped, or dropped a file it has to watch); "
                            f"observed per file {obs}, expected {want}"), True, "stopped"
                if a == "silent" and b == "delivered" and extra is None:
                    extra = (f"implementation and model differ: after {where} a change of file {y} is delivered to its "
                             f"listener, the model of the code says the watch on it is gone; observed {obs}, model {want}")
        if extra:
            return extra, False, "model"
        return None
    if op == "endpoint" and isinstance(i, dict):
        polls, answers = i.get("polls", []), i.get("answers", [])
        for n, o in enumerate(polls):
            step = case["steps"][n]
            size = len(step.get("body", ""))
            where = (f"poll {n + 1} (status {step.get('status')}, " + (
                f"{step['damage']}: {step.get('cut')} of {size} bytes of the body" if step.get("damage") else "complete") + ")")
            if o == "panic":
                return f"a poll of the rule set endpoint panics, {where}: {str(i.get('detail'))[:200]}", True, "panic"
            if n + 1 >= len(answers):
                continue
            if step.get("broken") and answers[n + 1] != answers[n]:
                diff = [f"{p}: {b} -> {a}" for p, b, a in zip(case["probes"], answers[n], answers[n + 1]) if a != b]
                return (f"a PARTIALLY RECEIVED rule set changed the rules in force, {where}: the provider answered "
                        f"with '{o}' instead of rejecting the reload; lookups " + "; ".join(diff)[:300]), True, "state"
            if isinstance(admissible, dict) and admissible.get(n) is False:
                diff = [f"{p}: {b} -> {a}" for p, b, a in zip(case["probes"], answers[n], answers[n + 1]) if a != b]
                return (f"a rejected poll of the rule set endpoint ('{o}'), {where}, changed the rules in force: "
                        + "; ".join(diff)[:300]), True, "state"
            if "panic" in answers[n + 1]:
                return f"a lookup panics after {where}", True, "panic"
    if op == "k8s" and isinstance(i, dict):
        if i.get("timeout"):
            return ("an event of the kubernetes informer was not handled within 12 s (informer stopped?): "
                    + str(i.get("timeout"))), True, "stopped"
    if op in ("material", "ruleset"):
        for phase in ("start", "reload", "load"):
            if i.get(phase) == "panic":
                return (f"{'reading key / trust material' if op == 'material' else 'loading a rule set'} panics "
                        f"({phase}): {str(i.get('detail') or i.get('detail0'))[:200]}"), True, "panic"
            if i.get(phase) in ("unlogged", "harness"):
                return f"the {phase} neither reported success nor failure: {i}", False, "harness"
        if op == "material" and case["consumer"] == "trust" and i.get("load") == "ok" and not i.get("certs"):
            return "a trust store without any certificate is accepted (theorem c19_trust_never_empty)", True, "state"
        if admissible is False:
            return ("a rejected reload changed the state in effect: before "
                    f"{json.dumps(i.get('state0'))}, after {json.dumps(i.get('state1'))}"), True, "state"
        if op == "ruleset":
            for phase, doc, state in (("start", case.get("first_doc"), "state0"),
                                      ("reload", case.get("second_doc"), "state1")):
                if i.get(phase) == "ok" and isinstance(doc, dict) and doc.get("kind") == "doc":
                    want, got = sorted(r["id"] for r in doc["rules"]), ids_of(i.get(state, []))
                    if want != got:
                        return (f"an accepted rule set is not in force as a whole (theorem "
                                f"c19_accepted_ruleset_is_complete): the document defines the rules {want}, "
                                f"in force afterwards: {got}"), True, "state"
        if op == "ruleset" and "panic" in (i.get("state0", []) + i.get("state1", [])):
            return "a request panics after the reload", True, "panic"
    if op in ("watch", "provider", "serve", "raw") and isinstance(i, dict):
        if i.get("timeout"):
            return "a notification was not handled within 12 s (watcher stopped?)", True, "stopped"
        if i.get("alive") is False:
            return "the service no longer answers", True, "crash"
        if op == "serve" and "dropped" in i.get("replies", []):
            k = i["replies"].index("dropped")
            return (f"request {k} ('{case['requests'][k]}' pipeline) of the {case['server']} service got no error "
                    "response: the connection was dropped"), True, "dropped"
    if op == "raw" and any(r in ("garbled", "unreachable") for r in i.get("replies", [])):
        return f"the service answered with something that is not HTTP: {i['replies']}", True, "garbled"
    if op == "remote":
        if i.get("cls") == "panic":
            return f"a remote response panics the {case['mech']} mechanism: {str(i.get('detail'))[:200]}", True, "panic"
        if case.get("expect") and i.get("cls") != case["expect"]:
            if case["kind"].startswith("transport:"):
                return (f"{case['mech']}: the {case.get('doc')} of which {case.get('cut')} of {case.get('len')} bytes "
                        f"arrive ({case['damage']}) ended with '{i.get('cls')}', expected '{case['expect']}'"), \
                    case["expect"] == "error", "expect"
            return (f"{case['mech']}: {case['kind']} input ended with '{i.get('cls')}', expected "
                    f"'{case['expect']}'"), case["expect"] == "error", "expect"
        return None
    if modelled(case):
        mr = vlib.res_of(m)
        if vlib.canon(canon_impl(case, i)) != vlib.canon(mr):
            return ("implementation and model differ: " + json.dumps(canon_impl(case, i))[:300] + " vs "
                    + json.dumps(mr)[:300]), False, "model"
    return None


def like_original(case, i, m):
    return (isinstance(m, dict) and "stats" in m and "orig" in m["stats"]
            and vlib.canon(canon_impl(case, i)) == vlib.canon(m["stats"]["orig"]))


def hint_for(case, i, m):
    """the named variant of the model the implementation coincides with on this input, if any"""
    if not (isinstance(m, dict) and "stats" in m):
        return None
    ci = vlib.canon(canon_impl(case, i))
    st = m["stats"]
    if case["op"] == "watchfiles":
        # the harness stops a history at the first expectation that is not met
        n = len((canon_impl(case, i) or {}).get("observed") or [])
        for name, hint in (("returning", HINT_RETURNING), ("following", HINT_FOLLOWING)):
            v = st.get(name)
            if isinstance(v, dict) and n and vlib.canon(dict(v, observed=v["observed"][:n])) == ci:
                return hint
        return None
    if case["op"] == "endpoint" and "communication" in st and vlib.canon(st["communication"]) == ci:
        return HINT_COMM
    if case["op"] == "k8s" and "orig" in st and (crashed(i) or vlib.canon(st["orig"]) == ci) \
            and st["orig"].get("alive") is False:
        return HINT_K8S
    if "orig" in st and vlib.canon(st["orig"]) == ci:
        return HINT
    return None


def like_pointer(case, i, m):
    return (case["op"] == "creds" and isinstance(m, dict) and "ptr" in m.get("stats", {})
            and vlib.canon(canon_impl(case, i)) == vlib.canon(m["stats"]["ptr"]))


# ---------------------------------------------------------------------------------------------------------------
# shrinking

PEM_RE = re.compile(r"-----BEGIN ([^-\n]+)-----\n.*?-----END \1-----\n?", re.S)


def material_parts(case):
    """the file of a material case as the list of its parts (complete blocks with descriptor, free text)"""
    text, blocks = case["second"], list(case["blocks"])
    parts, pos = [], 0
    for mt in PEM_RE.finditer(text):
        if not blocks:
            break
        if mt.start() > pos:
            parts.append(text[pos:mt.start()])
        parts.append((mt.group(0), blocks.pop(0)))
        pos = mt.end()
    if pos < len(text):
        parts.append(text[pos:])
    return parts if not blocks else None


def with_parts(case, parts):
    f = G.PemFile(parts)
    text, blocks, trailing = f.view()
    c = dict(case, second=text, blocks=blocks)
    c.pop("cut", None)
    if case["consumer"] == "trust":
        c["trailing"] = trailing
    return c


def shrink(exe, case, sig):
    """a smaller input that fails in the same way (same signature: kind and normalised message)"""
    def fails(c):
        m = run_model([c])[0] if modelled(c) else None
        if c["op"] == "watchfiles":
            mr = vlib.res_of(m)
            if not (isinstance(mr, dict) and "observed" in mr):
                return False
            c = dict(c, expect=mr["observed"], limit_ms=2000)
        i = run_impl(exe, [c])[0]
        adm = None
        qs, idx = judge_cases([c], [i])
        if qs:
            adm = collect_judgements(idx, run_model(qs)).get(0)
        v = verdict(c, i, m, adm)
        return v is not None and signature(c, i, v) == sig

    cur = copy.deepcopy(case)
    try:
        if case["op"] == "material":
            if cur.get("first") and cur["consumer"] in G.CONSUMERS:
                c2 = dict(cur, first=None, first_blocks=None)
                if fails(c2):
                    cur = c2
            parts = material_parts(cur)
            if parts and len(parts) > 1:
                kept = vlib.ddmin(parts, lambda ps: fails(with_parts(cur, ps)))
                if len(kept) < len(parts):
                    cur = with_parts(cur, kept)
        elif case["op"] == "ruleset" and cur.get("second_doc") and cur["second_doc"].get("rules"):
            def rebuild(doc):
                return G.ruleset_case(cur.get("first_doc"), doc, cur.get("label", ""))
            doc = copy.deepcopy(cur["second_doc"])
            if len(doc["rules"]) > 1:
                rules = vlib.ddmin(doc["rules"], lambda rs: fails(rebuild(dict(doc, rules=rs))))
                doc["rules"] = rules
            for r in doc["rules"]:
                for key in ("execute", "on_error"):
                    if isinstance(r.get(key), list) and len(r[key]) > 1:
                        def attempt(steps, r=r, key=key):
                            d2 = copy.deepcopy(doc)
                            for r2 in d2["rules"]:
                                if r2["id"] == r["id"]:
                                    r2[key] = steps
                            return fails(rebuild(d2))
                        r[key] = vlib.ddmin(r[key], attempt)
            cand = rebuild(doc)
            if fails(cand):
                cur = cand
        elif case["op"] in ("watch", "provider") and case.get("mode") == "script":
            ev = vlib.ddmin(cur["events"], lambda es: fails(dict(cur, events=es)))
            cur = dict(cur, events=ev)
        elif case["op"] in ("serve", "raw"):
            rq = vlib.ddmin(cur["requests"], lambda rs: fails(dict(cur, requests=rs)))
            cur = dict(cur, requests=rq)
        elif case["op"] == "creds" and len(cur["contents"]) > 2:
            def with_items(items):
                c2 = dict(cur, contents=[cur["contents"][0]] + [t for t, _ in items],
                          docs=[cur["docs"][0]] + [d for _, d in items])
                c2.pop("expect_states", None)
                return c2
            items = list(zip(cur["contents"][1:], cur["docs"][1:]))
            cur = with_items(vlib.ddmin(items, lambda its: fails(with_items(its))))
        elif case["op"] in ("watchfiles", "endpoint", "k8s") and len(cur["steps"]) > 1:
            def with_steps(ss):
                c2 = dict(cur, steps=ss)
                c2.pop("expect", None)
                return c2
            cur = with_steps(vlib.ddmin(cur["steps"], lambda ss: fails(with_steps(ss))))
        elif case["op"] == "rulehist" and len(cur["steps"]) > 1:
            st = vlib.ddmin(cur["steps"], lambda ss: fails(dict(cur, steps=ss)))
            cur = dict(cur, steps=st)
            for n, step in enumerate(cur["steps"]):
                if len(step.get("rules") or []) > 1:
                    def with_rules(rs, n=n, step=step):
                        s2 = dict(step, rules=rs, text=G.hist_text(rs, step.get("version_ok", True)))
                        return dict(cur, steps=cur["steps"][:n] + [s2] + cur["steps"][n + 1:])
                    cur = with_rules(vlib.ddmin(step["rules"], lambda rs: fails(with_rules(rs))))
    except Exception:   # shrinking is a convenience; the unshrunk case is a valid replay
        return case
    return cur


# ---------------------------------------------------------------------------------------------------------------
# the run

def build_cases(R, exe):
    quick = R.tier == "quick"
    rng = R.rng
    mat = run_impl(exe, [G.material_request()])[0]
    if not (isinstance(mat, dict) and "token" in mat):
        raise RuntimeError("harness cannot produce the token material: " + json.dumps(mat)[:300])
    streams = collections.OrderedDict()
    streams["material scenarios"] = G.scenario_grid()
    grid_names = ["ec256+cert"] if quick else ["ec256+cert", "ec256b chain2", "renewed certificate", "renewed twice",
                                              "with comments", "cross certified",
                                              "three cross certified authorities"]
    # stores whose certificates form issuer cycles of three and four (renewal chains, authorities in generations,
    # cross certification): coarser steps, the cycle is complete only in the last prefixes anyway
    coarse = ["renewed twice", "three cross certified authorities"] if quick else [
        "two keys", "rsa2048+cert", "renewed three times", "authority in three generations",
        "four cross certified authorities", "renewed intermediate below cross certified roots",
        "renewed twice (ski)"]
    streams["material truncations"] = lambda: (
        G.truncation_grid(grid_names, G.CONSUMERS + ["keystore", "trust"])
        + G.truncation_grid(coarse, G.CONSUMERS + ["keystore", "trust"], step=11 if quick else 3))
    streams["material random"] = lambda: [G.gen_material(rng) for _ in range(2500 if quick else 20000)]
    streams["rule set grid"] = G.ruleset_grid()
    streams["rule set random"] = lambda: [G.gen_ruleset(rng) for _ in range(2500 if quick else 25000)]
    base = G.simple_doc(["r1", "r3"])
    rich = {"kind": "doc", "version_ok": True, "rules": [
        {"id": "r1", "execute": [{"authenticator": "jwt", "config": {"assertions": {"scopes": ["a", "b"]}}},
                                 {"authorizer": "cel", "if": "Request.Method == 'GET'",
                                  "config": {"expressions": [{"expression": "1 == 1"}]}},
                                 {"finalizer": "hdr", "config": {"headers": {"X-B": "c"}}}],
         "on_error": [{"error_handler": "dflt", "if": "true"}]},
        {"id": "r3", "execute": [{"authenticator": "anon"}]}]}
    streams["rule set text truncations"] = G.text_truncations(rich if not quick else base, step=1)
    streams["rule set text mutations"] = lambda: [G.mutate_text(rng, rich) for _ in range(400 if quick else 8000)]
    bg = []
    for op in ("watch", "provider"):
        bg += [{"fam": "loaders", "op": op, "mode": "script", "events": e, "label": "script"} for e in
               (["ok"], ["panic"], ["error"], ["ok", "panic", "ok"], ["panic", "panic", "error", "ok"])]
        bg += [G.gen_script(rng, op) for _ in range(6 if quick else 60)]
    bg += [G.watch_material_case("jwt", ["rsa2048+cert", "empty", "ec256+cert", "rsa1024", "certificate only",
                                         "ec521+cert", "renewed certificate", "renewed twice",
                                         "three cross certified authorities", "two keys"]),
           G.watch_material_case("tls", ["rsa2048+cert", "empty", "ec256+cert", "ec384 bare", "renewed certificate",
                                         "rsa3072 chain3", "text", "authority key in three generations",
                                         "four cross certified authorities", "rsa1024"])]
    if not quick:
        allst = sorted(set(G.GOOD) | set(G.HOSTILE))
        for _ in range(25):
            names = [rng.choice(["rsa2048+cert", "ec256+cert", "rsa3072 chain3", "ec256b chain2", "ec521+cert"])]
            names += [rng.choice(allst) for _ in range(6)]
            bg.append(G.watch_material_case(rng.choice(["jwt", "tls"]), names))
    streams["background goroutines"] = bg
    sv = []
    for srv in ("http", "grpc"):
        sv += [{"fam": "loaders", "op": "serve", "server": srv, "requests": r, "label": "serve:" + srv} for r in
               (["panic"], ["ok", "panic", "error", "ok"])]
        sv += [G.gen_serve(rng, srv) for _ in range(5 if quick else 60)]
    streams["request goroutines"] = sv
    streams["remote truncations"] = G.remote_grid(mat)
    streams["remote random"] = lambda: [G.gen_remote(rng, mat) for _ in range(1500 if quick else 15000)]
    streams["raw requests"] = G.raw_grid() + [G.gen_raw(rng) for _ in range(150 if quick else 2000)]
    # the later streams draw from a generator of their own (seeded by the run's seed as well), so that the cases of
    # the streams above are what they were before these were added
    rng2 = random.Random(R.seed * 7919 + 19)
    texts = G.creds_texts(rng2, quick)
    desc = run_impl(exe, [G.creds_describe_request([t for _, t in texts])])[0]
    if not (isinstance(desc, dict) and len(desc.get("docs", [])) == len(texts)):
        raise RuntimeError("harness cannot describe the credentials documents: " + json.dumps(desc)[:300])
    described = [(label, t, d) for (label, t), d in zip(texts, desc["docs"])]
    streams["redis credentials file"] = G.creds_cases(rng2, described, quick)
    streams["rule file histories"] = lambda: G.hist_grid() + [G.gen_hist(rng2) for _ in range(150 if quick else 4000)]
    # a generator of their own again for the streams of the third round
    rng3 = random.Random(R.seed * 104729 + 23)
    streams["watcher histories"] = lambda: G.watchfiles_grid() + [
        G.gen_watchfiles(rng3) for _ in range(25 if quick else 300)]
    streams["remote transport damage"] = lambda: G.transport_grid(mat)
    streams["rule set endpoint polls"] = lambda: G.endpoint_grid() + [
        G.gen_endpoint(rng3) for _ in range(60 if quick else 2000)]
    streams["RuleSet resources"] = lambda: G.k8s_grid() + [G.gen_k8s(rng3) for _ in range(25 if quick else 300)]
    return streams, mat


def resolve_corpus(corpus, mat):
    """corpus cases name the signed token and key set symbolically (a token is valid for a day only)"""
    res = []
    for c in corpus:
        c = copy.deepcopy(c)
        c.pop("note", None)
        for k in ("token", "body"):
            if isinstance(c.get(k), str):
                c[k] = c[k].replace("$token", mat["token"]).replace("$jwks", mat["jwks"])
        res.append(c)
    return res


STARVED = ("address already in use", "cannot assign requested address", "too many open files")


def retry_starved(exe, cases, impl):
    """loopback ports / descriptors can run out for a moment on a machine that runs many checks at once; that says
    nothing about heimdall: such cases are run again after a pause"""
    for attempt in range(4):
        todo = [k for k, i in enumerate(impl) if isinstance(i, dict) and any(
            t in str(i.get("harness_error", "")) for t in STARVED)]
        if not todo:
            return
        time.sleep(15)
        again = run_impl(exe, [cases[k] for k in todo])
        for k, r in zip(todo, again):
            impl[k] = r


UNATTRIBUTED = []     # process deaths that did not repeat when the case was run alone


def confirm_crashes(exe, cases, impl, limit=40):
    """A process that dies (a fatal error such as stack exhaustion cannot be caught in-process) takes the answer of
    the case it was working on with it. The death is attributed to that case only if the case, run alone in a
    fresh process, kills that one too; its answer then carries the beginning of the Go trace."""
    if len(cases) == 1:
        return
    n = 0
    for k, (c, i) in enumerate(zip(cases, impl)):
        if not (isinstance(i, dict) and "crash" in i) or n >= limit:
            continue
        n += 1
        alone = run_impl(exe, [c])[0]
        if isinstance(alone, dict) and "crash" in alone:
            alone["confirmed_alone"] = True
            # the beginning of the trace names the panic; the end (which is all run_cases keeps) does not
            alone["head"] = crash_head(exe, c) if (n <= 6 or c.get("op") == "k8s") else ""
            impl[k] = alone
        else:
            UNATTRIBUTED.append({"case": slim(c), "died_with": str(i.get("crash"))[-600:], "alone": strip(alone)})
            impl[k] = alone


def evaluate(R, exe, cases, fill_expectations=True):
    """-> cases (sweeps expanded into one case per offset), implementation answers, model answers, judgements"""
    mcases = [c for c in cases if modelled(c)]
    model_of = {}
    for c, m in zip(mcases, run_model(mcases)):
        model_of[id(c)] = m
        if ((c["op"] == "watch" and c.get("mode") == "material") or (c["op"] == "creds" and c.get("mode") == "watch")) \
                and fill_expectations:
            mr = vlib.res_of(m)
            if isinstance(mr, dict) and "states" in mr:
                c["expect_states"] = mr["states"]
        if c["op"] == "watchfiles" and fill_expectations:
            mr = vlib.res_of(m)
            if isinstance(mr, dict) and "observed" in mr:
                c["expect"] = mr["observed"]
    if cases and all(c.get("op") in WAITING_OPS for c in cases):
        impl = run_impl_side_by_side(exe, cases)
    else:
        impl = run_impl(exe, cases)
    retry_starved(exe, cases, impl)
    confirm_crashes(exe, cases, impl)
    model = [model_of.get(id(c)) for c in cases]
    if len(cases) > 1:
        # what depends on the timing of fsnotify / the informer is run once more, alone and with the long time limit,
        # before it is believed; once two histories have failed again that way the matter is settled
        confirmed = reruns = 0
        for k, c in enumerate(cases):
            if confirmed >= 2 or reruns >= 12:
                break
            if c.get("op") in WAITING_OPS and not crashed(impl[k]) and verdict(c, impl[k], model[k], None) is not None:
                again = run_impl(exe, [dict(c, limit_ms=12000)])[0]
                reruns += 1
                if isinstance(again, dict):
                    again["rerun_alone"] = True
                impl[k] = again
                if verdict(c, again, model[k], None) is not None:
                    confirmed += 1
    cases, impl, model = expand_sweeps(cases, impl, model)
    qs, idx = judge_cases(cases, impl)
    adm = collect_judgements(idx, run_model(qs))
    return cases, impl, model, adm


def run(R):
    harness_env(R)
    gen_err = regenerate(R)
    lean_ok = vlib.step_lean(R, PID)
    exe = vlib.step_harness(R)
    if exe is None:
        R.violation("harness does not build against /repo (API used by the correspondence check changed)",
                    {"build_log": R.harness_log[-3000:]}, no_input=True)
        return
    streams, mat = build_cases(R, exe)
    corpus = resolve_corpus(vlib.load_corpus(PID), mat)
    streams = collections.OrderedDict([("corpus", corpus)] + list(streams.items()))

    per_stream = collections.OrderedDict((n, collections.Counter()) for n in streams)
    reasons = collections.Counter()
    consumers = collections.Counter()
    blocks_hist = collections.Counter()
    replies = collections.Counter()
    remote = collections.Counter()
    events = collections.Counter()
    cred_classes = collections.Counter()
    hist_steps = collections.Counter()
    watch_ops = collections.Counter()
    watch_probes = collections.Counter()
    polls_hist = collections.Counter()
    k8s_hist = collections.Counter()
    hist_kept = 0
    nontriv = set()
    bad = []
    judged = 0
    total = 0
    samples, seen = [], set()
    # one stream at a time: the cases carry whole files, all of them at once would not fit comfortably in memory
    for name in list(streams):
        t_stream = time.time()
        cases = streams[name]() if callable(streams[name]) else streams[name]
        streams[name] = None
        cases, impl, model, adm = evaluate(R, exe, cases)
        per_stream[name]["seconds"] = round(time.time() - t_stream, 1)
        total += len(cases)
        per_stream[name]["cases"] = len(cases)
        for k, (c, i, m) in enumerate(zip(cases, impl, model)):
            o = outcome_of(c, i)
            per_stream[name][o] += 1
            if nontrivial(c):
                nontriv.add(vlib.case_hash(slim(c)))
            if c["op"] == "material":
                consumers[f"{c['consumer']}:{o}"] += 1
                blocks_hist[min(len(c["blocks"]), 6)] += 1
            if c["op"] == "remote":
                remote[f"{c['mech']}:{c['kind']}:{o}"] += 1
            if c["op"] == "raw" and isinstance(i, dict):
                for r in i.get("replies", []):
                    replies[r] += 1
            if c["op"] in ("watch", "provider") and c.get("mode") == "script":
                for e in c["events"]:
                    events[f"{c['op']}:{e}"] += 1
            if isinstance(m, dict) and m.get("stats", {}).get("reason"):
                reasons[m["stats"]["reason"]] += 1
            if c["op"] == "creds" and isinstance(i, dict):
                outs = i.get("reloads") or []
                for n, d in enumerate(c["docs"][1:]):
                    cred_classes[f"{d.get('kind')}:{outs[n] if n < len(outs) else c.get('mode')}"] += 1
                for r in (m or {}).get("stats", {}).get("reasons", []):
                    if r:
                        reasons["credentials:" + r] += 1
            if c["op"] == "rulehist" and isinstance(i, dict):
                for n, (o, why) in enumerate(zip(i.get("outcomes", []), i.get("why", []))):
                    hist_steps[f"{o}:{why}" if why else o] += 1
                    # a refusal with rules of earlier steps in force: the lookups had something to lose
                    if o == "error" and any(a not in ("-", "panic") for a in i["answers"][n]):
                        hist_kept += 1
            if c["op"] == "watchfiles" and isinstance(i, dict):
                for st, obs in zip(c["steps"], i.get("observed", [])):
                    watch_ops[st["do"]] += 1
                    for o2 in obs:
                        watch_probes[o2] += 1
            if c["op"] == "endpoint" and isinstance(i, dict):
                for st, o2 in zip(c["steps"], i.get("polls", [])):
                    polls_hist[f"{st.get('damage') or ((st.get('resp') or {}).get('kind') or 'prefix')}:{o2}"] += 1
            if c["op"] == "k8s":
                for st in c["steps"]:
                    k8s_hist["activeIn=" + json.dumps(st["obj"].get("active_in"))] += 1
                    k8s_hist["patch=" + ("unreachable" if c.get("unreachable") else ",".join(st.get("patch") or ["200"]))] += 1
            if isinstance(adm.get(k), dict):
                judged += len(adm[k])
            elif k in adm:
                judged += 1
            v = verdict(c, i, m, adm.get(k))
            if v is not None and len(bad) < 4000:
                bad.append((c, i, m, v))
            if name != "corpus":
                key = (c["op"], c.get("consumer") or c.get("mech") or c.get("mode") or c.get("server"), o)
                if key not in seen and len(samples) < 12 and len(json.dumps(c)) < 2500:
                    seen.add(key)
                    samples.append({"case": slim(c), "implementation": strip(i),
                                    "model": vlib.res_of(m) if m else None})
        del cases, impl, model

    R.coverage.update({
        "evaluations": total, "distinct_nontrivial": len(nontriv),
        "rule": "one case = one concrete input handed to heimdall's real code: a key / trust store file (bytes + "
                "descriptor of its complete PEM blocks) loaded and re-loaded by the real JWT signer, TLS key store, "
                "HTTP message signer, key store or trust store; a rule set file (bytes + untyped document) created "
                "and changed under the real file_system provider, parser, processor, factory and repository; a script "
                "of notifications for the real watcher / provider goroutines; requests for the real decision and "
                "Envoy gRPC services; a response served to the real jwt / introspection / generic authenticators, "
                "remote authorizer, generic contextualizer; raw bytes sent to the real decision service; a history of "
                "contents of the redis cache's credentials file (bytes + what generic YAML decoding finds in them) read "
                "by the real fileCredentials, reloaded directly or by the real watcher, the real AuthCredentialsFn asked "
                "after each; a history of rule files of three sources under the real provider, processor, factory and "
                "repository with lookups for the routes of all rules after every step; a history of real file "
                "operations (write, truncate, rename-over, remove, re-create, move away / back, chmod, directory "
                "removed / re-created, further registrations) on several files watched by the real secrets watcher, a "
                "change of every file after every operation; one fetch of a remote document (key set, introspection "
                "response, OAuth2 metadata document, identity information, authorizer / contextualizer / token endpoint "
                "answer) by the real mechanism with the response damaged below HTTP at one offset; a history of polls of "
                "a rule set endpoint by the real http_endpoint provider; a history of RuleSet resource events for the "
                "real kubernetes provider (client-go informer and REST client against a scripted API server) with any "
                "status.activeIn and any answer to the status PATCH. "
                "Non-trivial = the file has at least one complete block or is a truncation, the document has at "
                "least one rule (or is a non-empty damaged text), the script contains a panic or real key material, "
                "the remote input is not the valid one, any raw request, a credentials history with at least one "
                "reload, a rule file history with at least one step that is not a well-formed rule set, a watcher history "
                "with an operation other than a write, a poll history with a damaged / refused / missing response, a "
                "resource history with an activeIn or PATCH answer other than the usual; distinct by hash of the case",
        "streams": {n: dict(cnt) for n, cnt in per_stream.items()},
        "model_reasons_for_rejection": dict(reasons), "material_consumer_outcomes": dict(consumers),
        "material_complete_blocks_histogram": {str(k): v for k, v in sorted(blocks_hist.items())},
        "remote_mechanism_kind_outcome": dict(remote), "raw_reply_histogram": dict(replies),
        "scripted_events": dict(events), "reloads_judged_by_specification": judged,
        "credentials_document_class_and_outcome": dict(cred_classes),
        "rule_history_steps_by_outcome_and_stage": dict(hist_steps),
        "rule_history_refusals_with_rules_in_force": hist_kept,
        "watched_file_operations": dict(watch_ops), "watched_file_probes_by_observation": dict(watch_probes),
        "endpoint_polls_by_response_and_outcome": dict(polls_hist), "ruleset_resource_events": dict(k8s_hist),
        "corpus_cases": len(corpus), "samples": samples, "exhaustive": False,
        "small_scope": "every named key store scenario x every consumer; every byte prefix of the listed stores x "
                       "every consumer; every confused value x every key of a step the factory reads; every scopes "
                       "shape; every byte prefix of a rule set text, of the signed token and of every valid remote "
                       "response; every named class and every byte prefix of five valid credentials files; every kind "
                       "of refused rule file change (decoding, version, factory, path expression, wildcard names, path "
                       "of another source) x every source x update (all / one / none of its rules kept) and creation; "
                       "every way of taking a watched file away x each of three files; every byte offset of every "
                       "remote document x {announced length not reached, chunked transfer broken off, shorter length "
                       "announced, connection reset}; every byte offset of a polled rule set x the same; every listed "
                       "status.activeIn and every listed answer to the status PATCH",
    })
    R.assumptions += [
        "x509 path validation, PEM / DER / YAML / JSON / JOSE / CEL parsing are foreign code: the model takes their "
        "verdicts from the descriptor (payload parses, certificate valid / CA / usage, expression compiles); that they "
        "do not panic on arbitrary bytes is searched for (truncation at every offset, byte damage), not proved",
        "chain validation is abstracted to 'every certificate of the chain within its validity period and every "
        "issuer a CA'; exact for the certificates of tools/gen_loaders_pool.json (validated by the correspondence run)",
        "repository conflicts between rule sets (property C06) do not occur in the rule sets of the modelled stream "
        "`ruleset`: every rule id has its own path; the histories of the stream `rule file histories` contain them, "
        "whether such a step is refused is observed, not predicted: the specification judges what the lookups answer "
        "before and after",
        "the credentials file of the redis cache: YAML syntax is foreign code; the model works on what generic "
        "decoding (yaml.v3 into yaml.Node, in the harness, nothing of heimdall involved) finds in the bytes; contents "
        "with aliases, explicit tags, merge keys or non-scalar keys are judged by the specification only",
        "the goroutines on which the redis client asks for credentials belong to rueidis (not in heimdall's source, no "
        "entry in Gen/LoaderGuards.lean): the model lets a panic there end the process",
        "goroutine scheduling and fsnotify event delivery are not modelled; the runs against the real watcher / "
        "provider wait for the expected effect (limit 12 s per step)",
        "key material of the pool is generated with crypto/rand once (committed); outcomes do not depend on it",
        "fsnotify (inotify) semantics are foreign: a watch is bound to the file that is at the path when it is "
        "registered and is dropped when that file is removed, replaced by a rename or moved (modelled: FileOp.fileRemoved "
        "/ fileReplaced); validated by the runs against the real watcher",
        "the order in which the watcher loop gets to a Remove event relative to a re-creation of the file is not "
        "modelled as a race: histories put a change of every file between two operations, so the event has been "
        "handled before the file is back (rename-over = a file is there when the event is handled)",
        "HTTP framing is net/http's: a body that ends before the announced length / the last chunk, or a reset "
        "connection, reaches heimdall as a read error after a prefix of the body (modelled: Transfer.brokenOff); the "
        "reset is injected on the client's side of the connection, below net/http's transport",
        "a polled rule set is identified with the list of its rule ids (the provider compares SHA-256 hashes); the "
        "generator never produces two different documents with the same ids",
        "client-go (informer, REST client) is foreign: that a handler panic ends the process (HandleCrash re-panics) is "
        "observed on the real informer, not modelled beyond 'nothing recovers on that goroutine'",
    ]

    report(R, exe, bad)
    R.coverage["disagreements_checked"] = len(bad)
    if not any(k.startswith("error:insertion") for k in hist_steps) or hist_kept == 0:
        R.violation("the stream 'rule file histories' no longer contains a change that is refused when its routes are "
                    "inserted into the routing tree while rules are in force (generator out of date?): "
                    + json.dumps(dict(hist_steps)), {"steps": dict(hist_steps)}, no_input=True)
    found_in = {c["op"] for c, _, _, _ in bad}      # a stream with findings is not "vacuous", it is failing
    if "watchfiles" in found_in:
        watch_probes = None
    if "endpoint" in found_in:
        polls_hist = None
    if watch_probes and not (watch_probes.get("silent") and watch_probes.get("delivered") and watch_probes.get("absent")):
        R.violation("the stream 'watcher histories' no longer observes all of delivered / silent / absent (generator or "
                    "harness out of date?): " + json.dumps(dict(watch_probes)), {"probes": dict(watch_probes)},
                    no_input=True)
    if polls_hist and not any(k.endswith(":kept") and k.split(":")[0] in ("cl-short", "chunked-short", "reset")
                              for k in polls_hist):
        R.violation("the stream 'rule set endpoint polls' contains no partially received rule set that the provider "
                    "left alone: " + json.dumps(dict(polls_hist)), {"polls": dict(polls_hist)}, no_input=True)
    if UNATTRIBUTED:
        R.violation(f"the harness process died {len(UNATTRIBUTED)} time(s) while working on a case that does not "
                    "kill it when run alone (a goroutine of an earlier case?)", {"deaths": UNATTRIBUTED[:5]},
                    no_input=True)
    if gen_err:
        R.violation("the recover layer cannot be read off the source (extract/guards): " + gen_err,
                    {"error": gen_err}, no_input=True)
    if not lean_ok:
        names = failed_theorems(R)
        what = "theorems of Props/C19.lean no longer check"
        if "c19_gen_recover_layer" in names:
            what = ("the recover layer read off the source (lean/HeimdallModel/Gen/LoaderGuards.lean) is no longer the "
                    "one the theorems assume (c19_gen_recover_layer): a goroutine handling reloadable input or "
                    "requests lost its recover")
        if "c19_gen_watcher_loop_never_leaves" in names:
            what = ("the event loop of the secrets watcher (startWatching) can be left by something else than the two "
                    "'channel closed' returns (lean/HeimdallModel/Gen/LoaderGuards.lean: watcherLoopExits is not empty; "
                    "c19_gen_watcher_loop_never_leaves, c19_watcher_survives_iff): whatever takes that exit stops the "
                    "watcher for ALL watched files")
        R.violation(what + ": " + "; ".join(R.lean["failed"])[:600],
                    {"lean_log": R.lean["log"], "failed": R.lean["failed"], "theorems": names}, no_input=True)


def failed_theorems(R):
    """names of the theorems of Props/C19.lean in which the build log reports an error (by line number)"""
    names = set(R.lean.get("failed_theorems") or [])
    path = os.path.join(vlib.LEAN, "HeimdallModel", "Props", PID + ".lean")
    try:
        with open(path) as fh:
            lines = fh.read().splitlines()
    except OSError:
        return sorted(names)
    for mt in re.finditer(r"Props/C19\.lean:(\d+):", R.lean.get("log", "") + " ".join(R.lean.get("failed", []))):
        for k in range(min(int(mt.group(1)), len(lines)) - 1, -1, -1):
            m2 = re.match(r"\s*theorem\s+(\S+)", lines[k])
            if m2:
                names.add(m2.group(1))
                break
    return sorted(names)


def signature(c, i, v):
    """failures with the same signature are reported once (with the smallest input)"""
    what, _, kind = v
    detail = what
    if kind == "crash" and isinstance(i, dict):
        text = str(i.get("head") or "").replace(" | ", "\n") + "\n" + str(i.get("crash") or i.get("panic") or "")
        mt = re.search(r"^(panic: .*|fatal error: .*)$", text, re.M)
        detail = mt.group(1).replace(" [recovered]", "") if mt else (
            "fatal error: stack overflow" if c["op"] in ("material", "watch") else "the process died")
    if c["op"] == "rulehist":
        detail = re.split(r" of step|, step| for ", detail)[0]      # not the step, the file, the probe
    elif c["op"] == "creds":
        detail = detail.split("(")[0]
    elif c["op"] == "watchfiles":
        detail = re.sub(r"\('\w+'( of watched file \d+)?\)", "(an operation)", detail)
    detail = re.sub(r"[0-9a-f]{8,}|\d+", "#", detail)[:90]
    part = ""
    if kind == "model":
        part = c.get("consumer") or c.get("mech") or c.get("mode") or c.get("server") or ""
        detail = ""
    return (kind, c["op"], part, detail)


def report(R, exe, bad):
    groups = collections.OrderedDict()
    for c, i, m, v in bad:
        groups.setdefault(signature(c, i, v), []).append((c, i, m, v))
    # concrete violations of the property first, smallest input of each group
    order = sorted(groups.items(), key=lambda kv: (not kv[1][0][3][1], kv[0][1], kv[0]))
    for sig, group in order[:14]:
        group.sort(key=lambda t: len(json.dumps(slim(t[0]))))
        c, i, m, (what, concrete, kind) = group[0]
        sc = shrink(exe, c, sig) if concrete else c
        _, si, sm, sadm = evaluate(R, exe, [sc])
        sv = verdict(sc, si[0], sm[0], sadm.get(0))
        if sv is None or sv[2] != kind:
            sc, si, sm, sv = c, [i], [m], (what, concrete, kind)
        what = sv[0]
        head = None
        if crashed(si[0]) and "crash" in si[0]:
            head = crash_head(exe, sc)      # the case once more, alone in a fresh process
            what += ": " + head
        hint = hint_for(sc, si[0], sm[0]) if sm[0] is not None else None
        if sm[0] is not None and like_pointer(sc, si[0], sm[0]):
            hint = HINT_PTR
        payload = {"case": slim(sc), "impl": strip(si[0]) if isinstance(si[0], dict) else si[0],
                   "model": vlib.res_of(sm[0]) if sm[0] is not None else "no model: judged by the specification",
                   "kind": {"crash": "impl-vs-spec", "panic": "impl-vs-spec", "state": "impl-vs-spec",
                            "stopped": "impl-vs-spec", "garbled": "impl-vs-spec", "dropped": "impl-vs-spec",
                            "expect": "impl-vs-oracle",
                            "model": "impl-vs-model", "harness": "harness"}[kind],
                   "same_failures_in_this_run": len(group)}
        if head is not None:
            payload["crash_reproduced_alone"] = bool(head)
            payload["crash_head"] = head
        if hint:
            payload["hint"] = hint
            what += " [" + hint + "]"
        R.violation(what, payload, no_input=not concrete)


def replay(R, path):
    with open(path) as fh:
        p = json.load(fh)
    harness_env(R)
    exe = vlib.step_harness(R)
    c = p["case"] if "case" in p else p     # a replay file of a run, or a corpus case
    c = {k: v for k, v in c.items() if k != "note"}
    if c["op"] == "ruleset" and not c.get("judge_only"):
        c.setdefault("accepts", G.ACCEPTS)
        c.setdefault("compiles", G.COMPILES)
    if c["op"] == "remote":
        mat = run_impl(exe, [G.material_request()])[0]
        c = resolve_corpus([c], mat)[0]
    cs, impl, model, adm = evaluate(R, exe, [c])
    if len(cs) == 1:
        c = cs[0]
    else:
        # a sweep: report the first offset that fails, all of them otherwise
        bad = [k for k in range(len(cs)) if verdict(cs[k], impl[k], model[k], adm.get(k)) is not None]
        print(f"sweep over {len(cs)} offsets, {len(bad)} of them fail")
        k = bad[0] if bad else 0
        c, impl, model, adm = cs[k], [impl[k]], [model[k]], {0: adm.get(k)}
    if crashed(impl[0]) and "crash" in impl[0]:
        print("crash:", crash_head(exe, c))
    print("impl :", json.dumps(strip(impl[0]) if isinstance(impl[0], dict) else impl[0])[:2000])
    print("model:", json.dumps(vlib.res_of(model[0]) if model[0] is not None else None)[:2000])
    R.coverage.update({"obligations": 1, "discharged": 1, "checker_cmd": "replay", "trusted_base": []})
    v = verdict(c, impl[0], model[0], adm.get(0))
    if v is not None:
        R.violation("replay still fails: " + v[0], {"case": c, "impl": impl[0], "model": model[0]})
