"""C02 — the most specific matching path expression selects the rule."""
import copy
import itertools
import json
import os

import gen_trie
import rtree_corr
import vlib
import gen_repo
import repo_common

PID = "C02"


def small_scope_cases(limit=None):
    """all tables of <= 2 routes over a tiny expression grammar x all paths of <= 3 segments over {a,b}; both
    insertion orders; both backtracking flags; accept-sets all subsets"""
    exprs = ["/a", "/:x", "/*r", "/a/b", "/a/:y", "/:x/b", "/:x/:y", "/a/*r", "/:x/*r", "/a/", "/:x/"]
    paths = ["/a", "/b", "/a/b", "/a/a", "/b/b", "/a/", "/", "//", "/a/b/a", "/a//b"]
    cases = []
    for e1, e2, e3 in itertools.product(exprs, exprs, exprs):
        if not (e1 < e2 < e3):
            continue
        for bts in itertools.product([False, True], repeat=3):
            items = [{"k": "add", "p": e, "id": i + 1, "src": 0, "bt": bt, "pp": None}
                     for i, (e, bt) in enumerate(zip((e1, e2, e3), bts))]
            ops = [{"op": "batch", "items": items}]
            for p in paths:
                for acc in ([1, 2, 3], [2, 3], [1, 3], [3], [1, 2], [2], [1]):
                    ops.append({"op": "find", "path": p, "acc": acc})
            cases.append({"fam": "trie", "ops": ops})
    return cases


def nontrivial(case, mout):
    """a case is non-trivial when some lookup had >= 2 matching expressions (reported by the model driver)"""
    st = mout.get("stats", {}) if isinstance(mout, dict) else {}
    return st.get("multi", 0) > 0


def compare(R, cases, impl, model, label):
    bad = []
    for c, i, m in zip(cases, impl, model):
        if vlib.canon(i) != vlib.canon(vlib.res_of(m)):
            bad.append((c, i, m))
    return bad


def first_diff(case, i, m):
    m = vlib.res_of(m)
    if isinstance(i, list) and isinstance(m, list):
        for k, (a, b) in enumerate(zip(i, m)):
            if a != b:
                return k, a, b
    return None, i, m


def shrink(R, exe, case):
    def fails(ops):
        c = {"fam": "trie", "ops": ops}
        i = vlib.run_cases([exe], [c])[0]
        m = vlib.run_cases(vlib.driver_cmd(), [c])[0]
        return vlib.canon(i) != vlib.canon(vlib.res_of(m))
    ops = vlib.ddmin(case["ops"], fails)
    # shrink items inside batches
    for idx, op in enumerate(list(ops)):
        if op["op"] == "batch" and len(op["items"]) > 1:
            def fails_items(items, idx=idx):
                o2 = copy.deepcopy(ops)
                o2[idx]["items"] = items
                return fails(o2)
            ops[idx] = dict(op, items=vlib.ddmin(op["items"], fails_items))
    return {"fam": "trie", "ops": ops}


def run(R):
    lean_ok = vlib.step_lean(R, PID, extra=("C02Byte",))
    exe = vlib.step_harness(R)
    if exe is None:
        R.violation("harness does not build against /repo (API used by the correspondence check changed)",
                    {"build_log": R.harness_log[-3000:]}, no_input=True)
        return
    corpus = vlib.load_corpus(PID)
    n = 4000 if R.tier == "quick" else 400000
    cases = corpus + [gen_trie.gen_trie_case(R.rng) for _ in range(n)]
    if R.tier == "thorough":
        cases += small_scope_cases()
    impl = vlib.run_cases([exe], cases)
    model = vlib.run_cases(vlib.driver_cmd(), cases)
    bad = compare(R, cases, impl, model, "random")
    nfind = sum(1 for c in cases for o in c["ops"] if o["op"] == "find")
    nontriv = set()
    multi = 0
    hits = 0
    for c, m in zip(cases, model):
        if nontrivial(c, m):
            nontriv.add(vlib.case_hash(c))
        if isinstance(m, dict):
            multi += m.get("stats", {}).get("multi", 0)
            hits += m.get("stats", {}).get("hits", 0)
    R.coverage.update({
        "evaluations": len(cases), "distinct_nontrivial": len(nontriv),
        "rule": "operation sequences (batches of Add/Delete on a clone, discarded on failure, and Find with a "
                "per-query accept set and optional path-parameter conditions) over a grammar of static/:name/:*/"
                "*name/**/escaped/shared-prefix expressions, run against the real radixtree.Tree and the Lean model; "
                "non-trivial = at least one lookup with >= 2 matching expressions; distinct by hash of the case",
        "lookups": nfind, "lookups_with_2plus_candidates": multi, "lookups_answered": hits,
        "corpus_cases": len(corpus),
        "samples": [cases[len(corpus)] if len(cases) > len(corpus) else cases[0]],
        "exhaustive": False,
    })
    # structural correspondence of the byte-level Lean model (Model/RTree.lean) with the real tree: complete tree
    # dumps after every batch; the driver also re-checks WF, find-refinement and abs-commutation on every case
    nb = 1500 if R.tier == "quick" else 60000
    rcases = [gen_trie.gen_trie_case(R.rng) for _ in range(nb * 3 // 4)] + rtree_corr.extra_cases(R.rng, nb // 4)
    rbad = rtree_corr.check(R, exe, rcases)
    R.coverage["rtree_corr"]["cases"] = len(rcases)
    for c, i, m in rbad[:3]:
        R.violation("byte-level tree model differs structurally from the real radix tree (dump / lookup / "
                    "well-formedness): " + json.dumps(rtree_corr.first_diff(i, vlib.res_of(m)))[:400],
                    {"case": c, "impl": i, "model": vlib.res_of(m), "kind": "impl-vs-byte-level-model"}, no_input=True)
    # the clause about the default rule / "no rule", and the repository-level wiring the tree is used through
    # (rules added in rule-set order, each with its backtracking setting, lookup of the normalised raw path, fall back
    # to the default rule): rule-set cases through the real rule factory, processor and repository
    nr = 500 if R.tier == "quick" else 20000
    repo_cases = [gen_repo.gen_repo_case(R.rng) for _ in range(nr)]
    rimpl, _, _ = repo_common.check_correspondence(R, exe, repo_cases, "lookup through the repository (default rule, no rule, rule-set order)")
    R.coverage["repository_level_cases"] = nr
    R.coverage["repository_lookups_default_rule"] = sum(
        1 for i in rimpl if isinstance(i, list) for x in i if isinstance(x, dict) and x.get("rule") == "config/default")
    R.coverage["repository_lookups_no_rule"] = sum(
        1 for i in rimpl if isinstance(i, list) for x in i if isinstance(x, dict) and x.get("err") == "norule")
    if R.tier == "thorough":
        R.coverage["small_scope"] = "all 3-route tables over 11 expressions x 8 flag vectors x 10 paths x 7 accept sets"
    R.assumptions += [
        "the byte-level tree refines the token-level table model (Props/C02Byte.lean, proved); the byte-level model is "
        "tied to the real tree by the structural / behavioural correspondence run",
        "rule-set order inside one node = insertion order of Add (repository adds rules in rule-set order)",
    ]
    for c, i, m in bad[:5]:
        sc = shrink(R, exe, c)
        si = vlib.run_cases([exe], [sc])[0]
        sm = vlib.res_of(vlib.run_cases(vlib.driver_cmd(), [sc])[0])
        k, a, b = first_diff(sc, si, sm)
        op = sc["ops"][k] if k is not None else None
        is_find = bool(op and op["op"] == "find")
        what = (f"lookup differs from the proved model: op {op} gives {a}, most-specific-match semantics demands {b}"
                if is_find else f"tree update differs from the model: op {op} gives {a}, model {b}")
        R.violation(what, {"case": sc, "impl": si, "model": sm, "kind": "impl-vs-model"}, no_input=not is_find)
    if not lean_ok:
        R.violation("theorems of Props/C02.lean no longer check: " + "; ".join(R.lean["failed"])[:600],
                    {"lean_log": R.lean["log"], "failed": R.lean["failed"],
                     "theorems": R.lean.get("failed_theorems")}, no_input=True)


def replay(R, path):
    with open(path) as fh:
        p = json.load(fh)
    exe = vlib.step_harness(R)
    c = p["case"]
    i = vlib.run_cases([exe], [c])[0]
    m = vlib.res_of(vlib.run_cases(vlib.driver_cmd(), [c])[0])
    print("impl :", json.dumps(i))
    print("model:", json.dumps(m))
    R.coverage.update({"obligations": 1, "discharged": 1, "checker_cmd": "replay", "trusted_base": []})
    if vlib.canon(i) != vlib.canon(m):
        R.violation("replay still differs", {"case": c, "impl": i, "model": m})
