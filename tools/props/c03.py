"""C03 — match conditions and captured path values behave as documented."""
import json

import gen_repo
import go2lean_c03
import repo_common as rc
import vlib

PID = "C03"


def gen_case(rng):
    base = gen_repo.gen_repo_case(rng, max_ops=5)
    ops = [o for o in base["ops"] if o["op"] in ("add", "upd")][:2]
    if not ops:
        return base
    exprs = sorted({rt["path"] for o in ops for r in o["rules"] for rt in r["routes"]}) or ["/a"]
    finds = []
    for _ in range(rng.choice([4, 6, 8])):
        t = gen_repo.gen_target(rng, exprs, raw=True)
        for m in rng.sample(gen_repo.METHODS + ["OPTIONS", "TRACE", "CONNECT"], 2):
            finds.append({"op": "find", "method": m, "host": rng.choice(gen_repo.HOSTS), "target": t})
    return dict(base, ops=ops + finds)


def run(R):
    lean_ok = vlib.step_lean(R, PID)
    go2lean_c03.step(R)
    exe = vlib.step_harness(R)
    if exe is None:
        R.violation("harness does not build against /repo", {"build_log": R.harness_log[-3000:]}, no_input=True)
        return
    corpus = vlib.load_corpus(PID)
    n = 1500 if R.tier == "quick" else 120000
    cases = corpus + [gen_case(R.rng) for _ in range(n)]
    impl, model, nbad = rc.check_correspondence(R, exe, cases, "route matching conditions / captured values")
    st = rc.stats_sum(model)
    nontriv = set()
    dist = {"methods_all": 0, "methods_neg": 0, "hosts_multi": 0, "pp_on_free_wildcard": 0, "pp": 0, "scheme": 0,
            "caps_exposed": 0, "unnamed_wildcards": 0}
    for c, i in zip(cases, impl):
        rules = [r for o in c["ops"] if "rules" in o for r in o["rules"]]
        for r in rules:
            dist["methods_all"] += "ALL" in r["methods"]
            dist["methods_neg"] += any(m.startswith("!") for m in r["methods"])
            dist["hosts_multi"] += len(r["hosts"]) >= 2
            dist["scheme"] += bool(r["scheme"])
            for rt in r["routes"]:
                dist["pp"] += bool(rt["pp"])
                last = rt["path"].rsplit("/", 1)[-1]
                dist["pp_on_free_wildcard"] += any(last.startswith("*") and p["name"] == last[1:] for p in rt["pp"])
                dist["unnamed_wildcards"] += ":*" in rt["path"] or "**" in rt["path"]
        if isinstance(i, list):
            outcomes = {json.dumps(x.get("rule")) for x in i if isinstance(x, dict)}
            if len(outcomes) >= 2 and any(r["methods"] or r["hosts"] or any(rt["pp"] for rt in r["routes"]) for r in rules):
                nontriv.add(vlib.case_hash(c))
            dist["caps_exposed"] += sum(1 for x in i if isinstance(x, dict) and x.get("caps"))
    R.coverage.update({
        "evaluations": sum(len(c["ops"]) for c in cases), "distinct_nontrivial": len(nontriv),
        "rule": "rule sets created by the real rule factory with generated matcher definitions (scheme, method lists "
                "with ALL / negations, 0..3 hosts of each type, path_params of each type on single and free "
                "wildcards, all encoded-slash settings) and requests varying method, host and percent-encoded path; "
                "rule id, acceptance and Request.URL.Captures after ruleImpl.Execute compared with the Lean model. "
                "Non-trivial = case with conditions whose lookups had >= 2 different outcomes; distinct by case hash",
        "definition_distribution": dist, "lookups_matched": st.get("matched", 0),
        "lookups_default_rule": st.get("default", 0), "lookups_with_2plus_candidates": st.get("multi", 0),
        "corpus_cases": len(corpus), "samples": [cases[len(corpus)]] if len(cases) > len(corpus) else [cases[0]],
    })
    R.assumptions += [
        "gobwas/glob and Go regexp are trusted; the correspondence generates exact matchers, globs `lit*` and regexes "
        "`^lit`, whose meaning the model states directly",
        "request scheme is http in the harness (no TLS listener); the scheme condition is exercised with rules "
        "demanding http, https or nothing",
    ]
    go2lean_c03.report(R)
    if not lean_ok:
        R.violation("theorems of Props/C03.lean no longer check: " + "; ".join(R.lean["failed"])[:600],
                    {"lean_log": R.lean["log"], "failed": R.lean["failed"]}, no_input=True)


replay = rc.replay
