"""C16 — issued JWTs verify against the published key set and carry the system claims."""
import concurrent.futures
import copy
import itertools
import json
import os
import subprocess
import time

import gen_signer
import vlib

PID = "C16"
SIGNER_GO = "internal/rules/mechanisms/finalizers/jwt_signer.go"
GEN_FILE = os.path.join(vlib.LEAN, "HeimdallModel", "Gen", "Signer.lean")
PRIVATE_MEMBERS = {"d", "p", "q", "dp", "dq", "qi", "oth", "k"}
CACHE_LEEWAY_NS = 5_000_000_000


# ---------------------------------------------------------------------------------------------------------------
# regenerated facts

def regenerate(R):
    """Gen/Signer.lean from the current source; returns error text or None"""
    exe = os.path.join(R.tmp, "signer_extract")
    p = subprocess.run(["go", "build", "-o", exe, "."], cwd=os.path.join(vlib.VERIF, "extract", "signer"),
                       env=vlib.go_env(), capture_output=True, text=True)
    if p.returncode != 0:
        return "extractor does not build: " + p.stderr[-800:]
    p = subprocess.run([exe, "-repo", vlib.REPO], capture_output=True, text=True)
    if p.returncode != 0:
        stub = ("-- extraction failed, see the check output\nnamespace Heimdall.Gen.Signer\n"
                "def mutexes : List String := []\ndef fields : List String := []\n"
                "def outsideWrites : List String := [\"extraction failed\"]\n"
                "def protocol : List (String × List String) := []\nend Heimdall.Gen.Signer\n")
        with vlib.LeanLock():
            with open(GEN_FILE, "w") as fh:
                fh.write(stub)
        return "extractor failed closed: " + p.stderr[-800:]
    with vlib.LeanLock():
        old = open(GEN_FILE).read() if os.path.exists(GEN_FILE) else ""
        if old != p.stdout:
            with open(GEN_FILE, "w") as fh:
                fh.write(p.stdout)
    R.coverage["generated_facts"] = p.stdout.count("\n  \"") + p.stdout.count("\n  (")
    return None


# ---------------------------------------------------------------------------------------------------------------
# the property, checked directly on what the implementation produced (oracle independent of the model)

def effective(holder, op):
    """(ttl in ns, issuer) the property speaks about for one sign operation"""
    ttl = holder["ttl_ns"] if holder["ttl_ns"] is not None else 300_000_000_000
    ov = op.get("ov")
    if ov and ov.get("ttl_ns") is not None:
        ttl = ov["ttl_ns"]
    return ttl, (holder["name"] or "heimdall")


def spec_token(holder, op, res, jwks_keys=None, idx=None):
    """list of property failures of one token handed out by the execution `op` — freshly signed or taken from the
    cache (then it was issued for an earlier execution): either way it has to be a token for THIS execution: subject
    id, issuer, TTL of the finalizer instance that executes; `idx`: position of the operation in its case"""
    bad = []
    if not isinstance(res, dict) or "claims" not in res:
        return bad
    ttl, iss = effective(holder, op)
    claims = {n: v for n, v in res["claims"]}
    if claims.get("sub") != {"json": op["sub"]}:
        bad.append(f"sub is {json.dumps(claims.get('sub'))}, the subject id is {json.dumps(op['sub'])}")
    if claims.get("iss") != {"json": iss}:
        bad.append(f"iss is {json.dumps(claims.get('iss'))}, the signer name is {json.dumps(iss)}")
    if claims.get("iat") != "issue time":
        bad.append(f"iat is not the issue time: {json.dumps(claims.get('iat'))}")
    if claims.get("nbf") != {"minus_iat": 0}:
        bad.append(f"nbf is not the issue time: {json.dumps(claims.get('nbf'))}")
    want = [ttl // 10**9] if ttl % 10**9 == 0 else [ttl // 10**9, ttl // 10**9 + 1]
    exp = claims.get("exp")
    if not (isinstance(exp, dict) and exp.get("minus_iat") in want):
        bad.append(f"exp - iat is {json.dumps(exp)}, the configured TTL is {ttl} ns")
    if claims.get("jti") != "uuid":
        bad.append(f"jti is {json.dumps(claims.get('jti'))}")
    hdr = res.get("hdr", {})
    if hdr.get("typ") != "JWT":
        bad.append(f"typ header is {json.dumps(hdr.get('typ'))}")
    if res.get("signed_by", -1) < 0:
        bad.append("the signature verifies under none of the keys of the case")
    tm = res.get("timing")
    if isinstance(tm, dict):
        # what the wall clock says about the hand-out (cases with a token cache)
        if tm.get("exp_minus_now_s", 1) <= 0:
            bad.append(f"the token was handed out expired ({-tm['exp_minus_now_s']} s after its exp)")
        cached = idx is not None and res.get("from") != idx
        if cached and ttl <= CACHE_LEEWAY_NS:
            bad.append(f"a token issued for operation {res.get('from')} was handed out from the cache by a finalizer "
                       f"instance whose TTL ({ttl} ns) does not exceed the cache leeway of 5 s")
        elif cached and tm["age_lower_ns"] > ttl - CACHE_LEEWAY_NS + tm["issue_window_ns"]:
            bad.append(f"the token handed out from the cache was issued at least {tm['age_lower_ns']} ns earlier, "
                       f"more than TTL - 5 s = {ttl - CACHE_LEEWAY_NS} ns")
    overlapped = op.get("inside") is not None and idx is not None and res.get("from") not in (None, idx)
    # (a cached token handed out by an execution that overlaps a reload of its key store was looked up before the
    # reload: it names the key that was active then; c16_cache_handout_during_reload)
    if "verify_any" in res and not res["verify_any"] and not overlapped:
        bad.append(f"the token (kid {hdr.get('kid')}, alg {hdr.get('alg')}) does not verify against any key the JWKS "
                   f"endpoint publishes under that id and algorithm")
    return bad


def spec_jwks(res):
    bad = []
    if not isinstance(res, dict) or "keys" not in res:
        return ["JWKS endpoint did not answer with a key set: " + json.dumps(res)[:200]]
    for k in res["keys"]:
        leaked = sorted(set(k.get("members", [])) & PRIVATE_MEMBERS)
        if leaked or k.get("private") or k.get("public_type") is False:
            bad.append(f"published key {k.get('kid')} carries private members {leaked}")
    return bad


def spec_case(case, impl):
    """property failures of a sequential case: [(op index, text)]"""
    bad = []
    if not isinstance(impl, dict) or "ops" not in impl:
        return bad
    for idx, (op, res) in enumerate(zip(case["ops"], impl["ops"])):
        if op["op"] == "sign":
            bad += [(idx, b) for b in spec_token(case["holders"][op["h"]], op, res, idx=idx)]
        elif op["op"] == "jwks":
            bad += [(idx, b) for b in spec_jwks(res)]
    return bad


# ---------------------------------------------------------------------------------------------------------------
# implementation vs model

def normalise(impl, model):
    """the issue time is not an input: the model gives the set of admissible `exp - iat`; replace a member by the set"""
    if not (isinstance(impl, dict) and isinstance(model, dict)):
        return impl, model
    impl = copy.deepcopy(impl)
    impl.pop("transport", None)   # how the JWKS endpoint was reached (loopback TCP, or in-process if no port was free)
    for i in impl.get("ops", []):
        if isinstance(i, dict):
            i.pop("timing", None)  # wall clock readings around a hand-out: judged by spec_token, not by the model
    for i, m in zip(impl.get("ops", []) + impl.get("final", []), model.get("ops", []) + model.get("final", [])):
        if not (isinstance(i, dict) and isinstance(m, dict) and "claims" in i and "claims" in m):
            continue
        mc = dict((n, v) for n, v in m["claims"])
        for pair in i["claims"]:
            n, v = pair
            want = mc.get(n)
            if (isinstance(v, dict) and "minus_iat" in v and isinstance(want, dict) and "minus_iat_in" in want
                    and v["minus_iat"] in want["minus_iat_in"]):
                pair[1] = want
    return impl, model


def numnorm(x):
    """JSON numbers are compared by value (go-jose writes 1700000000 as 1.7e+09)"""
    if isinstance(x, float) and x == int(x) and abs(x) < 2**63:
        return int(x)
    if isinstance(x, list):
        return [numnorm(v) for v in x]
    if isinstance(x, dict):
        return {k: numnorm(v) for k, v in x.items()}
    return x


def differs(impl, model):
    i, m = normalise(impl, vlib.res_of(model))
    return vlib.canon(numnorm(i)) != vlib.canon(numnorm(m))


def first_diff(case, impl, model):
    i, m = normalise(impl, vlib.res_of(model))
    if isinstance(i, dict) and isinstance(m, dict):
        if i.get("created") != m.get("created"):
            return "creation of the finalizers", i.get("created"), m.get("created")
        for k, (a, b) in enumerate(zip(i.get("ops", []), m.get("ops", []))):
            a, b = numnorm(a), numnorm(b)
            if vlib.canon(a) != vlib.canon(b):
                if isinstance(a, dict) and isinstance(b, dict):
                    for key in sorted(set(a) | set(b)):
                        if vlib.canon(a.get(key)) != vlib.canon(b.get(key)):
                            return f"op {k} ({case['ops'][k]['op']}) field {key}", a.get(key), b.get(key)
                return f"op {k} ({case['ops'][k]['op']})", a, b
    return "result", i, m


def is_clocked(case):
    """a case on the wall clock in which certificates run out (gen_signer.gen_expiry_case): it waits ~3 s"""
    return bool(case.get("expiry_clock"))


def run_clocked(exe, cases, env=None):
    """cases that wait for a certificate to run out: each in a harness process of its own, side by side (they sleep)"""
    if not cases:
        return []
    with concurrent.futures.ThreadPoolExecutor(max_workers=min(len(cases), 12)) as pool:
        return list(pool.map(lambda c: vlib.run_cases([exe], [c], env=env, timeout=300)[0], cases))


def run_both(exe, cases, env=None):
    slow = [k for k, c in enumerate(cases) if is_clocked(c)]
    if slow:
        with concurrent.futures.ThreadPoolExecutor(max_workers=1) as side:
            fut = side.submit(run_clocked, exe, [cases[k] for k in slow], env)
            rest = [c for c in cases if not is_clocked(c)]
            done = iter(vlib.run_cases([exe], rest, env=env, timeout=1500) if rest else [])
            waited = iter(fut.result())
        impl = [next(waited) if is_clocked(c) else next(done) for c in cases]
    else:
        impl = vlib.run_cases([exe], cases, env=env, timeout=1500)
    model = vlib.run_cases(vlib.driver_cmd(), cases)
    return impl, model


def shrink_clocked(exe, case, env, failing):
    """a case that waits for a certificate to run out takes seconds per run: one round, all candidates side by side —
    every operation on its own, and every operation left out in turn; then the operations that cannot be left out"""
    ops = case["ops"]
    n = len(ops)
    if n <= 1:
        return case
    cands = [dict(case, ops=[o]) for o in ops] + [dict(case, ops=ops[:k] + ops[k + 1:]) for k in range(n)]
    impl, model = run_both(exe, cands, env)

    def shows(c, i, m):
        return not (isinstance(i, dict) and i.get("timing") is True) and failing(c, i, m)
    ok = [shows(c, i, m) for c, i, m in zip(cands, impl, model)]
    for k in range(n):
        if ok[k]:
            return cands[k]
    needed = [k for k in range(n) if not ok[n + k]]
    if needed and len(needed) < n:
        small = dict(case, ops=[ops[k] for k in needed])
        i, m = run_both(exe, [small], env)
        if shows(small, i[0], m[0]):
            return small
    spare = [k for k in range(n) if ok[n + k]]
    return cands[n + spare[-1]] if spare else case


def shrink(exe, case, env, failing):
    """delta debugging on the operation list, then on holders' templates / reload stores"""
    if is_clocked(case):
        return shrink_clocked(exe, case, env, failing)

    def fails(ops):
        c = dict(case, ops=ops)
        i, m = run_both(exe, [c], env)
        if isinstance(i[0], dict) and i[0].get("timing") is True:
            return False   # the run missed its schedule on the wall clock: nothing observed
        return failing(c, i[0], m[0])
    ops = vlib.ddmin(case["ops"], fails) if len(case["ops"]) > 1 else case["ops"]
    return dict(case, ops=ops)


# ---------------------------------------------------------------------------------------------------------------
# concurrent histories

def sequential_predictions(case):
    """per holder and version: what the model says a token header / signing key / published list look like"""
    cases = []
    index = []
    for h, holder in enumerate(case["holders"]):
        for v, store in enumerate(case["versions"][h]):
            hd = dict(holder, store=store, raw=gen_signer.raw_of(store), tpl=None, claims_tpl=None)
            cases.append({"fam": "signer", "keys": case["keys"], "holders": [hd],
                          "ops": [{"op": "sign", "h": 0, "sub": "x", "attrs": {}, "outputs": {}, "ov": None,
                                   "renders": {}}, {"op": "jwks"}]})
            index.append((h, v))
    out = vlib.run_cases(vlib.driver_cmd(), cases)
    pred = {}
    for (h, v), o in zip(index, out):
        r = vlib.res_of(o)
        if isinstance(r, dict) and r.get("created") == ["ok"]:
            tok, jw = r["ops"]
            pred[(h, v)] = {"kid": tok["hdr"]["kid"], "alg": tok["hdr"]["alg"], "signed_by": tok["signed_by"],
                            "keys": jw["keys"]}
        else:
            pred[(h, v)] = None
    return pred


def check_history(case, hist, pred):
    """returns (list of failures, number of observations made concurrently with a reload)"""
    bad = []
    nh = len(case["holders"])
    # when did the reload to version v of holder h start (logical clock)?  version 0 is there from the beginning
    started = {(h, 0): 0 for h in range(nh)}
    windows = []
    for ops, recs in zip(case["reloaders"], hist["reloaders"]):
        for op, rec in zip(ops, recs):
            started[(op["h"], op["v"])] = rec["s"]
            windows.append((rec["s"], rec["e"]))
    last_end = max([e for _, e in windows] + [0])

    def admissible(h, end):
        return [v for v in range(len(case["versions"][h]))
                if pred[(h, v)] is not None and started.get((h, v), 1 << 60) < end]

    overlapping = 0
    for ops, recs in zip(case["signers"], hist["signers"]):
        for op, rec in zip(ops, recs):
            res = rec["res"]
            if rec["s"] < last_end:
                overlapping += 1
            holder = case["holders"][op["h"]]
            if not isinstance(res, dict) or "hdr" not in res:
                if isinstance(res, dict) and res.get("err", "").startswith("override"):
                    continue
                expect_err = (op["sub"] is None or any(r is None for r in op.get("renders", {}).values()))
                if not expect_err:
                    bad.append(("token creation failed while key stores were reloaded: " + json.dumps(res)[:200], op, rec))
                continue
            for b in spec_token(holder, op, res):
                bad.append((b, op, rec))
            trip = (res["hdr"]["kid"], res["hdr"]["alg"], res["signed_by"])
            vs = admissible(op["h"], rec["e"])
            if not any((pred[(op["h"], v)]["kid"], pred[(op["h"], v)]["alg"], pred[(op["h"], v)]["signed_by"]) == trip
                       for v in vs):
                bad.append((f"token names key id {trip[0]} / {trip[1]} and is signed by key #{trip[2]}: no generation "
                            f"of the key store (admissible versions {vs}) pairs that id with that key", op, rec))
    for recs in hist["readers"]:
        for rec in recs:
            res = rec["res"]
            if rec["s"] < last_end:
                overlapping += 1
            for b in spec_jwks(res):
                bad.append((b, {"op": "jwks"}, rec))
            if not isinstance(res, dict) or "keys" not in res:
                continue
            choices = [admissible(h, rec["e"]) for h in range(nh)]
            ok = False
            for combo in itertools.product(*choices):
                want = [k for h, v in enumerate(combo) for k in pred[(h, v)]["keys"]]
                if vlib.canon(want) == vlib.canon(res["keys"]):
                    ok = True
                    break
            if not ok:
                bad.append(("the JWKS endpoint answered with a key set that is not the published list of one "
                            "generation per key store: " + json.dumps([(k['kid'], k['pid']) for k in res['keys']]),
                            {"op": "jwks"}, rec))
    return bad, overlapping


def final_case(case):
    """the sequential case that determines the quiescent state: every holder at its final version"""
    holders = []
    for h, holder in enumerate(case["holders"]):
        fin = next(o for o in case["final"] if o["op"] == "reload" and o["h"] == h)
        holders.append(dict(holder, store=fin["store"], raw=fin["raw"]))
    return {"fam": "signer", "keys": case["keys"], "holders": holders,
            "ops": [o for o in case["final"] if o["op"] != "reload"]}


def watch_model_case(c):
    """the sequential case the model answers for a watcher case"""
    return {"fam": "signer", "keys": c["keys"], "holders": c["holders"],
            "ops": c["before"] + [{"op": "reload", "h": 0, "store": c["next"], "raw": c["next_raw"]}] + c["after"]}


def run_watch(R, exe, env, n):
    """supporting evidence: the reload path through the real fsnotify watcher. A reload that does not arrive within
    the waiting time is counted, not judged (C16 does not demand convergence; C18 does for rule providers)"""
    cases = [gen_signer.gen_watch_case(R.rng, gen_signer.POOL_QUICK) for _ in range(n)]
    models = [vlib.res_of(m) for m in vlib.run_cases(vlib.driver_cmd(), [watch_model_case(c) for c in cases])]
    for c, m in zip(cases, models):
        nb = len(c["before"])
        c["expect_kids"] = [k["kid"] for k in m["ops"][nb + len(c["after"])]["keys"]] if isinstance(m, dict) else []
    impl = vlib.run_cases([exe], cases, env=env, timeout=600)
    conv = unavailable = 0
    for c, i, m in zip(cases, impl, models):
        if isinstance(i, dict) and "harness_error" in i:
            unavailable += 1   # no inotify instance / descriptor left on the machine: nothing observed
            continue
        if not isinstance(i, dict) or "before" not in i:
            R.violation("reload through the file watcher: the process failed: " + json.dumps(i)[:300],
                        {"case": c, "impl": i, "kind": "watcher"}, no_input=False)
            continue
        nb = len(c["before"])
        parts = [("before", i["before"], m["ops"][:nb])]
        if i.get("converged"):
            conv += 1
            parts.append(("after", i["after"], m["ops"][nb + 1:]))
        for label, got, want in parts:
            ops = c[label]
            fi, fm = {"created": ["ok"], "ops": got}, {"created": ["ok"], "ops": want}
            sb = spec_case({"holders": c["holders"], "ops": ops}, fi)
            if sb:
                R.violation(f"reload through the file watcher ({label} the rewrite): {sb[0][1]}",
                            {"case": c, "impl": i, "model": m, "kind": "watcher"}, no_input=False)
            elif differs(fi, fm):
                where, a, b = first_diff({"ops": ops}, fi, fm)
                R.violation(f"reload through the file watcher ({label} the rewrite): implementation differs from the "
                            f"model at {where}: {json.dumps(a)[:200]} vs {json.dumps(b)[:200]}",
                            {"case": c, "impl": i, "model": m, "kind": "watcher"}, no_input=True)
    R.coverage.update({"watcher_cases": len(cases), "watcher_reloads_arrived": conv,
                       "watcher_unavailable": unavailable})


# ---------------------------------------------------------------------------------------------------------------

def nontrivial(stats):
    return stats.get("tokens", 0) > 0 and (stats.get("reserved_named_custom_claims", 0) > 0
                                           or stats.get("tokens_after_certificate_expiry", 0) > 0
                                           or stats.get("reloads_ok", 0) > 0
                                           or stats.get("cache_hits", 0) > 0
                                           or stats.get("tokens_naming_later_id_of_shared_key", 0) > 0
                                           or stats.get("cache_cross_variant_misses", 0) > 0
                                           or stats.get("published_keys", 0) > stats.get("jwks_reads", 0))


def run(R):
    clock = [time.time()]
    phases = {}

    def lap(name):
        now = time.time()
        phases[name] = round(phases.get(name, 0) + now - clock[0], 1)
        clock[0] = now

    gen_err = regenerate(R)
    lean_ok = vlib.step_lean(R, PID)
    lap("lean")
    thorough = R.tier == "thorough"
    ov = vlib.jitter_copy(R.tmp, SIGNER_GO)
    exe, log = vlib.build_harness(R.tmp, extra_overlay=ov, pid=PID)
    if exe is None:
        R.violation("harness does not build against /repo (API used by the correspondence check changed)",
                    {"build_log": log[-3000:]}, no_input=True)
        return
    exe_conc = exe
    if thorough:
        # the race detector slows RSA down by an order of magnitude: only the concurrent stream runs under it
        race_dir = os.path.join(R.tmp, "race")
        os.makedirs(race_dir, exist_ok=True)
        exe_conc, log = vlib.build_harness(race_dir, extra_overlay=ov, race=True, pid=PID)
        if exe_conc is None:
            R.violation("race-detector build of the harness failed", {"build_log": log[-3000:]}, no_input=True)
            return
    lap("harness_build")
    env = dict(os.environ, TMPDIR=R.tmp, GORACE="halt_on_error=1 exitcode=66")
    pool = gen_signer.POOL_THOROUGH if thorough else gen_signer.POOL_QUICK
    corpus = vlib.load_corpus(PID)
    seq_corpus = [c for c in corpus if c.get("fam") == "signer"]
    conc_corpus = [c for c in corpus if c.get("fam") == "signerconc"]

    # --- sequential stream: implementation vs model vs property
    n = 180 if not thorough else 4000
    grid = gen_signer.grid_cases()
    nt = 6 if not thorough else 30
    ne = 1 if not thorough else 4
    seq_plain = [c for c in seq_corpus if not is_clocked(c)]
    cases = seq_plain + grid + [gen_signer.gen_signer_case(R.rng, pool) for _ in range(n)] + \
        [gen_signer.gen_timed_cache_case(R.rng, pool) for _ in range(nt)]
    # certificates that run out while the case runs (leaf / issuing CA; ~3.5 s of waiting each): in processes of their
    # own next to the stream above (run_both), so the wall clock of the check does not grow by their waiting
    clocked = [c for c in seq_corpus if is_clocked(c)] + \
        [gen_signer.gen_expiry_case(R.rng, pool, kind) for _ in range(ne) for kind in ("leaf", "ca")]
    cases += clocked
    impl, model = run_both(exe, cases, env)
    lap("sequential_run")
    agg = {}
    nontriv = set()
    reported = 0
    transports = {}
    off_schedule = timed = clocked_off = 0
    for c, i, m in zip(cases, impl, model):
        if (c.get("cache") or {}).get("tick_ms"):
            timed += 1
        if isinstance(i, dict) and i.get("timing") is True:
            # the machine was too busy to keep the schedule of a case on the wall clock in any of the attempts:
            # nothing was observed (counted in the evidence)
            off_schedule += 1
            clocked_off += 1 if is_clocked(c) else 0
            continue
        st = m.get("stats", {}) if isinstance(m, dict) else {}
        for k, v in st.items():
            if isinstance(v, int):
                agg[k] = agg.get(k, 0) + v
            elif isinstance(v, list):
                agg.setdefault(k, set()).update(v)
        if nontrivial(st):
            nontriv.add(vlib.case_hash(c))
        if isinstance(i, dict) and "transport" in i:
            transports[i["transport"]] = transports.get(i["transport"], 0) + 1
        if isinstance(i, dict) and ("crash" in i or "panic" in i or "harness_error" in i):
            race = "DATA RACE" in str(i.get("crash", "")) or i.get("rc") == 66
            R.violation("data race reported by the race detector" if race else
                        "harness failed on a case: " + json.dumps(i)[:300], {"case": c, "impl": i, "kind": "crash"},
                        no_input=not race)
            continue
        sb = spec_case(c, i)
        df = differs(i, m)
        if (sb or df) and reported < 5:
            reported += 1
            def failing(cc, ii, mm):
                return bool(spec_case(cc, ii)) if sb else differs(ii, mm)
            sc = shrink(exe, c, env, failing)
            si, sm = run_both(exe, [sc], env)
            si, sm = si[0], sm[0]
            ssb = spec_case(sc, si)
            if ssb:
                k, text = ssb[0]
                R.violation(f"property fails on the real code: op {k} ({json.dumps(sc['ops'][k])[:200]}): {text}",
                            {"case": sc, "impl": si, "model": vlib.res_of(sm), "kind": "impl-vs-spec"}, no_input=False)
            else:
                where, a, b = first_diff(sc, si, sm)
                R.violation(f"implementation differs from the proved model at {where}: implementation "
                            f"{json.dumps(a)[:300]}, model {json.dumps(b)[:300]}",
                            {"case": sc, "impl": si, "model": vlib.res_of(sm), "kind": "impl-vs-model"}, no_input=True)
        elif sb or df:
            reported += 1

    lap("sequential_judge")
    # --- concurrent stream
    nc = 32 if not thorough else 280
    ccases = conc_corpus + [gen_signer.gen_conc_case(R.rng, pool) for _ in range(nc)]
    hists = vlib.run_cases([exe_conc], ccases, env=env, timeout=2400)
    finals = vlib.run_cases(vlib.driver_cmd(), [final_case(c) for c in ccases])
    nobs = noverlap = nhist = 0
    conc_nontriv = set()
    conc_reported = 0
    for c, h, fm in zip(ccases, hists, finals):
        if isinstance(h, dict) and "crash" in h:
            race = "DATA RACE" in h["crash"] or h.get("rc") == 66
            R.violation("data race reported by the race detector during concurrent token creation / JWKS reads / "
                        "reloads" if race else "process crashed during concurrent operations",
                        {"case": c, "stderr": h["crash"], "kind": "crash"}, no_input=False)
            continue
        if not isinstance(h, dict) or "signers" not in h:
            R.violation("harness error in concurrent run: " + json.dumps(h)[:300], {"case": c, "result": h},
                        no_input=True)
            continue
        pred = sequential_predictions(c)
        bad, ov_n = check_history(c, h, pred)
        nhist += 1
        nobs += sum(len(x) for x in h["signers"]) + sum(len(x) for x in h["readers"])
        noverlap += ov_n
        if ov_n > 0:
            conc_nontriv.add(vlib.case_hash({k: c[k] for k in ("holders", "versions", "signers", "reloaders")}))
        fi = {"created": h["created"], "ops": [x for x, o in zip(h["final"], c["final"]) if o["op"] != "reload"]}
        fmr = vlib.res_of(fm)
        fmm = {"created": fmr.get("created"), "ops": fmr.get("ops")} if isinstance(fmr, dict) else fmr
        if differs(fi, fmm):
            where, a, b = first_diff(final_case(c), fi, fmm)
            bad.append((f"after all reloads have finished the state is not the one of the last loaded key store "
                        f"({where}): implementation {json.dumps(a)[:200]}, model {json.dumps(b)[:200]}", None, None))
        for text, op, rec in bad[:3]:
            if conc_reported < 5:
                R.violation("concurrent run: " + text, {"case": c, "history": h, "operation": op, "observation": rec,
                                                        "kind": "concurrent"}, no_input=False)
            conc_reported += 1

    lap("concurrent")
    run_watch(R, exe, env, 8 if not thorough else 60)
    lap("watcher")

    R.coverage.update({
        "evaluations": len(cases) + len(ccases) + R.coverage.get("watcher_cases", 0),
        "distinct_nontrivial": len(nontriv) + len(conc_nontriv),
        "rule": "sequential cases: 1-3 jwt finalizers created by the real factory over generated PEM key stores "
                "(RSA 2048/3072/4096, P-256/384/521, PKCS#8 / PKCS#1 / SEC1 / encrypted PKCS#8, explicit key ids, "
                "certificates with and without subject key identifier, CA-issued chains, invalid stores), 3-10 "
                "operations (token creation through Execute with claims templates naming reserved claims and rule-level "
                "overrides, reads of the real management JWKS endpoint, reloads through OnChanged); every token is "
                "taken from the upstream header and verified with go-jose against the endpoint body; implementation "
                "vs model vs property. About half of the cases run with the real in-memory cache in the request "
                "context (the prototype and WithConfig variants differing in TTL and/or claims template, a second "
                "finalizer with the same key and issuer, the same and other subjects / attributes / outputs again, "
                "reloads to other, unchanged and earlier stores); timed cases repeat executions inside and outside "
                "cache lifetimes of 0.5 / 1.5 / 2.5 ticks of 100 ms on the wall clock; cases whose signing certificate / "
                "issuing CA certificate runs out 2-3 s after the start sign and read the key set before and after that "
                "instant, reload the store with the expired certificate (refused) and a renewed / another one. "
                "About one generated key store out of seven (and a deterministic grid: two key types x three layouts x "
                "every id of the store) lists one of its keys once or twice more under further X-Key-IDs, anywhere in "
                "the file; the finalizer is then mostly configured with one of the ids of that key, mostly a later one, "
                "and reloads go to stores that list a key again under the configured id. "
                "Non-trivial sequential case = at "
                "least one token created and (custom claims naming a reserved claim, or a successful reload, or a "
                "token handed out while a certificate of a published key is outside its validity period, or a "
                "token served from the cache, or a token naming a later id of a key its store lists several times, or "
                "a cached token of the same subject not served because the executing "
                "instance has another TTL, or more than one published key). Concurrent cases: "
                "2-3 signer goroutines, 1-2 JWKS readers, 1-3 reloader goroutines firing OnChanged on goroutines of "
                "their own, mutexes of jwt_signer.go replaced by jitter-adding ones; non-trivial = at least one token "
                "or key-set read overlapping a reload. Distinct by hash of the case",
        "sequential_cases": len(cases), "concurrent_cases": len(ccases), "corpus_cases": len(corpus),
        "tokens_created": agg.get("tokens", 0),
        "custom_claims_naming_reserved_claims": agg.get("reserved_named_custom_claims", 0),
        "token_creations_failed_as_modelled": agg.get("sign_errors", 0),
        "tokens_with_fractional_ttl": agg.get("fractional_ttl_tokens", 0),
        "reloads_ok": agg.get("reloads_ok", 0), "reloads_rejected": agg.get("reloads_failed", 0),
        "jwks_reads": agg.get("jwks_reads", 0), "published_keys_seen": agg.get("published_keys", 0),
        "first_match_clashes_across_holders": agg.get("first_match_clashes", 0),
        "algorithms": sorted(agg.get("algs", [])),
        "finalizers_created": agg.get("holders_created", 0), "finalizers_rejected": agg.get("holders_failed", 0),
        "cases_with_token_cache": agg.get("cache_cases", 0), "timed_cache_cases": timed,
        "tokens_signed_while_the_key_store_was_reloaded": agg.get("cache_stores_during_reload", 0),
        "timed_or_cached_cases_off_schedule_not_judged": off_schedule,
        "tokens_served_from_cache": agg.get("cache_hits", 0), "tokens_signed_with_cache": agg.get("cache_misses", 0),
        "tokens_stored_in_cache": agg.get("cache_stores", 0),
        "fresh_tokens_while_same_subject_cached_under_other_ttl": agg.get("cache_cross_variant_misses", 0),
        "concurrent_histories_checked": nhist, "concurrent_observations": nobs,
        "concurrent_observations_overlapping_a_reload": noverlap,
        "race_detector": thorough, "jitter_overlay": bool(ov), "jwks_endpoint_transport": transports,
        "grid_cases": len(grid),
        "samples": [cases[len(seq_plain) + len(grid)]] if len(cases) > len(seq_plain) + len(grid) else [cases[0]],
        "cases_with_certificates_running_out": len(clocked),
        "cases_with_certificates_running_out_off_schedule_not_judged": clocked_off,
        "tokens_handed_out_after_a_published_certificate_ran_out": agg.get("tokens_after_certificate_expiry", 0),
        "jwks_reads_after_a_published_certificate_ran_out": agg.get("jwks_reads_after_certificate_expiry", 0),
        "reloads_refused_because_a_certificate_had_run_out": agg.get("reloads_refused_for_expired_certificate", 0),
        "tokens_naming_a_later_id_of_a_key_listed_several_times": agg.get("tokens_naming_later_id_of_shared_key", 0),
        "jwks_reads_showing_a_key_under_several_ids": agg.get("jwks_reads_with_key_under_several_ids", 0),
        "disagreements_checked": reported + conc_reported,
        "seconds_per_phase": phases,
    })
    R.assumptions += [
        "cryptography is opaque in the model: a signature made with a private key verifies exactly under that key's "
        "public half (go-jose, crypto/rsa, crypto/ecdsa trusted; validated on every token of the correspondence run)",
        "X.509 is opaque: which chain FindChain finds, whether ValidateChain accepts it and whether the certificate "
        "may sign are inputs of the model, derived by the generator from how it built the store",
        "text/template + sprig rendering of the claims template is not modelled: the generator supplies the members "
        "each template renders to; goccy/go-json decodes a repeated member name to the last value",
        "sync.RWMutex implements reader/writer exclusion (Go runtime, trusted); Model/SignerConc.lean abstracts it as "
        "atomic acquire/release steps; data-race freedom is a runtime property (race detector in the thorough tier "
        "as supporting evidence only)",
        "the reading of the extracted synchronisation events as critical sections (Model/SignerProtocol.lean: "
        "abstractEv, sections) and the inlining of receiver method calls by the extractor are part of the trusted tie",
        "the issue time is read from the wall clock inside Sign: the check brackets it by clock readings before and "
        "after the call and compares exp/nbf relative to iat",
        "token cache: the model says which inputs the cache key covers (signer hash = key id, algorithm, issuer, "
        "public key; claims template; TTL; subject id and attributes; outputs), not its bytes (C11); the store is "
        "modelled as the in-memory TTL store (C10 ties its semantics); template rendering is assumed to be a function "
        "of template, subject and outputs; executions of one history are sequential (concurrent executions racing "
        "for one cache entry are not modelled); cases on the wall clock that miss their schedule are repeated and, "
        "if the machine stays too busy, not judged (counted)",
        "time: the model judges certificates at the instant of each load from validity periods the generator supplies "
        "(Model/SignerTime.lean); on the real side the certificates are generated with NotAfter 2-3 s after the start of "
        "the case and the harness waits; an operation counts only if it ran on the side of every real expiry instant "
        "the model has it on (else the case is repeated, after three attempts not judged); X.509 validity is otherwise "
        "opaque (crypto/x509 trusted)",
    ]
    if gen_err:
        R.violation("extraction of the locking protocol of jwtSigner from the source failed: " + gen_err, {"error": gen_err},
                    no_input=True)
    if not lean_ok:
        R.violation("theorems / source obligations of Props/C16.lean no longer check (the critical sections of jwtSigner "
                    "read off the source are not the locking protocol the proofs are about): "
                    + "; ".join(R.lean["failed"])[:600],
                    {"lean_log": R.lean["log"], "failed": R.lean["failed"],
                     "theorems": R.lean.get("failed_theorems"),
                     "generated": open(GEN_FILE).read() if os.path.exists(GEN_FILE) else ""}, no_input=True)


def replay(R, path):
    with open(path) as fh:
        p = json.load(fh)
    ov = vlib.jitter_copy(R.tmp, SIGNER_GO)
    exe, log = vlib.build_harness(R.tmp, extra_overlay=ov, pid=PID)
    R.coverage.update({"obligations": 1, "discharged": 1, "checker_cmd": "replay", "trusted_base": []})
    if exe is None:
        R.violation("harness does not build", {"build_log": log[-3000:]}, no_input=True)
        return
    env = dict(os.environ, TMPDIR=R.tmp)
    c = p.get("case") or (p if "fam" in p else None)   # a replay file, or a bare case (corpus/C16/*.json)
    if not c:
        print("the replay file names no input:", p.get("what"))
        R.violation("replay without a concrete input: " + str(p.get("what"))[:300], p, no_input=True)
        return
    if c.get("fam") == "signerconc":
        for k in range(60):
            cc = dict(c, seed=k)
            h = vlib.run_cases([exe], [cc], env=env)[0]
            if not (isinstance(h, dict) and "signers" in h):
                R.violation("replay: concurrent run crashed: " + json.dumps(h)[:300], {"case": cc})
                return
            bad, _ = check_history(cc, h, sequential_predictions(cc))
            if bad:
                print("seed", k, ":", bad[0][0][:300])
                R.violation("replay reproduces: " + bad[0][0][:300], {"case": cc, "history": h})
                return
        print("not reproduced in 60 schedules")
        return
    i, m = run_both(exe, [c], env)
    i, m = i[0], m[0]
    if isinstance(i, dict) and i.get("timing") is True:
        print("the machine is too busy to keep the schedule of this case on the wall clock: nothing observed")
        return
    print("impl :", json.dumps(i)[:3000])
    print("model:", json.dumps(vlib.res_of(m))[:3000])
    sb = spec_case(c, i)
    for k, text in sb:
        print(f"property: op {k}: {text}")
    if sb:
        R.violation("replay: property fails: " + sb[0][1], {"case": c, "impl": i, "model": vlib.res_of(m)})
    elif differs(i, m):
        where, a, b = first_diff(c, i, m)
        R.violation(f"replay: implementation differs from the model at {where}", {"case": c, "impl": i,
                                                                                 "model": vlib.res_of(m)})
