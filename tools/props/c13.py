"""C13 — all three entry points decide alike and show the pipeline the same request.

(B) theorems: lean/HeimdallModel/Props/C13.lean about Model/EntryView.lean (request contexts of the HTTP based
    services and of the Envoy gRPC service, the `Request()` cell, a run of a rule set whose mechanisms read the view)
    and Spec/EntryView.lean (the reference view of a logical request and the reference run).
(A) tie: family `entryview` — one generated logical request and one generated rule set (real cel authorizer, real
    header / cookie finalizers with templates, real CEL `if` conditions, a spy authorizer reporting the
    heimdall.Request it is handed) are sent through the REAL decision service, proxy service (with an upstream test
    server) and Envoy ext_authz gRPC service on loopback ports; decision, view shown to the mechanisms and the headers
    and cookies handed to the upstream side are compared
      * with the model of each entry point (impl = model),
      * with the reference semantics (impl = spec: the property itself, entry point by entry point),
      * pairwise between the entry points for what is not modelled (`Request.URL.String()`).
    Every case names the log level the services run with (trace … disabled, written to a discarded writer; the dump
    middleware of the HTTP based services only runs at trace) and bodies come in lengths from 0 to 300 KiB (every
    kind of body at 0, 1, 300, 4096, 16383, 16384, 16385, 65536, 307200 bytes at trace and one other level in every
    run, plus random lengths); for the proxy the payload its upstream received is compared as well.
    Every case names the `buffer_limit` block of the services (mostly the defaults of the tree under test, which the
    harness reads from heimdall's configuration loader at the start of the run: 4 KiB to read — most sized bodies are
    longer; the head of some requests fills what the servers read for it to the last byte) and hosts come with ports
    spelled out, the default port of the scheme included (`Request.URL.Host`, `Hostname()`, `Port()` are read by
    templates, CEL expressions and host matchers).
    In a quarter of the covered cases (`via`) the services are configured with `trusted_proxies` and the HTTP decision
    service does not receive the logical request itself but — as behind Traefik forwardAuth / NGINX auth_request — a
    request of a trusted gateway (own method, transport and target) that describes it in X-Forwarded-Method / -Proto /
    -Host / -Uri, while the proxy service and the Envoy gRPC service receive the logical request: decision and view
    have to be the same (theorem c13_delegated_request_is_the_logical_request)."""
import concurrent.futures
import copy
import json
import os
import shutil
import time

import gen_entryview
import vlib

PID = "C13"
EPS = ("decision", "envoy", "proxy")
KF_HOST = "C13-headers-host-entry"
KF_FIRST = "C13-first-header-value"
KF_RAW = "C13-envoy-raw-path-octets"
VIA_HEADERS = ("X-Forwarded-Method", "X-Forwarded-Proto", "X-Forwarded-Host", "X-Forwarded-Uri")
KF_TEXT = {
    KF_RAW: "for a path with octets that may not stand in a path (\" < > ^ ` { | } \\ non-ASCII) the raw path shown by "
            "the Envoy gRPC service keeps the octets, that of the decision and proxy services has them percent-encoded "
            "(decoded path, captures and decision agree)",
    KF_HOST: "Request.Headers() of the decision and proxy services contains a `Host` entry, that of the Envoy gRPC "
             "service does not (Header(\"Host\") agrees everywhere)",
    KF_FIRST: "a header added for the upstream more than once reaches the upstream side of the decision and proxy "
              "services with its first value only, that of the Envoy gRPC service with all values joined",
}


# ---------------------------------------------------------------------------------------------------------------
# running both sides

DRIVER = None


def driver_cmd(R=None, tries=120):
    """The Lean driver of this run: copied into the run's temp directory right after it was built. Checks of other
    properties running side by side re-link lean/.lake/build/bin/driver (the file is missing for a moment, and may
    change while this run uses it)."""
    global DRIVER
    if DRIVER is None and R is not None:
        src, dst = vlib.driver_cmd()[0], os.path.join(R.tmp, "driver-C13")
        for _ in range(tries):
            try:
                shutil.copy2(src, dst)
                DRIVER = [dst]
                break
            except OSError:
                time.sleep(1)
    return DRIVER or vlib.driver_cmd()


def run_parallel(cmd, cases, workers):
    if len(cases) < 200 or workers <= 1:
        return vlib.run_cases(cmd, cases, timeout=1500)
    size = (len(cases) + workers - 1) // workers
    chunks = [cases[i:i + size] for i in range(0, len(cases), size)]
    with concurrent.futures.ThreadPoolExecutor(max_workers=workers) as ex:
        parts = list(ex.map(lambda ch: vlib.run_cases(cmd, ch, timeout=1500), chunks))
    return [r for p in parts for r in p]


def suspicious(i):
    """an answer that may be due to the environment rather than to heimdall (executor process died, socket or RPC
    transport failure): such a case is run again in a fresh process before it is judged"""
    if not isinstance(i, dict) or any(k in i for k in ("crash", "harness_error", "panic", "unparsable")):
        return True
    for ep in EPS:
        e = i.get(ep)
        if isinstance(e, dict) and (e.get("dec") == "transport" or str(e.get("dec")).startswith("rpcerr-")):
            return True
    return False


def rerun_suspicious(exe, cases, impl):
    n = 0
    for idx, i in enumerate(impl):
        if suspicious(i) and n < 50:
            n += 1
            for _ in range(2):
                impl[idx] = vlib.run_cases([exe], [cases[idx]])[0]
                if not suspicious(impl[idx]):
                    break
    return n


def canon_impl(i):
    """what is compared with the model: no hit counter, no transport detail, no URL.String() (not modelled)"""
    if not isinstance(i, dict):
        return i
    if "load" in i:
        return {"load": "rejected"}
    i = copy.deepcopy(i)
    for ep in EPS:
        e = i.get(ep)
        if isinstance(e, dict):
            e.pop("hits", None)
            e.pop("why", None)
            e.pop("body", None)
            if isinstance(e.get("spy"), dict):
                e["spy"].pop("url", None)
    return i


def model_diff(i, m):
    """entry points (or `check`, `load`) in which the implementation and the model disagree"""
    ci, cm = canon_impl(i), vlib.res_of(m)
    if not isinstance(ci, dict) or not isinstance(cm, dict):
        return ["all"]
    return [k for k in sorted(set(ci) | set(cm)) if vlib.canon(ci.get(k)) != vlib.canon(cm.get(k))]


def view_diff(ep, sa, ss, viol, hits):
    """the view the spy was shown (sa) against the reference view (ss)"""
    for k in sorted(set(sa) | set(ss)):
        if vlib.canon(sa.get(k)) == vlib.canon(ss.get(k)):
            continue
        if k == "headers" and ep != "envoy" and \
                vlib.canon(sorted((ss.get(k) or []) + [["Host", sa.get("host")]])) == vlib.canon(sorted(sa.get(k) or [])):
            # known finding: exactly one more entry, `Host` = the host of the view, at the HTTP based services
            hits.append(KF_HOST)
        else:
            viol.append((ep, "view." + k, sa.get(k), ss.get(k)))


def upstream_diff(ep, ua, us, single_valued, viol, hits, delivered=None):
    """headers / cookies / payload handed to the upstream side (ua) against the reference answer (us)"""
    if ua.get("payload") != us.get("payload"):
        viol.append((ep, "upstream.payload", ua.get("payload"), us.get("payload")))
    if vlib.canon(ua.get("cookies")) != vlib.canon(us.get("cookies")):
        viol.append((ep, "upstream.cookies", ua.get("cookies"), us.get("cookies")))
    ha, hs = ua.get("headers") or [], us.get("headers") or []
    if vlib.canon(ha) == vlib.canon(hs):
        return
    # known finding: a header collected more than once, first value only at the HTTP based services (the echoed
    # values are query-escaped, so a comma can only be the separator of the joined list)
    # (`delivered`: the reference answer with the first value of every collected header, computed by the driver — long
    # values are compared by digest, which cannot be split)
    if ep != "envoy" and not single_valued and [p[0] for p in ha] == [p[0] for p in hs] and \
            (all(x[1] == y[1] or x[1] == y[1].split(",")[0] for x, y in zip(ha, hs))
             or (delivered is not None and vlib.canon(ha) == vlib.canon(delivered))):
        hits.append(KF_FIRST)
    else:
        viol.append((ep, "upstream.headers", ha, hs))


def spec_diff(case, i, m):
    """(violations, known-finding hits): where the implementation departs from the reference semantics.
    Only for well-formed logical requests. A departure that has exactly the signature of one of the two known findings
    is a hit, anything else a violation."""
    viol, hits = [], []
    wire_path = case["req"]["path"]
    spec = m.get("spec") if isinstance(m, dict) else None
    ci = canon_impl(i)
    if not spec or not spec.get("wellformed") or not spec.get("fits", True) or not isinstance(ci, dict) \
            or "load" in ci or (case.get("via") and not spec.get("forwardable")):
        # outside the statement: not well-formed, or a head larger than the HTTP based services read (431 there)
        return viol, hits
    if suspicious(i):
        viol.append(("all", "answer (executor failure, twice)", i, None))
        return viol, hits
    for ep in EPS:
        a, s = ci.get(ep), spec.get(ep)
        if not isinstance(a, dict) or not isinstance(s, dict):
            viol.append((ep, "answer", a, s))
            continue
        if a.get("dec") != s.get("dec"):
            viol.append((ep, "decision", a.get("dec"), s.get("dec")))
            continue
        if a.get("status") != s.get("status"):
            viol.append((ep, "status", a.get("status"), s.get("status")))
            continue
        sa, ss = a.get("spy"), s.get("spy")
        if (sa is None) != (ss is None):
            viol.append((ep, "view", sa, ss))
        elif sa is not None:
            if ep == "envoy" and not spec.get("covered") and sa.get("rawpath") != ss.get("rawpath") and \
                    sa.get("rawpath") == wire_path and sa.get("path") == ss.get("path"):
                # known finding: the raw path as received instead of the received spelling with the forbidden octets
                # encoded — for a request outside `covered` (such octets in the path) and nothing else
                hits.append(KF_RAW)
                sa = dict(sa, rawpath=ss.get("rawpath"))
            if ep == "decision" and case.get("via"):
                # the four lines in which the trusted gateway describes the logical request are lines of the gateway's
                # message, not of the logical request (hop headers: outside the statement); everything else of
                # `Headers()` is compared
                sa = dict(sa, headers=[h for h in sa.get("headers") or [] if h[0] not in VIA_HEADERS])
            view_diff(ep, sa, ss, viol, hits)
        ua, us = a.get("up"), s.get("up")
        if (ua is None) != (us is None):
            viol.append((ep, "upstream", ua, us))
        elif ua is not None:
            upstream_diff(ep, ua, us, spec.get("single_valued"), viol, hits, (spec.get("delivered") or {}).get(ep))
    return viol, hits


def url_diff(i):
    """`Request.URL.String()` as the mechanisms of the three entry points see it (not modelled): must agree"""
    if not isinstance(i, dict) or "load" in i:
        return None
    urls = {}
    for ep in EPS:
        e = i.get(ep)
        if isinstance(e, dict) and isinstance(e.get("spy"), dict):
            urls[ep] = e["spy"].get("url")
    return urls if len(set(urls.values())) > 1 else None


def body_diff(case, i):
    """`respond.verbose` (not modelled): a refusal carries an error body exactly if verbose errors are configured — at
    all three entry points. Compared for requests without an `Accept` line (the negotiation of the body's format is
    C12's subject) and other than HEAD."""
    if not isinstance(i, dict) or "load" in i or suspicious(i):
        return None
    r = case["req"]
    if r["method"] == "HEAD" or any(n.lower() == "accept" for n, _ in r["headers"]):
        return None
    verbose = bool((case.get("respond") or {}).get("verbose"))
    bad = {ep: i[ep].get("body") for ep in EPS
           if isinstance(i.get(ep), dict) and i[ep].get("dec") != "ok" and "body" in i[ep] and i[ep]["body"] != verbose}
    return bad or None


def impl_variant():
    """which of the proved variants of the model the tree is compared with: the Envoy request context of /repo keeps
    octets that may not stand in a path in the raw path (`Impl.fixed`, known finding C13-envoy-raw-path-octets); once
    the proposed fixes/C13-6 is applied — recorded under `fixed` in known_findings.json — it encodes them
    (`Impl.next`)"""
    if os.environ.get("VERIF_C13_IMPL") in ("fixed", "next"):      # for trying fixes/C13-6 in a scratch worktree
        return os.environ["VERIF_C13_IMPL"]
    fixed = " ".join(str(x) for x in vlib.known_findings().get("fixed", []))
    return "next" if "C13-6" in fixed or KF_RAW in fixed else "fixed"


def url_known(u, covered, hits):
    """part of the known finding C13-envoy-raw-path-octets: with a raw path that is not in valid encoding
    `URL.String()` re-derives the spelling from the decoded path — at the Envoy service only"""
    return (not covered) and KF_RAW in hits and u.get("decision") == u.get("proxy", u.get("decision"))


def measure_defaults(exe):
    """the `buffer_limit` defaults of the tree under test, from heimdall's configuration loader (harness op
    `defaults`); they become the limits of most generated cases and of corpus cases that say `"limits": "default"`"""
    d = vlib.run_cases([exe], [{"fam": "entryview", "op": "defaults"}])[0]
    if isinstance(d, dict) and isinstance(d.get("decision"), dict):
        gen_entryview.set_default_limits(d["decision"])
    return d


def one(exe, case):
    case = gen_entryview.expand(copy.deepcopy(case))
    case.setdefault("impl", impl_variant())
    i = vlib.run_cases([exe], [case])[0]
    if suspicious(i):
        i = vlib.run_cases([exe], [case])[0]
    m = vlib.run_cases(driver_cmd(), [case])[0]
    return i, m


# ---------------------------------------------------------------------------------------------------------------
# shrinking

DEFAULT_CODES = {"argument": 400, "authentication": 401, "authorization": 403, "communication": 502, "internal": 500,
                 "norule": 404}


def codes_distinct(codes):
    """the effective status of every error class tells the class (what the generator guarantees)"""
    eff = [codes.get(k) or d for k, d in DEFAULT_CODES.items()]
    return len(set(eff)) == len(eff) and not any(200 <= e < 300 for e in eff)


def candidates(cur):
    """smaller variants of a case, most aggressive first"""
    if cur.get("default") is not None:
        c = copy.deepcopy(cur)
        c.pop("default")
        yield c
    if cur.get("log") not in (None, "disabled"):
        c = copy.deepcopy(cur)
        c["log"] = "disabled"
        yield c
    if cur.get("via") is not None:
        c = copy.deepcopy(cur)
        c.pop("via")
        yield c
        for fld, val in (("proxies", ["127.0.0.1"]), ("method", None), ("tls", False), ("path", "/")):
            if cur["via"].get(fld) != val:
                c = copy.deepcopy(cur)
                c["via"][fld] = val
                yield c
    if cur.get("limits") is not None:
        c = copy.deepcopy(cur)
        c.pop("limits")
        yield c
        if cur["limits"] != gen_entryview.DEFAULT_LIMITS:
            c = copy.deepcopy(cur)
            c["limits"] = dict(gen_entryview.DEFAULT_LIMITS)
            yield c
    rc = cur.get("respond") or {}
    if rc.get("verbose"):
        c = copy.deepcopy(cur)
        c["respond"]["verbose"] = False
        yield c
    for k in sorted(rc.get("codes") or {}):
        c = copy.deepcopy(cur)
        del c["respond"]["codes"][k]
        if codes_distinct(c["respond"]["codes"]):
            yield c
    if len(cur["sets"]) > 1:
        for si in range(len(cur["sets"])):
            c = copy.deepcopy(cur)
            del c["sets"][si]
            yield c
    for si, st in enumerate(cur["sets"]):
        if len(st["rules"]) > 1:
            for ri in range(len(st["rules"])):
                c = copy.deepcopy(cur)
                del c["sets"][si]["rules"][ri]
                yield c
        for ri, r in enumerate(st["rules"]):
            for fld, val in (("methods", []), ("hosts", []), ("scheme", ""), ("bt", None), ("esh", "")):
                if r.get(fld) != val:
                    c = copy.deepcopy(cur)
                    c["sets"][si]["rules"][ri][fld] = val
                    yield c
            if len(r.get("hosts") or []) > 1:
                for hi in range(len(r["hosts"])):
                    c = copy.deepcopy(cur)
                    del c["sets"][si]["rules"][ri]["hosts"][hi]
                    yield c
            if len(r["routes"]) > 1:
                for ti in range(len(r["routes"])):
                    c = copy.deepcopy(cur)
                    del c["sets"][si]["rules"][ri]["routes"][ti]
                    yield c
            for ti, rt in enumerate(r["routes"]):
                if rt.get("pp"):
                    c = copy.deepcopy(cur)
                    c["sets"][si]["rules"][ri]["routes"][ti]["pp"] = []
                    yield c
            pipe = r["pipe"]
            for flag in ("deny", "comm"):
                if pipe.get(flag):
                    c = copy.deepcopy(cur)
                    c["sets"][si]["rules"][ri]["pipe"].pop(flag)
                    yield c
            for ai in range(len(pipe["authz"])):
                c = copy.deepcopy(cur)
                del c["sets"][si]["rules"][ri]["pipe"]["authz"][ai]
                yield c
            for fi, f in enumerate(pipe["fin"]):
                c = copy.deepcopy(cur)
                del c["sets"][si]["rules"][ri]["pipe"]["fin"][fi]
                yield c
                if f.get("if") is not None:
                    c = copy.deepcopy(cur)
                    c["sets"][si]["rules"][ri]["pipe"]["fin"][fi]["if"] = None
                    yield c
                if len(f["items"]) > 1:
                    for ii in range(len(f["items"])):
                        c = copy.deepcopy(cur)
                        del c["sets"][si]["rules"][ri]["pipe"]["fin"][fi]["items"][ii]
                        yield c
                for ii, it in enumerate(f["items"]):
                    if len(it["probes"]) > 1:
                        for pi in range(len(it["probes"])):
                            c = copy.deepcopy(cur)
                            del c["sets"][si]["rules"][ri]["pipe"]["fin"][fi]["items"][ii]["probes"][pi]
                            yield c
    for hi in range(len(cur["req"]["headers"])):
        if cur["req"]["headers"][hi][0].lower() == "content-length":
            continue    # goes together with the body
        c = copy.deepcopy(cur)
        if (c["req"].get("pad") or {}).get("name") == c["req"]["headers"][hi][0]:
            c["req"].pop("pad")
        del c["req"]["headers"][hi]
        yield c
    if cur["req"].get("body") is not None:
        c = copy.deepcopy(cur)
        c["req"]["body"] = None
        c["req"].pop("sized", None)
        c["req"]["headers"] = [h for h in c["req"]["headers"] if h[0].lower() != "content-length"]
        yield c
        sz = cur["req"].get("sized")
        if sz:
            # a body given by kind and length: shorter ones (down to the exact length at which the case stops failing)
            n = sz["size"]
            for m in sorted({n // 2, 3 * n // 4, n - 1024, n - 64, n - 1}):
                if 0 <= m < n:
                    yield gen_entryview.resize(copy.deepcopy(cur), m)
    for fld, val in (("query", ""), ("tls", False), ("method", "GET"), ("envoy_body", "raw"), ("host", "a.example.com")):
        if cur["req"].get(fld) != val:
            c = copy.deepcopy(cur)
            c["req"][fld] = val
            yield c
    for key in ("headers", "cookies"):
        if cur.get("spy", {}).get(key):
            c = copy.deepcopy(cur)
            c["spy"][key] = []
            yield c


def shrink(case, fails, max_runs=500):
    """greedy structural shrinking while `fails(case)` stays true"""
    cur = copy.deepcopy(case)
    runs = 0
    progress = True
    while progress and runs < max_runs:
        progress = False
        for cand in candidates(cur):
            runs += 1
            if runs > max_runs:
                break
            try:
                ok = fails(cand)
            except Exception:
                ok = False
            if ok:
                cur = cand
                progress = True
                break
    return cur


# ---------------------------------------------------------------------------------------------------------------

def budget(R):
    """cases: covered by the theorems / well-formed with octets that may not stand in a path / outside the hypotheses"""
    cpus = os.cpu_count() or 4
    if R.tier == "quick":
        return 2300, 450, 300, min(4, cpus)
    return 42000, 7000, 5000, min(8, cpus)


def features(case):
    r = case["req"]
    names = [n for n, _ in r["headers"]]
    f = []
    if "%" in r["path"]:
        f.append("escaped-path")
    if "%2f" in r["path"].lower():
        f.append("encoded-slash")
    if r["query"]:
        f.append("query")
    if len({gen_entryview.canon(n) for n in names}) < len(names):
        f.append("repeated-header")
    if any(n != gen_entryview.canon(n) for n in names):
        f.append("non-canonical-header-name")
    if any(gen_entryview.canon(n) == "Cookie" for n in names):
        f.append("cookie-line")
    if r["body"]:
        f.append("body-" + r.get("envoy_body", "raw"))
    if r["tls"]:
        f.append("https")
    f.append("log-" + (case.get("log") or "none"))
    n = len(r["body"] or "")
    f.append("body-bytes-" + ("0" if n == 0 else "1..1023" if n < 1024 else "1024..16383" if n < 16384
                              else "16384..65535" if n < 65536 else "65536.."))
    if n >= 16384 and case.get("log") == "trace":
        f.append("body-of-16KiB-or-more-at-trace")
    lim = case.get("limits")
    f.append("limits-" + ("none" if lim is None else "default" if lim == gen_entryview.DEFAULT_LIMITS else "other"))
    if lim and lim.get("read") and n > lim["read"]:
        f.append("body-longer-than-buffer_limit.read")
    if r.get("pad"):
        f.append("head-padded-to-budget" + ("+%d" % r["pad"]["over"] if r["pad"]["over"] > 0 else "-%d" % -r["pad"]["over"]))
    hn, port = gen_entryview.split_host_port(r["host"])
    if ":" in r["host"] and port != "":
        f.append("host-with-port")
        if port == ("443" if r["tls"] else "80"):
            f.append("host-with-default-port-of-the-scheme")
        elif port in ("80", "443"):
            f.append("host-with-default-port-of-the-other-scheme")
    if any(h.get("value", "").rstrip("$").endswith((":80", ":443", ":*")) for st in case["sets"] for ru in st["rules"]
           for h in ru.get("hosts") or []):
        f.append("host-matcher-looking-at-the-port")
    if "default" in case:
        f.append("default-rule")
    via = case.get("via")
    if via:
        f.append("via-trusted-gateway")
        if (via.get("method") or r["method"]) != r["method"]:
            f.append("via-method-differs")
        if via.get("tls") != r["tls"]:
            f.append("via-transport-differs")
        if "," in r["path"] + r["query"]:
            f.append("via-comma-in-forwarded-uri")
        if "%" in r["path"]:
            f.append("via-escape-in-forwarded-uri")
        if r["query"]:
            f.append("via-query-in-forwarded-uri")
    if any(gen_entryview.canon(n).startswith("X-C13-") for n in names):
        f.append("client-sends-pipeline-header")
    rc = case.get("respond") or {}
    if rc.get("codes"):
        f.append("respond-codes-configured")
    if rc.get("verbose"):
        f.append("respond-verbose")
    if any(ru["pipe"].get("deny") for st in case["sets"] for ru in st["rules"]):
        f.append("rule-with-unauthorized-authenticator")
    if any(ru["pipe"].get("comm") for st in case["sets"] for ru in st["rules"]):
        f.append("rule-with-unreachable-contextualizer")
    return f


def describe(v):
    ep, what, a, s = v
    return (f"{ep}: {what} differs from what the same logical request has to yield at every entry point — "
            f"implementation {json.dumps(a)[:260]}, reference {json.dumps(s)[:260]}")


def original_note(exe, case):
    """does the implementation behave like the unpatched code on this case?"""
    c = dict(case, impl="original")
    i = vlib.run_cases([exe], [c])[0]
    m = vlib.run_cases(driver_cmd(), [c])[0]
    if not model_diff(i, m):
        return (" [the implementation behaves exactly like the model of the code WITHOUT the patches "
                "fixes/C13-1 … C13-5 on this input — they are not applied to this tree]")
    return ""


def run(R):
    lean_ok = vlib.step_lean(R, PID)
    driver_cmd(R, 120 if lean_ok else 1)
    exe = vlib.step_harness(R)
    if exe is None:
        R.violation("harness does not build against /repo (API used by the correspondence check changed)",
                    {"build_log": R.harness_log[-3000:]}, no_input=True)
        return
    if not os.path.exists(driver_cmd(R)[0]):
        R.violation("Lean driver does not build: " + "; ".join(R.lean.get("failed", []))[:600],
                    {"lean_log": R.lean["log"]}, no_input=True)
        return
    defaults = measure_defaults(exe)
    corpus = [gen_entryview.expand(c) for c in vlib.load_corpus(PID)]
    n_wf, n_raw, n_nwf, workers = budget(R)
    variant = impl_variant()
    sized = gen_entryview.sized_cases(R.rng)
    # share of generated cases with a body of a random length up to 300 KiB (mean 40 KiB): 8 % of 3 050 cases in the
    # quick tier, 3 % of 54 000 in the thorough tier
    sp = 0.08 if R.tier == "quick" else 0.03
    gen = [gen_entryview.gen_case(R.rng, sized_p=sp) for _ in range(n_wf)]
    gen_raw = [gen_entryview.gen_case(R.rng, raw=True, sized_p=sp) for _ in range(n_raw)]
    gen_nwf = [gen_entryview.gen_case(R.rng, wellformed=False, sized_p=sp) for _ in range(n_nwf)]
    cases = [dict(c, impl=variant) for c in corpus + sized + gen + gen_raw + gen_nwf]
    impl = run_parallel([exe], cases, workers)
    n_rerun = rerun_suspicious(exe, cases, impl)
    model = run_parallel(driver_cmd(), cases, workers)

    bad_model, bad_spec, bad_url, bad_body = [], [], [], []
    hits = {KF_HOST: 0, KF_FIRST: 0, KF_RAW: 0}
    n_covered = 0
    decs, feats = {}, {}
    nontriv = set()
    n_wellformed = n_rejected = n_toolarge = 0
    for c, i, m in zip(cases, impl, model):
        wellformed = isinstance(m, dict) and bool((m.get("spec") or {}).get("wellformed")) \
            and bool(m["spec"].get("fits", True))
        n_toolarge += isinstance(m, dict) and not (m.get("spec") or {}).get("fits", True)
        d = model_diff(i, m)
        if d:
            bad_model.append((c, i, m, d))
        v, h = spec_diff(c, i, m)
        if v:
            bad_spec.append((c, i, m, v))
        for k in h:
            hits[k] += 1
        covered = wellformed and bool(m["spec"].get("covered"))
        n_covered += covered
        if wellformed:
            n_wellformed += 1
            u = url_diff(i)
            if u and not url_known(u, covered, h):
                bad_url.append((c, i, m, u))
            if body_diff(c, i):
                bad_body.append((c, i, m, body_diff(c, i)))
        rm = vlib.res_of(m)
        if isinstance(rm, dict) and "load" in rm:
            n_rejected += 1
        st = m.get("stats", {}) if isinstance(m, dict) else {}
        for ep in EPS:
            k = f"{ep}:{st.get(ep, 'rejected' if isinstance(rm, dict) else 'driver-error')}"
            decs[k] = decs.get(k, 0) + 1
        for f in features(c):
            feats[f] = feats.get(f, 0) + 1
        if gen_entryview.nontrivial(c) and st.get("decision") not in (None, "norule"):
            nontriv.add(vlib.case_hash({"sets": c["sets"], "req": c["req"], "default": c.get("default")}))

    R.coverage.update({
        "evaluations": len(cases), "distinct_nontrivial": len(nontriv),
        "rule": "a case = one logical request (method, scheme http/https, host, path as written incl. percent-escapes, "
                "query, header lines incl. repeated and differently spelled names and a Cookie line, body with "
                "content type, Envoy body attribute raw_body/body) + one or two rule sets of 1-4 rules (routes with "
                "wildcards, path params, methods, hosts, scheme, allow_encoded_slashes, backtracking), each rule with "
                "a pipeline of real mechanisms reading the view: cel authorizer expressions and `if` conditions over "
                "method / URL parts / captures / headers / cookies, header and cookie finalizers whose templates echo "
                "captures, headers, cookies, body, URL parts, optionally an `unauthorized` authenticator or a "
                "contextualizer with an unreachable endpoint (so that every error class occurs); optionally a default "
                "rule; a response configuration (`respond.verbose`, `respond.with.<class>.code` tables with pairwise "
                "different codes, the same block for decision and proxy service, Envoy using the decision's); in 30 % "
                "the client itself sends headers the pipeline sets for the upstream; the log level the three services "
                "are created with (trace, debug, info, warn, error, disabled; logger writing to a discarded writer); "
                "in 8 % a body of a random length up to 300 KiB (JSON, form, YAML, text, truncated JSON), and in every "
                "run each of these kinds at 0, 1, 300, 4096, 16383, 16384, 16385, 65536, 307200 bytes at trace and at "
                "one other level behind a rule whose pipeline echoes the body; the `buffer_limit` block the services "
                "are created with (62 % the defaults of the tree under test as heimdall's configuration loader "
                "reports them — 4 KiB / 4 KiB —, 10 % none, else 512 B … 64 KiB; bodies longer than "
                "`buffer_limit.read` in every run; in 3 % the head of the message is padded to the last byte the "
                "HTTP servers read for it, and beyond it in the stream outside the hypotheses); hosts with a port "
                "spelled out in 30 % (the default port of the scheme and of the other scheme, leading zeros, no "
                "digits, IPv6 literals), host matchers that look at the port, probes Request.URL.Hostname() / "
                "Port(); in 25 % of the well-formed cases (`via`) the services run with `trusted_proxies` (single "
                "address, CIDR range, 0.0.0.0/0) and the HTTP decision service is asked by a trusted gateway whose own "
                "request (method GET / POST / the client's, plain or TLS, target /decide …) carries the logical request "
                "in X-Forwarded-Method / -Proto / -Host / -Uri. Each case goes through the "
                "real decision, proxy and Envoy ext_authz services and through the Lean model and reference "
                "semantics. Non-trivial = a rule (or the default rule) was reached, some finalizer echoes the view, "
                "and the request has a feature in which the carriers differ (escape in the path, query, repeated or "
                "non-canonical header name, cookie line, body); distinct by hash of rules + request",
        "entry_point_runs": 3 * len(cases), "corpus_cases": len(corpus), "generated_wellformed": n_wf,
        "fixed_body_length_cases": len(sized), "body_bytes_sent_per_entry_point": sum(len(c["req"]["body"] or "") for c in cases),
        "generated_wellformed_with_forbidden_path_octets": n_raw, "model_variant": "Impl." + variant,
        "buffer_limit_defaults_of_the_tree": defaults, "head_larger_than_the_services_read": n_toolarge,
        "generated_outside_hypotheses": n_nwf, "wellformed_by_spec": n_wellformed, "covered_by_theorems": n_covered, "rejected_at_load": n_rejected,
        "exhaustive": False,
        "decisions_per_entry_point": dict(sorted(decs.items())),
        "request_features": dict(sorted(feats.items())),
        "known_finding_hits": dict(hits),
        "samples": [next((c for c in gen if len(c["req"]["body"] or "") < 2000), gen[0])] if gen else cases[:1],
        "impl_vs_model_disagreements": len(bad_model), "impl_vs_spec_disagreements": len(bad_spec),
        "url_string_disagreements": len(bad_url), "verbose_error_body_disagreements": len(bad_body), "cases_run_again_after_executor_failure": n_rerun,
    })
    R.assumptions += [
        "Envoy's population of CheckRequest is an assumption (Model `toCheck`, harness `c13ToCheck`, compared with each "
        "other on every case): path = request target incl. query, query empty, header keys lower-cased and repeated "
        "headers comma-merged, body in raw_body (pack_as_bytes) or body; pseudo-headers are not part of `headers`; "
        "header values are valid UTF-8",
        "net/http, net/url (parsing of the request line, EscapedPath, cookie parsing are re-modelled and compared), "
        "text/template + sprig, cel-go, goccy/go-json / url.ParseQuery / yaml.v3 (their results on the generated "
        "bodies are supplied by the generator), grpc-go, httputil.ReverseProxy are exercised, not modelled",
        "hypotheses of the theorems (Spec.covered): a path net/http accepts (leading slash, no blank / control octet, "
        "well-formed escapes; octets that may not stand in a path only for Impl.next, for Impl.fixed they are the "
        "known finding C13-envoy-raw-path-octets), header names are tokens and none of Host / Forwarded / "
        "X-Forwarded-* (removed by the trustedproxy middleware: C09), at most one Cookie line; outside them only "
        "impl = model is checked",
        "without `via`: no trusted proxies configured, scheme = transport of the listener (TLS or not); with `via`: the "
        "peer (127.0.0.1) is a trusted proxy and the decision service is asked by a gateway that passes the Host line, "
        "the header lines and the body of the client on and writes X-Forwarded-Method / -Proto / -Host / -Uri first "
        "(a gateway that sends a Host line of its own, X-Forwarded-Uri values outside origin form — `//…` is read as an "
        "authority by url.Parse — or with `#`, and a proxy service behind a front proxy are not exercised); the four "
        "gateway lines are taken out of Headers() before it is compared with the reference; client IP addresses are "
        "not part of the logical request",
        "log level: the services get the logger cmd/serve builds for `log.level`, writing to a discarded writer (text "
        "/ gelf formatting of the real writer is not exercised); the model reads the level in the dump middleware only "
        "(theorem c13_view_independent_of_log_level), the tie varies it on every case",
        "buffer limits: `serve.<service>.buffer_limit.read` is modelled as http.Server.MaxHeaderBytes (budget for "
        "request line + header block = limit, or 1 MiB if 0, + 4096; validated at the boundary by padded heads: "
        "budget -> served, budget + 1 -> 431 at decision and proxy), `write` and the gRPC buffer sizes are read by nothing "
        "in the model; a request whose head exceeds the budget is outside the statement (Spec.fits): the HTTP based "
        "services answer 431 themselves, the Envoy service decides it; the defaults are read from "
        "config.NewConfiguration with a configuration file that says nothing about the services",
        "the host is sent in the Host line / the `host` attribute as the case writes it; net/url's splitHostPort "
        "(Hostname(), Port()) is re-modelled and compared on every case",
        "bodies are sent with Content-Length (no chunked transfer coding) and are at most 300 KiB long; values longer "
        "than 1024 bytes are compared by first / last 32 bytes, length and FNV-1a hash; the payload the upstream "
        "application receives is observed at the proxy's upstream only (the gateway in front of the decision service "
        "and the Envoy proxy forward the body themselves)",
        "what the upstream application is shown for a header = the client's lines of that name, replaced by the value "
        "the entry point hands over: the API gateway in front of the decision service replaces the request header by "
        "the response header, Envoy applies OkHttpResponse.headers options with `append` unset as add-or-override "
        "(documented contract), the proxy's upstream is observed directly; cookies the client sends beside pipeline "
        "cookies are not compared",
        "respond.verbose is varied but not modelled: only the presence of an error body is compared (requests without "
        "Accept line, not HEAD); the status codes of the classes are pairwise different in every generated table",
        "upstream header / cookie names live in a reserved namespace (X-C13-*, c13u-*) so that they can be told from "
        "what the client sent (precedence of pipeline headers over client headers is C15)",
    ]
    listed = {f["id"] for f in vlib.known_findings().get("findings", [])}
    for k, n in hits.items():
        if n:
            R.known_hits[k] = R.known_hits.get(k, 0) + n
            if k not in listed:
                print(f"KNOWN-FINDING: property={PID} {KF_TEXT[k]} (seen {n}x this run; proposed entry {k}, see "
                      f"design/C13.md)")

    # ---- verdict
    reported = set()
    for c, i, m, v in bad_spec[:60]:
        key = (v[0][0], v[0][1])
        if key in reported or len(reported) >= 4:
            continue
        reported.add(key)
        ep, what = key

        def fails(x, ep=ep, what=what):
            vv, _ = spec_diff(x, *one(exe, x))
            return any(a == ep and b == what for a, b, _, _ in vv)

        sc = shrink(c, fails)
        si, sm = one(exe, sc)
        sv = [x for x in spec_diff(sc, si, sm)[0] if x[0] == ep and x[1] == what] or spec_diff(sc, si, sm)[0] or v
        R.violation(describe(sv[0]) + original_note(exe, sc),
                    {"case": sc, "impl": canon_impl(si), "model": vlib.res_of(sm),
                     "spec": sm.get("spec") if isinstance(sm, dict) else None, "kind": "impl-vs-spec",
                     "entry_point": ep, "observable": what}, no_input=False)
    if not bad_spec:
        for c, i, m, u in bad_url[:2]:
            def url_bad(x):
                xi, xm = one(exe, x)
                u = url_diff(xi)
                cov = isinstance(xm, dict) and bool((xm.get("spec") or {}).get("covered"))
                return u is not None and not url_known(u, cov, spec_diff(x, xi, xm)[1])

            sc = shrink(c, url_bad)
            si, sm = one(exe, sc)
            R.violation("Request.URL.String() differs between the entry points for one logical request: "
                        + json.dumps(url_diff(si)), {"case": sc, "impl": si, "kind": "impl-vs-impl"}, no_input=False)
        for c, i, m, b in bad_body[:2]:
            sc = shrink(c, lambda x: body_diff(x, one(exe, x)[0]) is not None)
            si, sm = one(exe, sc)
            R.violation("respond.verbose = " + json.dumps(bool((sc.get("respond") or {}).get("verbose")))
                        + " but the refusal of " + ", ".join(sorted(body_diff(sc, si) or b))
                        + " does" + ("" if not (sc.get("respond") or {}).get("verbose") else " not")
                        + " carry an error body, unlike at the other entry points",
                        {"case": sc, "impl": si, "kind": "impl-vs-impl"}, no_input=False)
        for c, i, m, d in bad_model[:3]:
            sc = shrink(c, lambda x: bool(model_diff(*one(exe, x))))
            si, sm = one(exe, sc)
            dd = model_diff(si, sm)
            ci, cm = canon_impl(si), vlib.res_of(sm)
            hint = ""
            if variant == "fixed" and not model_diff(si, vlib.run_cases(driver_cmd(), [dict(sc, impl="next")])[0]):
                hint = (" [the implementation behaves like Impl.next on this input: fixes/C13-6 seems to be applied — "
                        "record it under `fixed` in known_findings.json (mentioning C13-6), the check then compares "
                        "with Impl.next]")
            R.violation("the implementation no longer behaves like the model the C13 theorems are about (no input on "
                        "which the entry points disagree with the reference semantics was found); differing part: "
                        + ", ".join(dd) + " impl "
                        + json.dumps({k: ci.get(k) for k in dd} if isinstance(ci, dict) else ci)[:400] + " model "
                        + json.dumps({k: cm.get(k) for k in dd} if isinstance(cm, dict) else cm)[:400] + hint,
                        {"case": sc, "impl": ci, "model": cm, "kind": "impl-vs-model", "stream": "entryview"},
                        no_input=True)
    if not lean_ok:
        R.violation("theorems of Props/C13.lean no longer check: " + "; ".join(R.lean["failed"])[:600],
                    {"lean_log": R.lean["log"], "failed": R.lean["failed"],
                     "theorems": R.lean.get("failed_theorems")}, no_input=True)


def replay(R, path):
    with open(path) as fh:
        p = json.load(fh)
    exe = vlib.step_harness(R)
    if exe is None:
        R.violation("harness does not build", {"build_log": R.harness_log[-3000:]}, no_input=True)
        return
    measure_defaults(exe)
    c = gen_entryview.expand(p["case"] if "case" in p else p)
    driver_cmd(R)
    i, m = one(exe, c)
    print("impl :", json.dumps(canon_impl(i)))
    print("model:", json.dumps(vlib.res_of(m)))
    print("spec :", json.dumps(m.get("spec") if isinstance(m, dict) else None))
    R.coverage.update({"obligations": 1, "discharged": 1, "checker_cmd": "replay", "trusted_base": [],
                       "evaluations": 1, "distinct_nontrivial": 0, "samples": [c]})
    v, h = spec_diff(c, i, m)
    # a head larger than the HTTP based services read is answered by net/http itself (431): outside the statement
    fits = not isinstance(m, dict) or bool((m.get("spec") or {}).get("fits", True))
    for k in h:
        R.known_hits[k] = R.known_hits.get(k, 0) + 1
    if v:
        R.violation(describe(v[0]) + original_note(exe, c),
                    {"case": c, "impl": canon_impl(i), "model": vlib.res_of(m),
                     "spec": m.get("spec") if isinstance(m, dict) else None})
    elif fits and url_diff(i) and not url_known(url_diff(i), bool((m.get("spec") or {}).get("covered")), h):
        R.violation("Request.URL.String() differs between the entry points: " + json.dumps(url_diff(i)),
                    {"case": c, "impl": i})
    elif fits and body_diff(c, i):
        R.violation("verbose error body differs between the entry points: " + json.dumps(body_diff(c, i)),
                    {"case": c, "impl": i})
    elif model_diff(i, m):
        R.violation("replay: implementation still differs from the model in " + ", ".join(model_diff(i, m)),
                    {"case": c, "impl": canon_impl(i), "model": vlib.res_of(m)}, no_input=True)
