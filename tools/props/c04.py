"""C04 — authenticators fall back only on missing credentials or explicit opt-in."""
import collections
import copy
import json
import os
import subprocess

import gen_authn
import go2lean_c04
import vlib

PID = "C04"
GEN_FILE = os.path.join(vlib.LEAN, "HeimdallModel", "Gen", "AuthnSites.lean")


# ---------------------------------------------------------------------------------------------------------------
# the tie by regenerated facts

FAILED_FACTS = ("import HeimdallModel.Model.Authn\n/-! GENERATED: extraction failed -/\n"
                "namespace Heimdall.Authn.Gen\nopen Heimdall.Authn\n"
                + "".join(f"def {n} : FileFacts := ⟨[[.k .noRule]], [[.k .argument]], [.k .noRule]⟩\n" for n in
                          ("anonymous", "unauthorized", "basic", "jwt", "introspection", "generic",
                           "headerExtractor", "queryExtractor", "cookieExtractor", "bodyExtractor",
                           "compositeExtractor"))
                + "def argumentMentionsElsewhere : Nat := 999\ndef supportedAlgorithms : List Alg := []\n"
                  "def compositeGuard : Guard := ⟨false, false, 999⟩\nend Heimdall.Authn.Gen\n")


def extract(R, repo):
    """run the go/ast extractor on a tree; returns (text of Gen/AuthnSites.lean, error)"""
    exe = os.path.join(R.tmp, "authn_extract")
    if not os.path.exists(exe):
        p = subprocess.run(["go", "build", "-o", exe, "."], cwd=os.path.join(vlib.VERIF, "extract", "authn"),
                           env=vlib.go_env(), capture_output=True, text=True, timeout=600)
        if p.returncode != 0:
            return None, "extractor does not build: " + p.stderr[-800:]
    # -soft-guard: a shape of compositeSubjectCreator.Execute the extractor does not understand leaves `compositeGuard`
    # unextracted (marker line) instead of failing the whole extraction; run_checks then needs c04_src_composite
    p = subprocess.run([exe, "-soft-guard", repo], env=vlib.go_env(), capture_output=True, text=True, timeout=300)
    if p.returncode != 0:
        return None, "extractor failed closed: " + p.stderr[-800:]
    return p.stdout, None


def write_gen(text):
    """replace Gen/AuthnSites.lean in one step: the file is never missing and never half written"""
    tmp = GEN_FILE + f".tmp{os.getpid()}"
    with open(tmp, "w") as fh:
        fh.write(text)
    os.replace(tmp, GEN_FILE)


class _Held:
    """stands in for vlib.LeanLock while this process already holds it"""

    def __enter__(self):
        return self

    def __exit__(self, *a):
        return False


def lean_step(R):
    """Regenerate Gen/AuthnSites.lean from the tree under test and build the theorems *inside one critical section*
    of the shared Lean project: two runs against different trees (VERIF_REPO) cannot build against each other's
    facts. Returns (facts summary, tie error, lean ok)."""
    text, err = extract(R, vlib.REPO)
    with vlib.LeanLock():
        write_gen(text if text is not None else FAILED_FACTS)
        orig = vlib.LeanLock
        vlib.LeanLock = _Held
        try:
            ok = vlib.step_lean(R, PID)
        finally:
            vlib.LeanLock = orig
    if text is None:
        return None, err, ok
    sites = text.count("[.k ") + text.count("[.dyn")
    guard = [l.strip() for l in text.splitlines() if l.strip().startswith("{ onArgument")]
    others = sum(blk.split("loose :=")[0].count("[.k ") + blk.split("loose :=")[0].count("[.dyn")
                 for blk in text.split("others := ")[1:])
    import re
    m = re.search(r"of the (\d+) packages", text)
    return {"error_constructor_expressions": sites, "of_them_outside_the_entry_methods": others, "files": 11,
            "packages_scanned_for_ErrArgument": int(m.group(1)) if m else None,
            "composite_guard": guard[0] if guard else None,
            "supported_algorithms": text.split("def supportedAlgorithms : List Alg :=")[1].split("]")[0].count("."),
            "argument_mentions": text.count(".k .argument")}, None, ok


def restore_gen(R):
    """after a run against a scratch tree: put the facts of /repo back, so that the shared Lean project is left as
    a run against /repo would leave it"""
    if os.path.realpath(vlib.REPO) == "/repo" or not os.path.isdir("/repo"):
        return
    text, _ = extract(R, "/repo")
    if text is not None:
        with vlib.LeanLock():
            write_gen(text)


# ---------------------------------------------------------------------------------------------------------------
# running both sides

def run_pair(exe, cases):
    impl = vlib.run_cases([exe], cases)
    lcases = []
    for c, i in zip(cases, impl):
        lc = {k: v for k, v in c.items() if k not in ("tokens", "intro", "ident", "note")}
        if isinstance(i, list):
            lc["impl"] = i
        lcases.append(lc)
    model = vlib.run_cases(vlib.driver_cmd(), lcases)
    return impl, model


def verdicts(case, i, m):
    """list of (request index or None, kind, detail) for everything wrong with a case"""
    if not isinstance(m, dict) or "res" not in m:
        return [(None, "driver", f"the model driver gave no result: {str(m)[:300]}")]
    if not m["stats"].get("wf", False):
        return [(None, "driver", "the generated world / chain is outside the hypotheses of the theorems")]
    if not isinstance(i, list) or len(i) != len(case["reqs"]):
        return [(None, "impl-crash", f"the harness gave no answers: {str(i)[:400]}")]
    out = []
    for k, (a, b) in enumerate(zip(i, m["res"])):
        st = m["stats"]["reqs"][k]
        if not st.get("agrees", False):
            out.append((k, "driver", "model and reference semantics disagree (contradicts c04_model_meets_spec)"))
        if m["spec"][k] is not True:
            out.append((k, "impl-vs-spec", describe_spec_failure(case, k, a, st, b)))
        elif vlib.canon(a) != vlib.canon(b):
            out.append((k, "impl-vs-model", f"answer {json.dumps(a)} differs from the model's {json.dumps(b)}"))
    return out


def describe_spec_failure(case, k, a, st, model=None):
    trace = a.get("trace", []) if isinstance(a, dict) else []
    ids = [t[0] for t in trace]
    usable = st.get("usable", [])
    steps = case["steps"]
    mech = {m["id"]: m for m in case["mechs"]}

    def fb(j):
        m = mech[steps[j]["ref"]]
        if m["type"] in ("anonymous", "unauthorized"):
            return False
        return steps[j]["fb"] if isinstance(steps[j].get("fb"), bool) else bool(m.get("fb", False))

    def why(j):
        m = mech[steps[j]["ref"]]
        if isinstance(steps[j].get("fb"), bool) or "fb" in m or m["type"] in ("anonymous", "unauthorized"):
            return "does not allow fallback"
        return "does not allow fallback (allow_fallback_on_error is not set anywhere: the default)"
    mtrace = (model or {}).get("trace", [])
    for j in range(min(len(trace), len(mtrace))):
        if "ok" in trace[j][1] and "err" in mtrace[j][1]:
            return (f"authenticator {ids[j]} ({mech[steps[j]['ref']]['type']}) accepted a credential that has to be "
                    f"rejected (by construction of the credential: {mtrace[j][1]['err']}) and produced the subject "
                    f"{trace[j][1]['ok']!r}; answer {json.dumps(a)}")
        if "err" in trace[j][1] and "ok" in mtrace[j][1]:
            return (f"authenticator {ids[j]} ({mech[steps[j]['ref']]['type']}) rejected ({trace[j][1]['err']}) a "
                    f"credential that is valid by construction (subject {mtrace[j][1]['ok']!r}); answer {json.dumps(a)}")
        if "ok" in trace[j][1] and "ok" in mtrace[j][1] and trace[j][1]["ok"] != mtrace[j][1]["ok"]:
            return (f"authenticator {ids[j]} produced the subject {trace[j][1]['ok']!r} instead of "
                    f"{mtrace[j][1]['ok']!r}; answer {json.dumps(a)}")
    for j in range(len(trace) - 1):
        if j < len(usable) and usable[j] and j < len(steps) and not fb(j) and "err" in trace[j][1]:
            return (f"authenticator {ids[j]} ({mech[steps[j]['ref']]['type']}) found credentials of its kind, failed on "
                    f"them ({trace[j][1]['err']}) and {why(j)}, yet {ids[j + 1]} was consulted; "
                    f"answer {json.dumps(a)}")
    if trace and len(trace) < len(steps) and "err" in trace[-1][1]:
        j = len(trace) - 1
        if j < len(usable) and (not usable[j] or fb(j)):
            return (f"authenticator {ids[j]} ({mech[steps[j]['ref']]['type']}) "
                    f"{'allows fallback' if fb(j) else 'found no usable credentials of its kind'}, yet the next "
                    f"authenticator was not consulted; answer {json.dumps(a)}")
    return f"the observed run is rejected by Spec.judge; answer {json.dumps(a)}"


def fails_on(exe, case):
    i, m = run_pair(exe, [case])
    return verdicts(case, i[0], m[0])


def rebuild(case, mechs=None, steps=None, reqs=None):
    mechs = case["mechs"] if mechs is None else mechs
    steps = case["steps"] if steps is None else steps
    reqs = case["reqs"] if reqs is None else reqs
    used = {s["ref"] for s in steps}
    return gen_authn.assemble([m for m in mechs if m["id"] in used], steps, reqs, cache=bool(case.get("cache")))


def shrink(exe, case, k, kind):
    def bad(c):
        return any(v[1] == kind for v in fails_on(exe, c))
    cur = rebuild(case, reqs=[case["reqs"][k]])
    if not bad(cur):
        # the failure depends on what earlier requests left in the cache: keep the history that is needed
        pre, last = case["reqs"][:k], case["reqs"][k]
        if pre and bad(rebuild(case, reqs=pre + [last])):
            keep = vlib.ddmin(pre, lambda ps: bad(rebuild(case, reqs=ps + [last])))
            return rebuild(case, reqs=keep + [last]), len(keep)
        return rebuild(case), k
    steps = vlib.ddmin(cur["steps"], lambda ss: len(ss) >= 1 and bad(rebuild(cur, steps=ss)))
    cur = rebuild(cur, steps=steps)
    req = copy.deepcopy(cur["reqs"][0])
    for part in ("headers", "query", "cookies"):
        if req.get(part):
            def f(items, part=part):
                r2 = dict(req, **{part: items})
                return bad(rebuild(cur, reqs=[r2]))
            if bad(rebuild(cur, reqs=[dict(req, **{part: []})])):
                req[part] = []
            else:
                req[part] = vlib.ddmin(req[part], f)
    if req.get("body") is not None:
        r2 = {x: y for x, y in req.items() if x != "body"}
        r2["method"] = "GET"
        if bad(rebuild(cur, reqs=[r2])):
            req = r2
    return rebuild(cur, reqs=[req]), 0


# ---------------------------------------------------------------------------------------------------------------

def witness_cases():
    """the witnesses of Props/C04.lean and the boundary cases the proofs distinguish, as real requests"""
    mk = gen_authn._std_mech
    jwt, basic, anon = mk("jwt", 0, False), mk("basic_auth", 1, False), mk("anonymous", 2, False)
    intro, gen, deny = mk("oauth2_introspection", 3, False), mk("generic", 4, False), mk("unauthorized", 5, False)
    chain = [{"ref": "a0"}, {"ref": "a1"}, {"ref": "a2"}]
    b = gen_authn.b64

    def rq(headers=(), query=(), cookies=(), body=None):
        r = {"method": "POST" if body else "GET", "headers": [list(h) for h in headers],
             "query": [list(q) for q in query], "cookies": [list(c) for c in cookies]}
        if body:
            r["body"] = body
        return r
    reqs = [
        rq(), rq([("Authorization", "Bearer @Jbadsig@")]), rq([("Authorization", "Bearer opaque")]),
        rq([("Authorization", "Basic " + b("user:wrong"))]), rq([("Authorization", "Basic " + b("user:secret"))]),
        rq([("Authorization", "Bearer @Jok@")]), rq([("Authorization", "bearer @Jok@")]),
        rq([("Authorization", "Bearer ")]), rq([("Authorization", "Basic ")]), rq([("Authorization", "Bearer  @Jok@ ")]),
        rq([("Authorization", "Bearer @Jok@"), ("Authorization", "Basic " + b("user:secret"))]),
        rq([("Authorization", "Basic " + b("user:secret")), ("Authorization", "Bearer @Jok@")]),
        rq(query=[("access_token", "@Jexpired@")]), rq(query=[("access_token", ""), ("access_token", "@Jok@")]),
        rq(body=gen_authn.render_body("json", [("access_token", "@Jok@")])),
        rq(body=gen_authn.render_body("json", [("access_token", ["@Jok@"])])),
        rq(body=gen_authn.render_body("json", [("access_token", ["@Jok@", "x"])])),
        rq(body=gen_authn.render_body("json", [("access_token", 5)])),
        rq(body=gen_authn.render_body("form", [("access_token", ["@Jbadsig@"])])),
        rq(body=gen_authn.render_body("form", [("access_token", ["@Jok@", "x"])])),
        rq(body=gen_authn.render_body("form", [("access_token", [""])])),
        rq(body=gen_authn.render_body("text", [("access_token", "@Jok@")])),
        rq(body=gen_authn.render_body("badjson", [])),
    ]
    cases = [gen_authn.assemble([jwt, basic, anon], chain, reqs, "witness chain jwt, basic_auth, anonymous"),
             gen_authn.assemble([jwt, basic, anon], [dict(chain[0], fb=True)] + chain[1:], reqs,
                                "the same chain with fallback allowed for jwt by the rule")]
    reqs2 = [rq(), rq([("X-Token", "Bearer opq-inactive")]), rq([("X-Token", "Bearer opq-alice")]),
             rq([("X-Token", "Bearer opq-500")]), rq(cookies=[("sess", "sess-401")]),
             rq(cookies=[("sess", "sess-expired")]), rq(cookies=[("sess", "sess-carol")]),
             rq(cookies=[("sess", "")]), rq([("X-Token", "Bearer ")]), rq(query=[("token", "opq-evil")])]
    cases.append(gen_authn.assemble([intro, gen, deny, anon],
                                    [{"ref": "a3"}, {"ref": "a4"}, {"ref": "a5"}, {"ref": "a2"}], reqs2,
                                    "introspection, generic, unauthorized, anonymous: anonymous is never reached"))
    cases.append(gen_authn.assemble([intro, gen, anon],
                                    [{"ref": "a3", "fb": True}, {"ref": "a4", "fb": True}, {"ref": "a2"}], reqs2,
                                    "introspection and generic with fallback allowed by the rule"))
    # a cached introspection response is validated against the assertions of the step at hand: the second and
    # third request are answered from the cache, the first step rejects them at the cache-hit validation
    strict = {"ref": "a3", "fb": True, "aud": ["other"], "key": "a3~aud-other"}
    reqs3 = [rq([("X-Token", "Bearer opq-alice")]), rq([("X-Token", "Bearer opq-alice")]),
             rq(query=[("token", "opq-alice")]), rq([("X-Token", "Bearer opq-inactive")])]
    cases.append(gen_authn.assemble([intro, anon], [strict, {"ref": "a3"}, {"ref": "a2"}], reqs3,
                                    "rule-level assertions, responses served from the cache", cache=True))
    return cases + list(named_cases().values())


def named_cases():
    """boundary cases added after the review of the check (also stored in corpus/C04/16… – 23…)"""
    mk = gen_authn._std_mech
    b = gen_authn.b64

    def rq(headers=(), query=(), cookies=(), body=None, **kw):
        r = {"method": "POST" if body else "GET", "headers": [list(h) for h in headers],
             "query": [list(q) for q in query], "cookies": [list(c) for c in cookies]}
        if body:
            r["body"] = body
        for k, v in kw.items():
            if k in ("rawQuery", "rawCookies"):
                r.pop("query" if k == "rawQuery" else "cookies")
            r[k] = v
        return r
    anon = mk("anonymous", 9, None)
    res = {}
    # 16: allow_fallback_on_error is not written anywhere
    dj, db, di, dg = mk("jwt", 0, None), mk("basic_auth", 1, None), mk("oauth2_introspection", 3, None), mk("generic", 4, None)
    res["16_fallback_is_off_unless_it_is_switched_on"] = gen_authn.assemble(
        [dj, db, di, dg, anon], [{"ref": "a0"}, {"ref": "a1"}, {"ref": "a3"}, {"ref": "a4"}, {"ref": "a9"}],
        [rq([("Authorization", "Bearer @Jbadsig@")]), rq([("Authorization", "Basic " + b("user:wrong"))]),
         rq([("X-Token", "Bearer opq-inactive")]), rq(cookies=[("sess", "sess-expired")]), rq()],
        "allow_fallback_on_error stands neither in the mechanism definitions nor in the rule: every rejection is "
        "final although anonymous follows; only the request without credentials reaches anonymous")
    # 17: unauthorized ignores whatever its configuration says
    res["17_unauthorized_never_falls_back_whatever_is_configured"] = gen_authn.assemble(
        [dict(mk("unauthorized", 5, True)), anon], [{"ref": "a5", "fb": True}, {"ref": "a9"}], [rq()],
        "allow_fallback_on_error: true in the definition and in the rule's step of `unauthorized`: still final")
    # 18: what a JWT is
    toks = ["@Jhs@", "@Jrs@", "@Jps@", "@Jed@"] + gen_authn.NOT_JWTS + ["opq-alice"]
    res["18_what_a_jwt_is"] = gen_authn.assemble(
        [mk("jwt", 0, False), anon], [{"ref": "a0"}, {"ref": "a9"}],
        [rq([("Authorization", "Bearer " + t)]) for t in toks],
        "tokens of JWS compact form naming a supported signature algorithm (HS256, RS256, PS256, EdDSA; signed with keys "
        "that are not published) are credentials of the jwt authenticator: rejected, final. `alg: none`, an unknown "
        "algorithm, a header that is no JSON / names no algorithm, strings of another form: no credentials of its kind, "
        "the next authenticator is asked")
    # 19: tokens without kid are tried against every key of the set (k2 first, k1 last)
    res["19_tokens_without_kid"] = gen_authn.assemble(
        [mk("jwt", 0, False), anon], [{"ref": "a0"}, {"ref": "a9"}],
        [rq([("Authorization", "Bearer " + t)]) for t in
         ("@Jnokid@", "@Jnokid2@", "@Jnokidexpired@", "@Jnokid2expired@", "@Jnokidevil@", "@Jbadsignokid@", "@Jps@")],
        "a token without kid is accepted only if one key verifies its signature AND its claims pass; an expired one "
        "signed by the last key of the set must not be accepted (caught seed C04-c)")
    # 20: header names in any spelling, Host
    lower = dict(mk("oauth2_introspection", 3, False), src=[{"k": "header", "name": "x-token", "scheme": "Bearer"}])
    host = dict(mk("generic", 4, False), src=[{"k": "header", "name": "Host", "scheme": ""}])
    res["20_header_names_and_host"] = gen_authn.assemble(
        [lower, host, anon], [{"ref": "a3"}, {"ref": "a4"}, {"ref": "a9"}],
        [rq([("X-Token", "Bearer opq-inactive")]), rq([("x-token", "Bearer opq-alice")]),
         rq([("X-TOKEN", "Bearer opq-inactive")]), rq(host="sess-carol"), rq(host="heimdall.local"), rq(host="")],
        "header names are compared in canonical form on both sides (configuration `x-token`, request `X-TOKEN`); a "
        "`Host` source reads the host of the request, which is practically never empty")
    # 21: what net/http and net/url drop is missing for the extractors
    std = [mk("jwt", 0, False), dict(mk("generic", 4, False)), anon]
    res["21_cookies_and_query_parameters_dropped_by_the_parsers"] = gen_authn.assemble(
        std, [{"ref": "a0"}, {"ref": "a4"}, {"ref": "a9"}],
        [rq(rawCookies=['sess=sess-401']), rq(rawCookies=['sess=sess-401"']), rq(rawCookies=['sess=sess-401\\']),
         rq(rawCookies=['sess=sess-c\u00e4rol']), rq(rawCookies=['sess="sess-carol"']),
         rq(rawCookies=['other=1', ' sess = sess-carol ; x=y']), rq(rawCookies=['bad name=1; sess=sess-expired']),
         rq(rawQuery="access_token=@Jbadsig@"), rq(rawQuery="access_token=@Jbadsig@;x=1"),
         rq(rawQuery="access_token=@Jbadsig@%zz"), rq(rawQuery="x=1;y=2&access_token=@Jexpired@"),
         rq(rawQuery="access_token=%20@Jok@+"), rq(rawQuery="access_token&access_token=@Jok@")],
        "a cookie whose value contains a quote, a backslash or a non-ASCII character, a query parameter followed by "
        "`;` or containing a bad escape do not exist for the extractors (net/http, net/url drop them): the request "
        "carries no credentials there and the next authenticator is asked; well-formed ones are credentials")
    # 22: a failing template function is a failure after the credential was found
    tpl = dict(mk("generic", 4, False), src=[{"k": "header", "name": "X-Api-Key", "scheme": ""}], tpl=True, lifespan=False)
    res["22_failing_payload_template_is_final"] = gen_authn.assemble(
        [tpl, anon], [{"ref": "a4"}, {"ref": "a9"}],
        [rq([("X-Api-Key", "key7.sess-carol")]), rq([("X-Api-Key", "key7.sess-401")]), rq([("X-Api-Key", "nodot")]),
         rq()],
        "api keys <id>.<secret>, the payload template picks the secret with atIndex 1 (splitList …): a key without "
        "separator makes the template function fail — an internal error after the credential was found, not "
        "missing credentials (caught seed C04-e)")
    # 24: other spellings of a valid token
    res["24_respelled_tokens_are_no_jwts"] = gen_authn.assemble(
        [mk("jwt", 0, False), dict(mk("oauth2_introspection", 3, False), src=None), anon],
        [{"ref": "a0"}, {"ref": "a3"}, {"ref": "a9"}],
        [rq([("Authorization", "Bearer @Jok@")]), rq([("Authorization", "Bearer @Jokbits@")]),
         rq(query=[("access_token", "@Jokcrlf@")]), rq(query=[("access_token", "@Jnokidbits@")]),
         rq(body=gen_authn.render_body("form", [("access_token", ["@Jok2crlf@"])])),
         rq(body=gen_authn.render_body("json", [("access_token", "@Jok2crlf@")])),
         rq(rawQuery="access_token=@Jok2bits@")],
        "a valid JWT respelled (unused bits of the last character of the signature set; a line break inside the "
        "payload) decodes to the same octets with go-jose's lenient decoder, but is not the canonical serialisation: "
        "no credential of the jwt kind (argument error, fix 6547ea1) — it is passed on like an opaque token, here to "
        "the introspection authenticator, which rejects it finally")
    # 25-27: found, well-formed, verified by its issuer — and rejected while the claims are decoded
    und = sorted(gen_authn.UNDECODABLE_JWTS)
    res["25_jwt_claims_that_cannot_be_decoded_are_a_rejection"] = gen_authn.assemble(
        [mk("jwt", 0, None), anon], [{"ref": "a0"}, {"ref": "a9"}],
        [rq([("Authorization", "Bearer @Jexpms@")]), rq(query=[("access_token", "@Jnbfmin@")]),
         rq(body=gen_authn.render_body("form", [("access_token", ["@Jiathuge@"])]))]
        + [rq([("Authorization", "Bearer " + t)]) for t in und + sorted(gen_authn.ODD_BUT_VALID_JWTS)] + [rq()],
        "JWTs signed by the trusted issuer whose exp / nbf / iat lie outside of the years 1..9999 (an expiry given in "
        "microseconds, 1e300, the zero time), are no numbers, or whose aud / scp / scope / iss / sub / jti have a wrong "
        "JSON type: the token was found, parsed and its signature verified, the claims cannot be decoded — a rejection "
        "(authentication error caused by a configuration error of the claim type resp. an error of the JSON library, "
        "never an argument error), final without allow_fallback_on_error although anonymous follows. Odd but valid "
        "spellings (exp 4.0e9, exp null, aud \"api web\") are accepted (caught seed s3eval/C04-a)")
    opq = [k for k, v in gen_authn.INTRO.items() if "rawclaims" in v and not k.startswith("J")]
    res["26_introspection_responses_that_cannot_be_decoded_are_a_rejection"] = gen_authn.assemble(
        [mk("oauth2_introspection", 3, None), anon], [{"ref": "a3"}, {"ref": "a9"}],
        [rq([("X-Token", "Bearer " + t)]) for t in opq] + [rq(query=[("token", "@Jexpms@")]), rq()],
        "active tokens whose introspection response carries an exp / nbf / iat out of range or of a wrong type, an "
        "aud / scope / active / sub of a wrong JSON type: the token was found and the authorization server knows it, "
        "the response cannot be decoded — an internal error (caused by a configuration error of the claim type), final "
        "although anonymous follows (caught seed s3eval/C04-a)", cache=True)
    ses = [k for k, v in gen_authn.IDENT.items() if "rawclaims" in v]
    res["27_session_lifespan_that_cannot_be_read_is_a_rejection"] = gen_authn.assemble(
        [mk("generic", 4, None), anon], [{"ref": "a4"}, {"ref": "a9"}],
        [rq(cookies=[("sess", t)]) for t in ses + ["sess-badexp"]] + [rq()],
        "sessions whose not_after is 1e300 / an object / a word: found, known to the identity endpoint, the lifespan "
        "cannot be read — an internal error, final although anonymous follows; an expiry in microseconds is an integer "
        "(a date in the far future): accepted")
    # 23: YAML bodies
    res["23_yaml_body"] = gen_authn.assemble(
        [mk("jwt", 0, False), anon], [{"ref": "a0"}, {"ref": "a9"}],
        [rq(body=gen_authn.render_body("yaml", [("access_token", "@Jbadsig@")])),
         rq(body=gen_authn.render_body("yaml", [("access_token", ["@Jok@"])])),
         rq(body=gen_authn.render_body("yaml", [("access_token", ["@Jok@", "x"])])),
         rq(body=gen_authn.render_body("yaml", [("access_token", 5)]))],
        "body parameters of a YAML body")
    return res


def decoder_grid():
    """Content-Type values for which the decoder chosen by contenttype.NewDecoder is compared with the model's
    decoderFor: the spellings the generators use, and a grid prefix x core x suffix"""
    cts = []
    for group in list(gen_authn.CT_OWN.values()) + [gen_authn.CT_NONE]:
        for ct in group:
            cts.append(",".join(gen_authn.ct_lines(ct)))
    pre = ["", "application/", "text/", "application/vnd.api+", "application/x-", "text/plain, application/", "x"]
    core = ["json", "JSON", "Json", "jso", "j son", "x-www-form-urlencoded", "yaml", "YAML", "yml", "xml", "ndjson",
            "x-www-form-urlencoded+json", "yaml+json", "json+yaml", "jsonyaml", ""]
    suf = ["", "; charset=utf-8", ";q=0.5, text/plain", ", application/json", ", application/yaml", "x"]
    for a in pre:
        for b in core:
            for c in suf:
                cts.append(a + b + c)
    seen, out = set(), []
    for ct in cts:
        if ct not in seen:
            seen.add(ct)
            out.append(ct)
    return out


def decoder_step(exe):
    """-> (number of Content-Type values compared, [(content type, decoder of the implementation, of the model)] where
    they differ, chain cases that carry a credential in a body announced with such a Content-Type)"""
    cts = decoder_grid()
    case = {"fam": "authn", "op": "decoder", "cts": cts}
    impl = vlib.run_cases([exe], [case])[0]
    model = vlib.res_of(vlib.run_cases(vlib.driver_cmd(), [case])[0])
    if not isinstance(impl, list) or not isinstance(model, list) or len(impl) != len(cts) or len(model) != len(cts):
        return len(cts), [("<the decoder probe gave no answer>", str(impl)[:300], str(model)[:300])], []
    diff = [(ct, i, m) for ct, i, m in zip(cts, impl, model) if i != m]
    extra = []
    mk = gen_authn._std_mech
    anon = mk("anonymous", 9, None)
    for ct, i, m in diff[:12]:
        fmt = m or i
        if fmt not in ("json", "form", "yaml"):
            continue
        reqs = []
        for typ, (good, bad_) in gen_authn.BODY_CREDS.items():
            reqs += [gen_authn.body_request(fmt, "access_token", v, ct) for v in (bad_, good)]
        mechs = [mk("jwt", 0, None), dict(mk("oauth2_introspection", 3, None), src=None),
                 dict(mk("generic", 4, None), src=[{"k": "body", "name": "access_token"}]), anon]
        for first in ("a0", "a3", "a4"):
            extra.append(gen_authn.assemble(mechs, [{"ref": first}, {"ref": "a9"}], reqs,
                                            f"a credential in a {fmt} body announced as {ct!r}: the implementation "
                                            f"chooses the decoder {i!r}, the model {m!r}"))
    return len(cts), diff, extra


def config_reject_cases():
    """`anonymous` does not know allow_fallback_on_error: a definition or a rule step that carries it is rejected when
    the configuration / the rule is loaded (so no configuration can make it fall back)"""
    mk = gen_authn._std_mech
    a = mk("anonymous", 0, None)
    return [gen_authn.assemble([dict(a, fb=True)], [{"ref": "a0"}], [{"method": "GET", "headers": []}]),
            gen_authn.assemble([a], [{"ref": "a0", "fb": True}], [{"method": "GET", "headers": []}])]


def run(R):
    try:
        run_checks(R)
    finally:
        restore_gen(R)


def run_checks(R):
    facts, tie_error, lean_ok = lean_step(R)
    # compositeSubjectCreator.Execute translated from the current source, proved equal to `composite`
    go2lean_c04.step(R)
    if facts and facts.get("composite_guard") is None:
        # the composite's condition was not extracted as a fact: the stronger theorem about the translated function
        # (Props/C04Src: translated compositeSubjectCreator.Execute = model, for all chains) has to stand in
        if R.lean_src["ok"]:
            R.coverage["composite_guard_established_by"] = "c04_src_composite"
        else:
            R.violation("the condition of compositeSubjectCreator.Execute is neither extracted as a fact (extract/authn "
                        "does not understand the shape of the loop) nor established by c04_src_composite",
                        {"kind": "guard-not-established"}, no_input=True)
    exe = vlib.step_harness(R)
    if exe is None:
        R.violation("harness does not build against /repo (API used by the correspondence check changed)",
                    {"build_log": R.harness_log[-3000:]}, no_input=True)
        return
    if not os.path.exists(vlib.driver_cmd()[0]):
        R.violation("the model driver does not build", {"lean_log": R.lean["log"]}, no_input=True)
        return

    quick = R.tier == "quick"
    corpus = vlib.load_corpus(PID)
    witnesses = witness_cases()
    small = gen_authn.small_scope_cases(lengths=(1, 2)) + gen_authn.small_scope_cases(lengths=(2,), with_override=True)
    small += gen_authn.url_template_cases()      # endpoint URLs / headers templated over the credential (see gen_authn)
    R.assumptions.append(gen_authn.URL_TEMPLATE_ASSUMPTION)
    # credentials in a body parameter x formats x spellings of the media type; the endpoint's own authentication
    small += gen_authn.media_type_cases() + gen_authn.endpoint_auth_cases()
    R.assumptions.append(gen_authn.ENDPOINT_AUTH_ASSUMPTION)
    # which decoder reads the body: contenttype.NewDecoder against the model's decoderFor on a grid of Content-Types;
    # where they differ, a credential is put into a body announced that way and run through the real authenticators
    n_cts, decoder_diff, decoder_cases = decoder_step(exe)
    small += decoder_cases
    if not quick:
        small += gen_authn.small_scope_cases(lengths=(3,)) + gen_authn.small_scope_cases(lengths=(3,), with_override=True)
    n_random = 1500 if quick else 30000
    rnd = [gen_authn.gen_case(R.rng, n_reqs=12, max_len=5 if quick else 6) for _ in range(n_random)]
    cases = corpus + witnesses + small + rnd
    impl, model = run_pair(exe, cases)

    bad = []
    for c, i, m in zip(cases, impl, model):
        for v in verdicts(c, i, m):
            bad.append((c, i, m, v))

    # configurations that must be rejected: `anonymous` with allow_fallback_on_error
    rejected = vlib.run_cases([exe], config_reject_cases())
    for c, i in zip(config_reject_cases(), rejected):
        if not (isinstance(i, dict) and ("config_error" in i or "rule_error" in i)):
            bad.append((c, i, None, (None, "impl-vs-spec-config",
                                     "an `anonymous` authenticator configured with allow_fallback_on_error is accepted "
                                     f"(it has to be rejected when the configuration / the rule is loaded): {str(i)[:300]}")))

    # ---- evidence
    labels = collections.Counter()
    consulted = collections.Counter()
    chain_len = collections.Counter()
    finals = collections.Counter()
    types_in_chain = collections.Counter()
    nontriv = set()
    n_req = 0
    trivial = 0
    for c, i, m in zip(cases, impl, model):
        if not isinstance(m, dict) or "res" not in m:
            continue
        mech = {x["id"]: x for x in c["mechs"]}
        sig = [(mech[s["ref"]]["type"], s.get("fb"), mech[s["ref"]].get("fb")) for s in c["steps"]]
        chain_len[str(len(c["steps"]))] += 1
        for s in c["steps"]:
            types_in_chain[mech[s["ref"]]["type"]] += 1
        for st, res in zip(m["stats"]["reqs"], m["res"]):
            n_req += 1
            consulted[str(st["consulted"])] += 1
            for l in st["labels"]:
                labels[l] += 1
            f = res.get("final")
            finals["subject" if f and "ok" in f else "failure:" + "+".join(f["err"]) if f else "nothing"] += 1
            if st["nontrivial"]:
                nontriv.add(vlib.case_hash({"c": sig, "l": st["labels"]}))
            else:
                trivial += 1
    R.coverage.update({
        "evaluations": n_req,
        "distinct_nontrivial": len(nontriv),
        "rule": "one evaluation = one request run through a rule whose authenticators are REAL heimdall authenticators "
                "(created by the real mechanism factory from definitions, chained by the real rule factory, executed "
                "on a request parsed by the real request context; JWTs signed with fresh ES256 keys and verified "
                "against a local JWKS server, opaque tokens checked by a local introspection server, session values "
                "by a local identity server), compared with the Lean model on: which authenticators were executed, "
                "the subject or the matched error sentinels each returned, and what the rule returned (subject id "
                "as forwarded by a real header finalizer / matched sentinels), and judged by Spec.judge. "
                "non-trivial = at least two authenticators were consulted, or authentication ended in a failure "
                "while later authenticators were left unconsulted (the fallback decision mattered); distinct by "
                "hash of (types and fallback settings of the chain, ladder branch taken by each consulted "
                "authenticator)",
        "cases": len(cases), "corpus_cases": len(corpus), "witness_cases": len(witnesses),
        "small_scope_cases": len(small), "random_cases": len(rnd),
        "trivial_evaluations": trivial,
        "distribution": {
            "chain_length": dict(sorted(chain_len.items())),
            "authenticator_types_in_chains": dict(sorted(types_in_chain.items())),
            "consulted": dict(sorted(consulted.items())),
            "ladder_branch_of_consulted_authenticators": dict(sorted(labels.items())),
            "final": dict(sorted(finals.items())),
        },
        "samples": [{k: v for k, v in rnd[0].items() if k in ("mechs", "steps")}, rnd[0]["reqs"][:3],
                    {k: v for k, v in rnd[-1].items() if k in ("mechs", "steps")}, rnd[-1]["reqs"][:2]],
        "extracted_facts": facts if facts is not None else "extraction failed: " + str(tie_error),
        "small_scope": ("all chains of pairwise different authenticator types of length <= "
                        + ("2" if quick else "3") + " x fallback settings of each member (left out / false / true in the "
                        "definition; and inverted by the rule's step) x the combinations of the credential states "
                        "(none / foreign scheme / malformed / invalid / expired / undecodable claims / valid) of their members — except "
                        "combinations that would need two different values of one header line (basic_auth and jwt both "
                        "read Authorization: only one of them carries a credential per request)"),
        "config_reject_cases": len(rejected),
        "content_types_compared_with_decoderFor": n_cts,
        "exhaustive": False,
    })
    R.assumptions += [
        "what lies outside heimdall is a parameter of the model (World): which strings jwt.ParseSigned accepts, what "
        "signature / key / assertion checks, the introspection endpoint and the identity endpoint say about a "
        "credential, what base64 decoding of a Basic value yields; the theorems hold for every such world whose "
        "run-time errors contain no argument error (World.wf), the correspondence run instantiates it with real "
        "go-jose, real HTTP round trips to local servers and real base64",
        "errors.Is on errorchain values is modelled (Err.is) and validated by the correspondence run on every error "
        "the real authenticators return; errors of other libraries never match a heimdall sentinel",
        "a list of sources is never empty (CompositeExtractStrategy panics on an empty list: property C19)",
        "requests are handed to the real request context in process (no HTTP/1.1 parser in front): header values "
        "may carry leading / trailing blanks a real server would have removed; header names are generated in any "
        "spelling and compared in canonical form (modelled CanonicalMIMEHeaderKey), `Host` is the host of the request; "
        "WHICH decoder reads the body is modelled (decoderFor on the Content-Type lines joined by `,`: contains `json`, "
        "else `application/x-www-form-urlencoded`, else `yaml`) and compared with contenttype.NewDecoder on a grid of "
        "values and end to end; WHAT each decoder reads (go-json, url.ParseQuery, yaml.v3) is represented by the "
        "generator's own rendering of the body, incl. the cross readings that are fixed by construction (a JSON object "
        "is a YAML flow mapping; a form body / block YAML is no JSON; no pair named like a source otherwise); a JSON "
        "body with a raw control character is never announced as YAML",
        "SHA-256 comparison of Basic credentials is modelled as string equality; half of the random cases run with "
        "a real in-memory cache in the request context (requests repeated, so cached keys / introspection responses / "
        "identities are hit), the others with the no-op cache; what is cached for how long is the subject of C10/C11",
        "what is a JWT: three base64url parts separated by dots (modelled) whose decoded header names a supported "
        "signature algorithm (the decoding of the header is a parameter of the model, World.headerAlg; the "
        "correspondence run instantiates it with tokens really signed with ES256, HS256, RS256, PS256, EdDSA and with "
        "hand-made tokens naming `none` / an unknown algorithm / no algorithm / no JSON)",
        "raw query strings and raw Cookie header lines are read by models of url.ParseQuery / net/http readCookies "
        "(Model/AuthnWire.lean), validated by the correspondence run on well-formed and on dropped forms; bytes >= 0x80 "
        "produced by percent-decoding are outside the model",
        "the Envoy ext_authz request context (its own Header / Cookie / Body code) is not run here: property C13 "
        "compares the request views of the three entry points",
        "time: credentials expire at least one hour before / after the run, no boundary of the 10 s leeway is "
        "approached",
        "claims that cannot be decoded (dates outside of the years 1..9999 or no numbers, aud / scp / scope / iss / sub "
        "of a wrong JSON type, in properly signed JWTs and in introspection responses of active tokens; session "
        "lifespans that are no integers): which run-time error the decoder hands to the authenticator is a parameter "
        "of the model (the cause of the verdict), fixed by the generator by construction (claim types of heimdall: "
        "configuration error, JSON library: foreign) and compared with the real go-jose / go-json / gjson path on "
        "every run; the theorems cover every cause that contains no argument error (World.wf)",
    ]

    # ---- verdicts
    reported = 0
    seen = set()
    for c, i, m, (k, kind, detail) in bad:
        if k is None:
            sig = (kind, detail.split(";")[0][:80])
        else:
            lb = m["stats"]["reqs"][k]["labels"]
            tr = i[k].get("trace", []) if isinstance(i[k], dict) else []
            mt = m["res"][k]["trace"]
            d = next((j for j in range(min(len(tr), len(mt))) if vlib.canon(tr[j]) != vlib.canon(mt[j])),
                     min(len(tr), len(mt)) - 1)
            sig = (kind, lb[d] if 0 <= d < len(lb) else "")
        if sig in seen or reported >= 5:
            continue
        seen.add(sig)
        reported += 1
        if k is None:
            R.violation({"impl-crash": "the implementation side crashed: ", "driver": "model driver: ",
                         "impl-vs-spec-config": "authentication with fallback violates the property: "}[kind] + detail,
                        {"case": c, "impl": i, "model": vlib.res_of(m) if m is not None else None, "kind": kind},
                        no_input=(kind == "driver"))
            continue
        sc, sk = shrink(exe, c, k, kind)
        si, sm = run_pair(exe, [sc])
        vs = [v for v in verdicts(sc, si[0], sm[0]) if v[1] == kind] or [(sk, kind, detail)]
        what = {"impl-vs-spec": "authentication with fallback violates the property: ",
                "impl-vs-model": "the implementation no longer behaves like the proved model: ",
                "driver": "model driver: "}[kind] + vs[0][2]
        R.violation(what, {"case": sc, "request": vs[0][0], "impl": si[0], "model": vlib.res_of(sm[0]),
                           "spec": sm[0].get("spec") if isinstance(sm[0], dict) else None, "kind": kind},
                    no_input=(kind in ("impl-vs-model", "driver")))
    for ct, di, dm in decoder_diff[:3]:
        R.violation(f"the implementation no longer behaves like the proved model: for the Content-Type {ct!r} "
                    f"contenttype.NewDecoder chooses the decoder {di!r}, the model (decoderFor) {dm!r}",
                    {"case": {"fam": "authn", "op": "decoder", "cts": [ct]}, "impl": [di], "model": [dm],
                     "kind": "impl-vs-model", "differing_content_types": [d[0] for d in decoder_diff][:40]},
                    no_input=True)
    if tie_error:
        R.violation("the facts about the authenticators' error values can no longer be extracted from the source: "
                    + tie_error, {"extract_error": tie_error}, no_input=True)
    if not lean_ok:
        R.violation("theorems of Props/C04.lean no longer check (the error values / the composite's condition "
                    "extracted from the source differ from the model, or a proof broke): "
                    + "; ".join(R.lean["failed"])[:600],
                    {"lean_log": R.lean["log"], "failed": R.lean["failed"],
                     "theorems": R.lean.get("failed_theorems"), "extracted_facts": facts}, no_input=True)
    go2lean_c04.report(R, exe, corpus + witnesses + small, run_pair, verdicts, shrink)
    R.violations.sort(key=lambda v: v[2])      # the replay file carries the first violation: concrete inputs first


def replay(R, path):
    with open(path) as fh:
        p = json.load(fh)
    c = p["case"] if "case" in p else p
    exe = vlib.step_harness(R)
    if exe is None:
        R.violation("harness does not build", {"build_log": R.harness_log[-3000:]}, no_input=True)
        return
    if c.get("op") == "decoder":
        impl = vlib.run_cases([exe], [c])[0]
        model = vlib.res_of(vlib.run_cases(vlib.driver_cmd(), [c])[0])
        print("content types:", json.dumps(c["cts"]), "\n impl :", json.dumps(impl), "\n model:", json.dumps(model))
        R.coverage.update({"obligations": 1, "discharged": 1, "checker_cmd": "replay", "trusted_base": []})
        if impl != model:
            R.violation("replay still fails: contenttype.NewDecoder and the model's decoderFor differ",
                        {"case": c, "impl": impl, "model": model}, no_input=True)
        return
    impl, model = run_pair(exe, [c])
    for k, rq in enumerate(c["reqs"]):
        print("request:", json.dumps(rq))
        print(" impl :", json.dumps(impl[0][k]) if isinstance(impl[0], list) else impl[0])
        if isinstance(model[0], dict) and "res" in model[0]:
            print(" model:", json.dumps(model[0]["res"][k]))
            print(" spec :", model[0]["spec"][k] if k < len(model[0]["spec"]) else None)
    R.coverage.update({"obligations": 1, "discharged": 1, "checker_cmd": "replay", "trusted_base": []})
    for k, kind, detail in verdicts(c, impl[0], model[0]):
        R.violation("replay still fails: " + detail, {"case": c, "impl": impl[0], "model": vlib.res_of(model[0])},
                    no_input=(kind in ("impl-vs-model", "driver")))
