"""C05 — JWT authentication accepts exactly the correctly signed, asserted tokens."""
import collections
import concurrent.futures
import copy
import json
import os
import re
import unicodedata

import gen_jwt
import go2lean_c05
import vlib

PID = "C05"
HARNESS_ENV = None


def harness_env(R):
    global HARNESS_ENV
    HARNESS_ENV = dict(vlib.go_env(), TMPDIR=R.tmp)


def subst_srv(v, srv):
    if isinstance(v, dict):
        return {k: subst_srv(x, srv) for k, x in v.items()}
    if isinstance(v, list):
        return [subst_srv(x, srv) for x in v]
    if isinstance(v, str) and v.startswith("$SRV"):
        return srv + v[4:]
    return v


def evaluate(exe, cases, isolate=False):
    """implementation run (mints the tokens, returns verdicts + abstract views), then the model/specification run on
    the case extended by those abstract views. isolate: every case in a harness process of its own (a case may
    create other mechanisms - `neighbours` - in the process; what they leave behind must not reach the next
    candidate of a shrinking round or a replay)"""
    if isolate and len(cases) > 1:
        with concurrent.futures.ThreadPoolExecutor(max_workers=8) as pool:
            impl = list(pool.map(lambda c: vlib.run_cases([exe], [c], env=HARNESS_ENV, timeout=300)[0], cases))
    else:
        impl = vlib.run_cases([exe], cases, env=HARNESS_ENV, timeout=1500)
    dcases = []
    for c, i in zip(cases, impl):
        srv = (i.get("info") or {}).get("srv", "$SRV") if isinstance(i, dict) else "$SRV"
        dc = subst_srv({k: v for k, v in c.items() if k not in ("note", "expect", "name")}, srv)
        dc["srv"] = srv
        dc["abs"] = (i.get("abs") if isinstance(i, dict) else None) or {"present": False, "now": 0}
        dc["abs_pre"] = (i.get("abs_pre") if isinstance(i, dict) else None) or []
        if len(dc["abs_pre"]) != len(dc.get("pre") or []):
            dc["pre"], dc["abs_pre"] = [], []
        dcases.append(dc)
    model = vlib.run_cases(vlib.driver_cmd(), dcases, timeout=1500)
    return impl, model


def cmp_num(x, y, exact):
    """numbers of subject attributes. The implementation delivers Go float64 values (printed in shortest form);
    against the model (which rounds) they are compared as doubles, against the specification exactly:
    -> 'same' | 'rounded' (equal as doubles, but the specified integer is not representable) | 'diff'"""
    try:
        if float(x) != float(y):
            return "diff"
    except OverflowError:
        return "diff"
    if exact and isinstance(y, int) and int(float(y)) != y:
        return "rounded"
    return "same"


def cmp_val(a, b, exact):
    if isinstance(a, bool) or isinstance(b, bool) or a is None or b is None or isinstance(a, str) or isinstance(b, str):
        return "same" if (a == b and type(a) is type(b)) else "diff"
    if isinstance(a, (int, float)) and isinstance(b, (int, float)):
        return cmp_num(a, b, exact)
    if isinstance(a, list) and isinstance(b, list):
        if len(a) != len(b):
            return "diff"
        rs = [cmp_val(x, y, exact) for x, y in zip(a, b)]
    elif isinstance(a, dict) and isinstance(b, dict):
        if set(a) != set(b):
            return "diff"
        rs = [cmp_val(a[k], b[k], exact) for k in a]
    else:
        return "diff"
    return "diff" if "diff" in rs else ("rounded" if "rounded" in rs else "same")


def worst(*rs):
    return "diff" if "diff" in rs else ("rounded" if "rounded" in rs else "same")


def cmp_verdict(i, o, exact):
    """implementation verdict against a model (exact=False) or specification (exact=True) verdict. Subject id and
    attributes are compared twice: as the strings the two sides print, and octet by octet (`id_hex`, `attrs_hex`: the
    hexadecimal form of the UTF-8 octets of the id and of every attribute name and string value, computed by the Go
    harness on the subject the authenticator returned and by the Lean driver on the model's strings), so that no
    encoder, decoder or normalisation in between can make `admin` and `admin ` look alike. Nothing is stripped,
    folded or normalised on this side either."""
    if not isinstance(i, dict) or not isinstance(o, dict) or i.get("verdict") != o.get("verdict"):
        return "diff"
    if i.get("verdict") == "accept":
        if i.get("id") != o.get("id") or type(i.get("id")) is not str:
            return "diff"
        if i.get("id_hex") != o.get("id_hex") or i.get("id_hex") != i["id"].encode("utf-8", "surrogatepass").hex():
            return "diff"
        return worst(cmp_val(i.get("attrs"), o.get("attrs"), exact),
                     cmp_val(i.get("attrs_hex"), o.get("attrs_hex"), exact))
    return "same"


# ---- ground truth of the recipe: what the subject has to be, read off the claims the case asked the harness to sign
# (no implementation, no model, no Lean and no Go decoder in between)

PLAIN_PATH = re.compile(r"[A-Za-z0-9_-]+(\.[A-Za-z0-9_-]+)*\Z")


def hx(s):
    return s.encode("utf-8", "surrogatepass").hex()


def hexify(v):
    """the python twin of the harness' c05Hexify"""
    if isinstance(v, dict):
        return {hx(k): hexify(x) for k, x in v.items()}
    if isinstance(v, list):
        return [hexify(x) for x in v]
    if isinstance(v, str):
        return "s:" + hx(v)
    return v


def subst_recipe(v, srv, t0):
    """placeholders of a token recipe, the way the harness resolves them"""
    if isinstance(v, dict):
        if len(v) == 1 and "$now" in v and isinstance(v["$now"], int):
            return t0 + v["$now"]
        return {k: subst_recipe(x, srv, t0) for k, x in v.items()}
    if isinstance(v, list):
        return [subst_recipe(x, srv, t0) for x in v]
    if isinstance(v, str) and v.startswith("$SRV"):
        return srv + v[4:]
    return v


def at_path(v, path):
    for seg in path.split("."):
        if isinstance(v, dict) and seg in v:
            v = v[seg]
        elif isinstance(v, list) and seg.isdigit() and int(seg) < len(v) and str(int(seg)) == seg:
            v = v[int(seg)]
        else:
            return None, False
    return v, True


def recipe_subject(c, tok, srv, t0):
    """-> (id claim as str | None, expected subject id | None, expected attributes | None) for a token minted from
    a `claims` recipe whose payload is not edited afterwards"""
    if not isinstance(tok, dict) or not isinstance(tok.get("claims"), dict) or tok.get("payload_raw") is not None:
        return None, None, None
    if any((m or {}).get("op") == "setclaim" for m in tok.get("mut") or []):
        return None, None, None
    sc = (c.get("conf") or {}).get("subject") or {}
    idp = sc.get("id") or "sub"
    ap = sc.get("attributes") or "@this"
    claims = subst_recipe(tok["claims"], srv, t0)
    claim = want_id = want_attrs = None
    if PLAIN_PATH.match(idp):
        v, found = at_path(claims, idp)
        if found and isinstance(v, str) and v != "":
            claim = want_id = v
        elif found and isinstance(v, bool):
            want_id = "true" if v else "false"
        elif found and isinstance(v, int):
            want_id = str(v)
    if ap == "@this":
        want_attrs = claims
    elif PLAIN_PATH.match(ap):
        v, found = at_path(claims, ap)
        if found and isinstance(v, dict):
            want_attrs = v
    return claim, want_id, want_attrs


def check_recipe(c, tok, iv, srv, t0):
    """an accepted request against the recipe: -> (text of the deviation | None, id claim | None)"""
    claim, want_id, want_attrs = recipe_subject(c, tok, srv, t0)
    if want_id is not None and iv.get("id_hex") != hx(want_id):
        return ("subject id %s (octets %s) is not the value of the signed claim %s (octets %s)"
                % (json.dumps(iv.get("id")), iv.get("id_hex"), json.dumps(want_id)[:200], hx(want_id)[:400])), claim
    if want_attrs is not None:
        if worst(cmp_val(iv.get("attrs_hex"), hexify(want_attrs), True),
                 cmp_val(iv.get("attrs"), want_attrs, True)) == "diff":
            return "subject attributes are not, octet for octet, the signed claims", claim
    return None, claim


SKIP = ("ambiguous", "unmodelled")
KNOWN_ATTRS = "C05-attrs-float64"


def judge(c, i, m):
    """-> (status, text): status in ok | known | skip | broken | model | spec | oracle"""
    if not isinstance(i, dict) or "res" not in i:
        return "broken", "implementation side failed on the case: " + json.dumps(i)[:400]
    if not isinstance(m, dict) or "res" not in m:
        return "broken", "model side failed on the case: " + json.dumps(m)[:400]
    if (i.get("info") or {}).get("clock_ok") is False:
        return "skip", "the case never ran inside one clock second"
    ir, mr, specs = i["res"], m["res"], m["spec"]
    isteps = list(ir.get("pre") or []) + [ir]
    msteps = list(mr.get("pre") or []) + [mr]
    if len(isteps) != len(msteps) or len(specs) != len(msteps):
        if ir.get("verdict") == "config" and mr.get("verdict") == "config":
            return "ok", ""
        return "broken", "step counts differ: implementation %d, model %d" % (len(isteps), len(msteps))
    status = "ok"
    for k, (iv, mv, cands) in enumerate(zip(isteps, msteps, specs)):
        where = "" if k == len(isteps) - 1 else " (request %d of %d)" % (k + 1, len(isteps))
        if mv.get("verdict") in SKIP or any(s.get("verdict") in SKIP for s in cands):
            return "skip", mv.get("verdict")
        if iv.get("verdict") in ("both", "neither"):
            return "spec", "the authenticator returned %s a subject and an error%s" % (iv["verdict"], where)
        rs = [cmp_verdict(iv, s, True) for s in cands]
        if "same" not in rs:
            if "rounded" in rs:
                status = "known"
            else:
                sv = cands[-1]
                a, b = iv.get("verdict"), sv.get("verdict")
                hist = "" if len(cands) == 1 else " (nor by a key set served earlier for this url)"
                if a == "accept" and b != "accept":
                    return "spec", ("a token that has to be rejected yields the subject %s%s%s (model: %s)"
                                    % (json.dumps(iv.get("id")), where, hist, (m.get("stats") or {}).get("why")))
                if b == "accept" and a != "accept":
                    return "spec", ("a correctly signed token satisfying all assertions is refused%s (%s, error kind %s)"
                                    % (where, a, (i.get("info") or {}).get("kind")))
                if a == "accept" and b == "accept":
                    if iv.get("id") != sv.get("id"):
                        return "spec", ("subject id %s is not the value of the verified claim (%s)%s"
                                        % (json.dumps(iv.get("id")), json.dumps(sv.get("id")), where))
                    return "spec", "subject attributes are not the verified claims%s" % where
                return "spec", f"authenticator creation: implementation {a}, specification {b}"
        if cmp_verdict(iv, mv, False) != "same":
            return "model", "implementation agrees with the specification but not with the model" + where
        if iv.get("verdict") == "accept":
            last = k == len(isteps) - 1
            pre, apre = c.get("pre") or [], i.get("abs_pre") or []
            tok = c.get("token") if last else ((pre[k] or {}).get("token") if k < len(pre) else None)
            a = i.get("abs") if last else (apre[k] if k < len(apre) else None)
            text, _ = check_recipe(c, tok, iv, (i.get("info") or {}).get("srv", "$SRV"), (a or {}).get("now", 0))
            if text:
                return "spec", text + where
    exp = c.get("expect")
    if exp:
        # with earlier requests the specification admits the key sets served so far; the ground truth is then
        # compared with the (admissible) verdict of the implementation
        sv = ir.get("verdict") if c.get("pre") else specs[-1][-1].get("verdict")
        if sv != exp.split()[0]:
            return "oracle", ("the specification says %s where the generator constructed a case that must %s (%s)"
                              % (sv, exp, c.get("note") or c.get("name")))
    return status, ""


# ---------------------------------------------------------------------------------------------------------------
# shrinking

BAD = ("spec", "model", "oracle", "broken")
USUAL_DEFAULTS = ["ES256", "ES384", "ES512", "PS256", "PS384", "PS512"]


def ground_truth_applies(c, facts):
    """the recorded / constructed expectation of a case presupposes that the token's algorithm is supported at all
    and, where no allowed algorithms are configured, the usual default list; a policy change of these lists is not
    a violation of the property, so the expectation is dropped then (model and specification follow the lists)"""
    steps = list(c.get("pre") or []) + [c]
    for st in steps:
        tok = st.get("token")
        if not tok:
            continue
        alg = (tok.get("hdr") or {}).get("alg")
        if alg is not None and alg in gen_jwt.KNOWN_ALGS and alg not in facts["supported"]:
            return False
    configured = any("allowed_algorithms" in (x.get("assertions") or {})
                     for x in (c.get("conf") or {}, c.get("rule") or {}))
    if not configured and sorted(facts["default_allowed"]) != sorted(USUAL_DEFAULTS):
        return False
    return True


def shrink(exe, case):
    """greedy structural shrinking; all candidates of a round are evaluated in one batch (cases which create other
    mechanisms in the process: every candidate in a process of its own)"""
    cur = copy.deepcopy(case)
    cur.pop("expect", None)      # the generator's ground truth does not survive structural edits
    isolate = bool(case.get("neighbours"))
    for _ in range(16):
        cands = []

        def edit(f):
            c = copy.deepcopy(cur)
            try:
                f(c)
            except (KeyError, IndexError, TypeError):
                return
            cands.append(c)

        for k in range(len(cur.get("pre") or [])):
            def drop_pre(c, k=k):
                c["pre"].pop(k)
                for n in c.get("neighbours") or []:      # moments are request numbers
                    if isinstance(n.get("at"), int) and n["at"] > k:
                        n["at"] -= 1
            edit(drop_pre)
        for k, n in enumerate(cur.get("neighbours") or []):
            edit(lambda c, k=k: c["neighbours"].pop(k))
            if n.get("rule") is not None:
                edit(lambda c, k=k: c["neighbours"][k].pop("rule"))
            if n.get("at") != "before":
                edit(lambda c, k=k: c["neighbours"][k].update(at="before"))
            for f in list((n.get("conf") or {}).get("assertions") or {}):
                if f not in ("issuers", "allowed_algorithms"):
                    edit(lambda c, k=k, f=f: c["neighbours"][k]["conf"]["assertions"].pop(f))
        tok = cur.get("token")
        if tok:
            for k in range(len(tok.get("mut", []))):
                edit(lambda c, k=k: c["token"]["mut"].pop(k))
            for f in list((tok.get("claims") or {}).keys()):
                if f in ("iss", "sub"):
                    continue

                def drop_claim(c, f=f):
                    del c["token"]["claims"][f]
                    for st in c.get("pre") or []:
                        (st.get("token") or {}).get("claims", {}).pop(f, None)
                edit(drop_claim)
            if (tok.get("signer") or {}).get("kind") == "jose":
                edit(lambda c: c["token"]["signer"].update(kind="key"))
        sets = [("main", None)] + [("main", iss) for iss in (cur["jwks"].get("by_issuer") or {})]

        def keyset(c, iss):
            return c["jwks"] if iss is None else c["jwks"]["by_issuer"][iss]

        for _, iss in sets:
            keys = keyset(cur, iss)["keys"]
            for k in range(len(keys)):
                edit(lambda c, k=k, iss=iss: keyset(c, iss)["keys"].pop(k))
            for k, key in enumerate(keys):
                if key.get("cert", "none") != "none":
                    edit(lambda c, k=k, iss=iss: keyset(c, iss)["keys"][k].update(cert="none"))
        if cur.get("rule"):
            edit(lambda c: c.update(rule=None))
            for f in list((cur["rule"].get("assertions") or {}).keys()):
                edit(lambda c, f=f: c["rule"]["assertions"].pop(f))
        for f in list((cur["conf"].get("assertions") or {}).keys()):
            if f == "issuers":
                continue
            edit(lambda c, f=f: c["conf"]["assertions"].pop(f))
        for f in ("subject", "validate_jwk", "cache_ttl"):
            if cur["conf"].get(f) is not None:
                edit(lambda c, f=f: c["conf"].update({f: None}))
        if not cands:
            break
        impl, model = evaluate(exe, cands, isolate)
        nxt = None
        for c, i, m in zip(cands, impl, model):
            if judge(c, i, m)[0] in ("spec", "model"):
                nxt = c
                break
        if nxt is None:
            break
        cur = nxt
    return cur


def alone(exe, cases, idx):
    """A disagreement seen in the long-lived harness process, re-run in a process of its own. If it is gone the case
    is the victim of what an earlier case left behind in the process: mechanisms are only ever created by the
    authenticator under test and by `neighbours`, so the neighbours of the earlier cases are put in front of the
    victim (each set in a process of its own) until the disagreement is back.
    -> (case, impl, model, status, text) | None"""
    c = cases[idx]
    i, m = evaluate(exe, [c])
    st, text = judge(c, i[0], m[0])
    if st in BAD:
        return c, i[0], m[0], st, text
    seen, cands = set(), []
    for e in cases[:idx]:
        if e.get("neighbours"):
            key = json.dumps(e["neighbours"], sort_keys=True)
            if key not in seen:
                seen.add(key)
                v = copy.deepcopy(c)
                v["neighbours"] = [dict(copy.deepcopy(n), at="before") for n in e["neighbours"]] + \
                    list(v.get("neighbours") or [])
                v["note"] = c.get("note", "") + " (after the mechanisms of an earlier case)"
                cands.append(v)
    for lo in range(0, min(len(cands), 48), 16):
        part = cands[lo:lo + 16]
        impl, model = evaluate(exe, part, isolate=True)
        for v, i, m in zip(part, impl, model):
            st, text = judge(v, i, m)
            if st in BAD:
                return v, i, m, st, text
    return None


# ---------------------------------------------------------------------------------------------------------------

def run(R):
    try:
        _run(R)
    finally:
        go2lean_c05.report(R)


def _run(R):
    harness_env(R)
    exe = vlib.step_harness(R)
    if exe is None:
        vlib.step_lean(R, PID)
        R.violation("harness does not build against /repo (API used by the correspondence check changed)",
                    {"build_log": R.harness_log[-3000:]}, no_input=True)
        return
    tie_error = None
    try:
        facts = gen_jwt.write_gen(exe, HARNESS_ENV)
    except gen_jwt.ExtractError as e:
        facts, tie_error = None, str(e)
    lean_ok = vlib.step_lean(R, PID)
    go2lean_c05.step(R)
    if not os.path.exists(vlib.driver_cmd()[0]):
        R.violation("the model driver does not build", {"lean_log": R.lean["log"]}, no_input=True)
        return
    quick = R.tier == "quick"
    corpus = vlib.load_corpus(PID)
    n = 2500 if quick else 80000
    cases = corpus + gen_jwt.catalogue() + [gen_jwt.gen_case(R.rng) for _ in range(n)]
    if facts:
        for c in cases:
            if c.get("expect") and not ground_truth_applies(c, facts):
                c.pop("expect")
    impl, model = evaluate(exe, cases)

    status = collections.Counter()
    why = collections.Counter()
    why_pre = collections.Counter()
    kinds = collections.Counter()
    notes_t = collections.Counter()
    notes_k = collections.Counter()
    algs = collections.Counter()
    accepted_by_alg = collections.Counter()
    dims = collections.Counter()
    truth = collections.Counter()
    requests = 0
    retries = 0
    nontriv = set()
    ident = collections.Counter()
    by_subject = {}     # octets of a produced subject id -> the different string claims it was produced from
    bad = []
    samples, sampled = [], set()
    for idx, (c, i, m) in enumerate(zip(cases, impl, model)):
        st, text = judge(c, i, m)
        status[st] += 1
        if st == "known":
            R.known_hits[KNOWN_ATTRS] = R.known_hits.get(KNOWN_ATTRS, 0) + 1
        if st in BAD:
            bad.append((idx, c, i, m, st, text))
        if not (isinstance(m, dict) and "stats" in m and isinstance(i, dict) and "res" in i):
            continue
        w = m["stats"]["why"]
        why[w] += 1
        for x in m["stats"].get("why_pre") or []:
            why_pre[x] += 1
        requests += 1 + len(c.get("pre") or [])
        info = i.get("info") or {}
        kinds[info.get("kind", "-")] += 1
        retries += max(0, info.get("tries", 1) - 1)
        t, _, k = c.get("note", "corpus/corpus").partition("/")
        if t.startswith("guided:"):
            for d in t[len("guided:"):].split("+"):
                notes_t["guided:" + d] += 1
        else:
            notes_t[t] += 1
        notes_k[{"g": "guided", "cat": "catalogue"}.get(k, "wild:" + k)] += 1
        if c.get("expect"):
            truth[c["expect"].split()[0]] += 1
        conf = c.get("conf") or {}
        dims["earlier_requests"] += 1 if c.get("pre") else 0
        dims["templated_endpoint"] += 1 if conf.get("templated") else 0
        dims["metadata_endpoint"] += 1 if c.get("mode") == "metadata" else 0
        dims["rule_level_config"] += 1 if c.get("rule") else 0
        nbs = c.get("neighbours") or []
        dims["neighbours"] += 1 if nbs else 0
        dims["neighbour_mechanisms_created"] += sum(1 for x in info.get("neighbours") or [] if ":created" in str(x))
        dims["neighbour_mechanisms_refused"] += sum(1 for x in info.get("neighbours") or [] if ":created" not in str(x))
        dims["neighbours_with_lists_of_their_own"] += 1 if any(
            "allowed_algorithms" in ((n.get("conf") or {}).get("assertions") or {}) for n in nbs) else 0
        dims["neighbours_created_between_requests"] += 1 if any(isinstance(n.get("at"), int) and n["at"] > 0 for n in nbs) else 0
        if nbs and not any("allowed_algorithms" in (x.get("assertions") or {}) for x in (conf, c.get("rule") or {})):
            dims["neighbours_next_to_default_algorithms"] += 1
            dims["neighbours_next_to_default_algorithms_accepted"] += 1 if i["res"].get("verdict") == "accept" else 0
        dims["cache_disabled"] += 1 if ((c.get("rule") or {}).get("cache_ttl") or conf.get("cache_ttl")) == "0s" else 0
        dims["non_ascii"] += 1 if any(ord(ch) > 127 for ch in json.dumps(gen_jwt.slim(c), ensure_ascii=False)) else 0
        steps = [st.get("token") for st in list(c.get("pre") or []) + [c]]
        standins = [k for t in steps if isinstance(t, dict) for k in (t.get("claims") or {}) if k in gen_jwt.STANDIN_TOP]
        dims["standin_members"] += 1 if standins else 0
        dims["standin_azp_or_client_id"] += 1 if any(k in ("azp", "client_id", "cid", "appid") for k in standins) else 0
        if standins and "standin" in c.get("note", "") and "harmless" not in c.get("note", ""):
            dims["standin_for_unsatisfied_registered_claim"] += 1
            dims["standin_for_unsatisfied_registered_claim_refused"] += 1 if i["res"].get("verdict") == "reject" else 0
        elif standins:
            dims["standin_next_to_untouched_registered_claims_accepted"] += 1 if i["res"].get("verdict") == "accept" else 0
        if i["res"].get("verdict") == "accept" and st not in BAD:
            claim, want_id, want_attrs = recipe_subject(c, c.get("token"), info.get("srv", "$SRV"),
                                                        (i.get("abs") or {}).get("now", 0))
            ident["accepted_with_recipe_id"] += 1 if want_id is not None else 0
            ident["accepted_with_recipe_attributes"] += 1 if want_attrs is not None else 0
            if claim is not None:
                ident["accepted_string_id_claims"] += 1
                ident["with_leading_or_trailing_white_space"] += 1 if claim != claim.strip() else 0
                ident["white_space_only"] += 1 if claim.strip() == "" else 0
                ident["non_ascii"] += 1 if any(ord(ch) > 127 for ch in claim) else 0
                ident["not_nfc_or_not_nfkc"] += 1 if (unicodedata.normalize("NFC", claim) != claim or
                                                      unicodedata.normalize("NFKC", claim) != claim) else 0
                ident["changed_by_case_folding"] += 1 if claim.casefold() != claim else 0
                ident["longer_than_1000"] += 1 if len(claim) > 1000 else 0
                ident["id_path_" + (((c.get("conf") or {}).get("subject") or {}).get("id") or "sub")] += 1
                by_subject.setdefault(i["res"].get("id_hex"), set()).add(claim)
        a = (i.get("abs") or {})
        if a.get("wf"):
            algs[a.get("alg")] += 1
            if i["res"].get("verdict") == "accept":
                accepted_by_alg[a.get("alg")] += 1
        if w not in ("noToken", "malformed", "config", "payload", "metadata", "keySet"):
            nontriv.add(vlib.case_hash(gen_jwt.slim(c)))
        key = (w, bool(c.get("pre")))
        if key not in sampled and len(samples) < 8 and c.get("note"):
            sampled.add(key)
            samples.append({"case": gen_jwt.slim(c), "implementation": i["res"], "model": m["res"], "why": w})
    R.coverage.update({
        "evaluations": len(cases), "distinct_nontrivial": len(nontriv), "requests_executed": requests,
        "rule": "a case = authenticator configuration (JWKS or metadata endpoint, templated or not, assertions, subject "
                "paths, JWK validation, cache_ttl) + optional rule-level configuration + key sets served by a loopback "
                "endpoint + token recipe (signer, header, claims relative to the current second - registered claims "
                "and, in a quarter of the cases, stand-in members such as azp, client_id, audience, Aud, scopes, "
                "expires_at carrying what an assertion looks for while the registered claim is missing, empty or "
                "somebody else's, or carrying something else next to satisfying registered claims -, mutations of the "
                "compact serialisation) + optionally earlier requests to the same authenticator and (real, in-memory) "
                "JWK cache, each with its own key sets; the real authenticator (CreatePrototype -> WithConfig -> "
                "Execute) is compared request by request with the Lean model (Jwt.run) and with the Lean specification "
                "(Spec.authenticate, written over the raw payload) evaluated on the abstract view of the minted tokens; "
                "the generator's own ground truth (a scenario built to satisfy every clause must be accepted, one with "
                "a single certainly fatal deviation must be rejected) is checked against the specification; "
                "non-trivial = the token of the last request parses and a key set was fetched, i.e. the verdict is "
                "decided by key selection, algorithm agreement, signature, claims or subject extraction; distinct by "
                "hash of the case",
        "corpus_cases": len(corpus), "catalogue_cases": len(gen_jwt.catalogue()), "random_cases": n,
        "verdict_reasons_model": dict(why), "verdict_reasons_model_earlier_requests": dict(why_pre),
        "error_kinds_implementation": dict(kinds),
        "token_recipes": dict(notes_t), "keyset_recipes": dict(notes_k), "dimensions": dict(dims),
        "cases_with_generator_ground_truth": dict(truth),
        "header_algorithms_of_parsable_tokens": dict(algs), "accepted_by_algorithm": dict(accepted_by_alg),
        "judgements": dict(status), "clock_second_retries": retries,
        "identity": dict(ident, distinct_string_id_claims=len({x for v in by_subject.values() for x in v}),
                         distinct_subject_ids=len(by_subject),
                         rule="accepted requests whose token was minted from a claims recipe: the octets of the "
                              "subject id (hex, computed in Go on the returned subject) equal the UTF-8 octets of the "
                              "string the recipe put at the configured id path; attributes likewise; different "
                              "claims never share a subject id"),
        "generated_facts": facts, "samples": samples, "exhaustive": False,
    })
    R.assumptions += [
        "signature verification is an oracle in the model (Token.sigOk); the harness evaluates it for the minted token "
        "with the Go standard library (crypto/rsa, ecdsa, ed25519, hmac; RFC 7518 minimum HMAC key size) over the "
        "canonical signing input, independently of go-jose and heimdall",
        "certificate chain validation (pkix.ValidateCertificate), JWKS / metadata transport, go-jose parsing and gjson "
        "are validated by the correspondence run only; gjson paths are restricted to member names and array indices "
        "(anything else is reported as unmodelled and skipped)",
        "other mechanisms of the process are jwt and oauth2_introspection authenticators (the types sharing "
        "oauth2.Expectation and the default algorithm list) which are created, never executed; the model keeps the "
        "default list of the process as explicit state (Model/JwtProcess.lean) and the correspondence run shows that "
        "the real creations leave the authenticator under test alone",
        "sequences of requests are shorter than every cache TTL (>= 10 s) and use one authenticator instance; the "
        "HTTP cache of the metadata endpoint is not varied (the metadata document is the same for all requests of a case)",
        "numeric claims are exact decimals in the model; Go parses them as float64 (dates with more than 15 "
        "significant digits next to a range boundary are not generated); leeways are multiples of 1 ms",
        "subject id and attribute strings are compared as octets: hex computed by the Go harness on the subject the "
        "authenticator returned, by the Lean driver on the model's strings and by this module on the claims recipe "
        "(python str -> UTF-8, no strip / casefold / unicodedata on any compared value); payloads are valid UTF-8 "
        "(JSON escapes of lone surrogates denote U+FFFD on both sides); id claims that are fractional numbers, "
        "arrays or objects are outside the model (gjson prints them in its own way) and skipped as unmodelled",
        "known finding C05-attrs-float64: integral attribute numbers beyond 2^53 arrive rounded; such cases are "
        "counted as known, the implementation still has to agree with the (rounding) model",
    ]
    seen = set()
    for idx, c, i, m, st, text in bad[:40]:
        sig = re.sub(r'"[^"]*"', '".."', text)[:90]
        if sig in seen:
            continue
        seen.add(sig)
        # the candidate is re-run in a process of its own before it is reported (the replay runs it that way)
        again = alone(exe, cases, idx)
        if again is None:
            R.violation(text + " - only in the process of this run, after the cases before it; not reproduced by the "
                        "case alone nor behind the mechanisms an earlier case created",
                        {"case": gen_jwt.slim(c), "impl": i.get("res") if isinstance(i, dict) else i,
                         "model": m.get("res") if isinstance(m, dict) else m, "kind": "process-history"},
                        no_input=True)
            if len(R.violations) >= 4:
                break
            continue
        c, i, m, st, text = again
        sc = shrink(exe, c) if st in ("spec", "model") else c
        si, sm = evaluate(exe, [sc])
        st2, text2 = judge(sc, si[0], sm[0])
        if st2 not in BAD:
            sc, si, sm, st2, text2 = c, [i], [m], st, text
        R.violation(text2, {"case": gen_jwt.slim(sc), "impl": si[0].get("res") if isinstance(si[0], dict) else si[0],
                            "token": ((si[0].get("info") or {}).get("token") if isinstance(si[0], dict) else None),
                            "abs": si[0].get("abs") if isinstance(si[0], dict) else None,
                            "model": sm[0].get("res") if isinstance(sm[0], dict) else sm[0],
                            "spec": sm[0].get("spec") if isinstance(sm[0], dict) else None,
                            "kind": {"spec": "impl-vs-spec", "model": "impl-vs-model",
                                     "oracle": "spec-vs-generator-ground-truth"}.get(st2, st2)},
                    no_input=(st2 != "spec"))
        if len(R.violations) >= 4:
            break
    R.coverage["disagreements_checked"] = len(bad)
    for idh, claims in sorted(by_subject.items()):
        if len(claims) > 1 and len(R.violations) < 4:
            R.violation("different subject id claims yield the same subject id %s: %s"
                        % (idh[:200], ", ".join(json.dumps(x)[:80] for x in sorted(claims)[:4])),
                        {"subject_id_hex": idh, "claims": sorted(claims)[:8]}, no_input=True)
    if tie_error:
        R.violation("the algorithm lists could not be obtained from the linked code (broken tie): " + tie_error,
                    {"extractor": tie_error}, no_input=True)
    if not lean_ok:
        R.violation("theorems of Props/C05.lean no longer check: " + "; ".join(R.lean["failed"])[:600],
                    {"lean_log": R.lean["log"], "failed": R.lean["failed"],
                     "theorems": R.lean.get("failed_theorems")}, no_input=True)


def replay(R, path):
    with open(path) as fh:
        p = json.load(fh)
    harness_env(R)
    exe = vlib.step_harness(R)
    gen_jwt.write_gen(exe, HARNESS_ENV)
    c = p["case"]
    i, m = evaluate(exe, [c])
    print("impl :", json.dumps(i[0].get("res") if isinstance(i[0], dict) else i[0]))
    print("token:", (i[0].get("info") or {}).get("token") if isinstance(i[0], dict) else None)
    print("model:", json.dumps(m[0].get("res") if isinstance(m[0], dict) else m[0]))
    print("spec :", json.dumps(m[0].get("spec") if isinstance(m[0], dict) else m[0]))
    R.coverage.update({"obligations": 1, "discharged": 1, "checker_cmd": "replay", "trusted_base": []})
    st, text = judge(c, i[0], m[0])
    if st in BAD:
        R.violation("replay still differs: " + text, {"case": c, "impl": i[0], "model": m[0]})
