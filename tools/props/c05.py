"""C05 — JWT authentication accepts exactly the correctly signed, asserted tokens."""
import collections
import copy
import json
import os
import re

import gen_jwt
import vlib

PID = "C05"
HARNESS_ENV = None


def harness_env(R):
    global HARNESS_ENV
    HARNESS_ENV = dict(vlib.go_env(), TMPDIR=R.tmp)


def subst_srv(v, srv):
    if isinstance(v, dict):
        return {k: subst_srv(x, srv) for k, x in v.items()}
    if isinstance(v, list):
        return [subst_srv(x, srv) for x in v]
    if isinstance(v, str) and v.startswith("$SRV"):
        return srv + v[4:]
    return v


def evaluate(exe, cases):
    """implementation run (mints the tokens, returns verdict + abstract view), then the model/specification run on
    the case extended by that abstract view"""
    impl = vlib.run_cases([exe], cases, env=HARNESS_ENV, timeout=1500)
    dcases = []
    for c, i in zip(cases, impl):
        srv = (i.get("info") or {}).get("srv", "$SRV") if isinstance(i, dict) else "$SRV"
        dc = subst_srv({k: v for k, v in c.items() if k != "note"}, srv)
        dc["srv"] = srv
        dc["abs"] = (i.get("abs") if isinstance(i, dict) else None) or {"present": False, "now": 0}
        dcases.append(dc)
    model = vlib.run_cases(vlib.driver_cmd(), dcases, timeout=1500)
    return impl, model


def num_norm(v):
    """numbers are IEEE doubles in heimdall's subject attributes (Go float64): compare them as such"""
    if isinstance(v, bool) or v is None or isinstance(v, str):
        return v
    if isinstance(v, (int, float)):
        return float(v)
    if isinstance(v, list):
        return [num_norm(x) for x in v]
    if isinstance(v, dict):
        return {k: num_norm(x) for k, x in v.items()}
    return v


def same(a, b):
    """verdicts equal (subject id exactly, attributes as JSON with double-precision numbers)"""
    if not isinstance(a, dict) or not isinstance(b, dict):
        return False
    if a.get("verdict") != b.get("verdict"):
        return False
    if a.get("verdict") == "accept":
        return a.get("id") == b.get("id") and num_norm(a.get("attrs")) == num_norm(b.get("attrs"))
    return True


SKIP = ("ambiguous", "unmodelled")


def judge(i, m):
    """-> (status, text): status in ok | skip | broken | model | spec"""
    if not isinstance(i, dict) or "res" not in i:
        return "broken", "implementation side failed on the case: " + json.dumps(i)[:400]
    if not isinstance(m, dict) or "res" not in m:
        return "broken", "model side failed on the case: " + json.dumps(m)[:400]
    ir, mr, sr = i["res"], m["res"], m["spec"]
    if (i.get("info") or {}).get("clock_ok") is False:
        return "skip", "the case never ran inside one clock second"
    if mr.get("verdict") in SKIP or sr.get("verdict") in SKIP:
        return "skip", mr.get("verdict")
    if ir.get("verdict") in ("both", "neither"):
        return "spec", "the authenticator returned %s a subject and an error" % ir["verdict"]
    if not same(ir, sr):
        iv, sv = ir.get("verdict"), sr.get("verdict")
        if iv == "accept" and sv != "accept":
            return "spec", ("a token that has to be rejected yields the subject '%s' (model: %s)"
                            % (ir.get("id"), m.get("stats", {}).get("why")))
        if sv == "accept" and iv != "accept":
            return "spec", ("a correctly signed token satisfying all assertions is refused (%s, error kind %s)"
                            % (iv, (i.get("info") or {}).get("kind")))
        if iv == "accept" and sv == "accept":
            if ir.get("id") != sr.get("id"):
                return "spec", ("subject id '%s' is not the value of the verified claim ('%s')"
                                % (ir.get("id"), sr.get("id")))
            return "spec", "subject attributes are not the verified claims"
        return "spec", f"authenticator creation: implementation {iv}, specification {sv}"
    if not same(ir, mr):
        return "model", "implementation agrees with the specification but not with the model"
    return "ok", ""


# ---------------------------------------------------------------------------------------------------------------
# shrinking

def shrink(exe, case):
    """greedy structural shrinking; all candidates of a round are evaluated in one batch"""
    cur = copy.deepcopy(case)
    for _ in range(14):
        cands = []
        tok = cur.get("token")
        if tok:
            for k in range(len(tok.get("mut", []))):
                c = copy.deepcopy(cur)
                del c["token"]["mut"][k]
                cands.append(c)
            for f in list((tok.get("claims") or {}).keys()):
                if f in ("iss", "sub"):
                    continue
                c = copy.deepcopy(cur)
                del c["token"]["claims"][f]
                cands.append(c)
            if (tok.get("signer") or {}).get("kind") == "jose":
                c = copy.deepcopy(cur)
                c["token"]["signer"]["kind"] = "key"
                cands.append(c)
        keys = cur["jwks"]["keys"]
        for k in range(len(keys)):
            c = copy.deepcopy(cur)
            del c["jwks"]["keys"][k]
            cands.append(c)
        for k, key in enumerate(keys):
            if key.get("cert", "none") != "none":
                c = copy.deepcopy(cur)
                c["jwks"]["keys"][k]["cert"] = "none"
                cands.append(c)
        if cur.get("rule"):
            c = copy.deepcopy(cur)
            c["rule"] = None
            cands.append(c)
            for f in list((cur["rule"].get("assertions") or {}).keys()):
                c = copy.deepcopy(cur)
                del c["rule"]["assertions"][f]
                cands.append(c)
        for f in list((cur["conf"].get("assertions") or {}).keys()):
            if f == "issuers":
                continue
            c = copy.deepcopy(cur)
            del c["conf"]["assertions"][f]
            cands.append(c)
        for f in ("subject", "validate_jwk", "cache_ttl"):
            if cur["conf"].get(f) is not None:
                c = copy.deepcopy(cur)
                c["conf"][f] = None
                cands.append(c)
        if not cands:
            break
        impl, model = evaluate(exe, cands)
        nxt = None
        for c, i, m in zip(cands, impl, model):
            if judge(i, m)[0] in ("spec", "model"):
                nxt = c
                break
        if nxt is None:
            break
        cur = nxt
    return cur


# ---------------------------------------------------------------------------------------------------------------

def run(R):
    harness_env(R)
    tie_error = None
    try:
        facts = gen_jwt.write_gen()
    except gen_jwt.ExtractError as e:
        facts, tie_error = None, str(e)
    lean_ok = vlib.step_lean(R, PID)
    exe = vlib.step_harness(R)
    if exe is None:
        R.violation("harness does not build against /repo (API used by the correspondence check changed)",
                    {"build_log": R.harness_log[-3000:]}, no_input=True)
        return
    if not os.path.exists(vlib.driver_cmd()[0]):
        R.violation("the model driver does not build", {"lean_log": R.lean["log"]}, no_input=True)
        return
    quick = R.tier == "quick"
    corpus = vlib.load_corpus(PID)
    n = 2500 if quick else 90000
    cases = corpus + gen_jwt.catalogue() + [gen_jwt.gen_case(R.rng) for _ in range(n)]
    impl, model = evaluate(exe, cases)

    status = collections.Counter()
    why = collections.Counter()
    kinds = collections.Counter()
    notes_t = collections.Counter()
    notes_k = collections.Counter()
    algs = collections.Counter()
    accepted_by_alg = collections.Counter()
    noncanonical_accepted = 0
    retries = 0
    nontriv = set()
    bad = []
    samples, sampled = [], set()
    for c, i, m in zip(cases, impl, model):
        st, text = judge(i, m)
        if st == "ok" and c.get("expect") and m["spec"].get("verdict") != c["expect"].split()[0]:
            st, text = "model", ("corpus case %s: the specification says %s, recorded expectation: %s"
                                 % (c.get("name"), m["spec"].get("verdict"), c["expect"]))
        status[st] += 1
        if st in ("spec", "model", "broken"):
            bad.append((c, i, m, st, text))
        if not (isinstance(m, dict) and "stats" in m and isinstance(i, dict) and "res" in i):
            continue
        w = m["stats"]["why"]
        why[w] += 1
        info = i.get("info") or {}
        kinds[info.get("kind", "-")] += 1
        retries += max(0, info.get("tries", 1) - 1)
        t, _, k = c.get("note", "corpus/corpus").partition("/")
        if t.startswith("guided:"):
            for d in t[len("guided:"):].split("+"):
                notes_t["guided:" + d] += 1
        else:
            notes_t[t] += 1
        notes_k[{"g": "guided", "cat": "catalogue"}.get(k, "wild:" + k)] += 1
        a = (i.get("abs") or {})
        if a.get("wf"):
            algs[a.get("alg")] += 1
            if i["res"].get("verdict") == "accept":
                accepted_by_alg[a.get("alg")] += 1
                if a.get("canonical") is False:
                    noncanonical_accepted += 1
        if w not in ("noToken", "malformed", "config", "payload", "metadata", "keySet"):
            nontriv.add(vlib.case_hash(gen_jwt.slim(c)))
        key = (w,)
        if key not in sampled and len(samples) < 6 and c.get("note"):
            sampled.add(key)
            samples.append({"case": gen_jwt.slim(c), "implementation": i["res"], "model": m["res"], "why": w})
    R.coverage.update({
        "evaluations": len(cases), "distinct_nontrivial": len(nontriv),
        "rule": "a case = authenticator configuration (JWKS or metadata endpoint, assertions, subject paths, JWK "
                "validation) + optional rule-level assertions + key set served by a loopback endpoint + token recipe "
                "(signer, header, claims relative to the current second, mutations of the compact serialisation); the "
                "real authenticator (CreatePrototype -> WithConfig -> Execute) is compared with the Lean model and the "
                "Lean specification evaluated on the abstract view of the minted token; non-trivial = the token parses "
                "and a key set was fetched, i.e. the verdict is decided by key selection, algorithm agreement, "
                "signature, claims or subject extraction; distinct by hash of the case",
        "corpus_cases": len(corpus), "catalogue_cases": len(gen_jwt.catalogue()), "random_cases": n,
        "verdict_reasons_model": dict(why), "error_kinds_implementation": dict(kinds),
        "token_recipes": dict(notes_t), "keyset_recipes": dict(notes_k),
        "header_algorithms_of_parsable_tokens": dict(algs), "accepted_by_algorithm": dict(accepted_by_alg),
        "accepted_with_non_canonical_base64": noncanonical_accepted,
        "judgements": dict(status), "clock_second_retries": retries,
        "generated_facts": facts, "samples": samples, "exhaustive": False,
    })
    R.assumptions += [
        "signature verification is an oracle in the model (Token.sigOk); the harness evaluates it for the minted token "
        "with the Go standard library (crypto/rsa, ecdsa, ed25519, hmac) over the canonical signing input, "
        "independently of go-jose and heimdall",
        "a 'modification' of a token is a modification of the decoded octets of header, payload or signature: Go's "
        "base64 decoder ignores CR/LF and the unused trailing bits of the last character, such re-encodings of the "
        "same token are accepted (counted in accepted_with_non_canonical_base64)",
        "certificate chain validation (pkix.ValidateCertificate), JWKS / metadata transport, go-jose parsing and gjson "
        "are validated by the correspondence run only; gjson paths are restricted to member names and array indices",
        "numbers in subject attributes are compared as IEEE doubles (Go float64 by type); leeways are multiples of 1 ms",
    ]
    seen = set()
    for c, i, m, st, text in bad[:40]:
        sig = re.sub(r"'[^']*'", "'..'", text)[:90]
        if sig in seen:
            continue
        seen.add(sig)
        sc = shrink(exe, c) if st in ("spec", "model") else c
        si, sm = evaluate(exe, [sc])
        st2, text2 = judge(si[0], sm[0])
        if st2 not in ("spec", "model", "broken"):
            sc, si, sm, st2, text2 = c, [i], [m], st, text
        R.violation(text2, {"case": gen_jwt.slim(sc), "impl": si[0].get("res") if isinstance(si[0], dict) else si[0],
                            "token": ((si[0].get("info") or {}).get("token") if isinstance(si[0], dict) else None),
                            "abs": si[0].get("abs") if isinstance(si[0], dict) else None,
                            "model": sm[0].get("res") if isinstance(sm[0], dict) else sm[0],
                            "spec": sm[0].get("spec") if isinstance(sm[0], dict) else None,
                            "kind": "impl-vs-spec" if st2 == "spec" else "impl-vs-model"}, no_input=(st2 != "spec"))
        if len(R.violations) >= 4:
            break
    R.coverage["disagreements_checked"] = len(bad)
    if tie_error:
        R.violation("algorithm lists could not be extracted from the source (broken tie): " + tie_error,
                    {"extractor": tie_error}, no_input=True)
    if not lean_ok:
        R.violation("theorems of Props/C05.lean no longer check: " + "; ".join(R.lean["failed"])[:600],
                    {"lean_log": R.lean["log"], "failed": R.lean["failed"],
                     "theorems": R.lean.get("failed_theorems")}, no_input=True)


def replay(R, path):
    with open(path) as fh:
        p = json.load(fh)
    harness_env(R)
    gen_jwt.write_gen()
    exe = vlib.step_harness(R)
    c = p["case"]
    i, m = evaluate(exe, [c])
    print("impl :", json.dumps(i[0].get("res") if isinstance(i[0], dict) else i[0]))
    print("token:", (i[0].get("info") or {}).get("token") if isinstance(i[0], dict) else None)
    print("model:", json.dumps(m[0].get("res") if isinstance(m[0], dict) else m[0]))
    print("spec :", json.dumps(m[0].get("spec") if isinstance(m[0], dict) else m[0]))
    R.coverage.update({"obligations": 1, "discharged": 1, "checker_cmd": "replay", "trusted_base": []})
    st, text = judge(i[0], m[0])
    if st in ("spec", "model", "broken"):
        R.violation("replay still differs: " + text, {"case": c, "impl": i[0], "model": m[0]})
