"""C20 — configuration file and environment variables are equivalent; the environment wins per leaf.

Steps of a run
  0. extract/config_schema/extract.py regenerates lean/HeimdallModel/Gen/ConfigSchema.lean from /repo (schema vs loader)
  1. lake build Props.C20 (theorems about the loader model + `decide` obligation over the regenerated tables)
  2. tree stream  : real parser.New(...).Load into an untyped probe  vs  Lean `Config.load`  (+ leaf-wise SPEC oracle)
  3. typed stream : real config.NewConfiguration on a complete file  vs  the same configuration split between file and
                    environment (the related loads the property talks about), with the real schema validation; and the
                    complete file with some leaves defined to be nil by the environment vs the file without them
  4. type stream  : every mechanism/cache type the loader registers must pass the file validation
  4b. option names inside a mechanism's `config`: measured on the real file validation and the real type factories
                    (harness op `mech`) BEFORE the Lean step, written into the generated module (mechOptionTable), theorem
                    c20_mech_options_schema_eq_loader / c20_mech_usable_file_iff_env; a disagreeing row is turned into a
                    configuration that is usable from one source only
  (all streams)   : part of the loads run under a prefix of their own (--env-config-prefix in lower / mixed case, padded,
                    empty) with foreign variables in between (Lean: selectEnv, c20_prefix_*)
  5. values stream: value shapes per leaf type from file and environment; one text per leaf where the file / only the
                    defaults / nothing defines the leaf (environment wins, file = environment, Lean load + decode)
  5c. dialect     : texts whose reading differs between YAML dialects / decoders (yes no on off y n, ~, null, 0o17, 017,
                    0x1F, 1_000, 1e3, .inf, .NaN, dates, <<, =, 1:30, and their quoted forms): what the real ValidateConfig,
                    the real file loader and the real typing of variables make of each text, against each other and against
                    the Lean reading model (c20_validator_reads_like_loader); every text UNQUOTED in the file at string
                    options of the real Configuration (typed fields, header / cookie templates, subject, auth_class, realm,
                    key store password) through the real NewConfiguration incl. the schema validation vs the same text
                    from a variable; the typed stream plants such strings unquoted into its files
  6. history stream
"""
import collections
import copy
import json
import os
import subprocess
import sys
import threading

import gen_config
import vlib

PID = "C20"
KNOWN = "C20-file-validated-alone"
KNOWN_RETYPED = "C20-env-value-retyped"
# genuine defect with a small repair (fixes/C20-3.patch, not yet in /repo): ValidateConfig judges the file BEFORE `${var}`
# references are resolved. Recognised by its exact signature (unsubstituted_validation) only while the source of
# ValidateConfig does not call envsubst; counted, listed in design/C20.md; a violation once the patch is applied
PENDING_SUBST = "C20-validator-before-substitution"
KNOWN_NIL_ELEM = "C20-nil-list-element"      # proposed in design/C20.md (counted; printed once it is in known_findings.json)
EXTRACTOR = os.path.join(vlib.VERIF, "extract", "config_schema", "extract.py")
GEN_FILE = os.path.join(vlib.LEAN, "HeimdallModel", "Gen", "ConfigSchema.lean")


# ---------------------------------------------------------------------------------------------------------------
# helpers

def run_parallel(cmd, cases, workers=4, timeout=900):
    """vlib.run_cases on `workers` processes (every harness process has its own environment)"""
    if len(cases) < 4 * workers:
        return vlib.run_cases(cmd, cases, timeout=timeout)
    size = (len(cases) + workers - 1) // workers
    chunks = [cases[i:i + size] for i in range(0, len(cases), size)]
    outs = [None] * len(chunks)

    def work(i):
        outs[i] = vlib.run_cases(cmd, chunks[i], timeout=timeout)
    ths = [threading.Thread(target=work, args=(i,)) for i in range(len(chunks))]
    for t in ths:
        t.start()
    for t in ths:
        t.join()
    res = []
    for o in outs:
        res.extend(o)
    return res


def extract(R, measured=None, write=True):
    """regenerate the Gen table (with the measured mechanism option rows, if any); returns the facts or None
    (violation recorded). write=False: facts only, the generated module is left alone"""
    env = dict(os.environ, VERIF_REPO=vlib.REPO)
    cmd = [sys.executable, EXTRACTOR]
    if measured is not None:
        path = os.path.join(R.tmp, "mech_options.json")
        with open(path, "w") as fh:
            json.dump({"rows": measured}, fh)
        cmd += ["--measured", path]
    if not write:
        cmd += ["--facts-only"]
    with vlib.LeanLock():
        if write:
            try:
                os.remove(GEN_FILE)
            except FileNotFoundError:
                pass
        p = subprocess.run(cmd, capture_output=True, text=True, env=env, timeout=120)
    if p.returncode != 0:
        R.violation("schema/loader fact extraction failed (source shape not understood): " + p.stderr.strip()[-400:],
                    {"stderr": p.stderr[-2000:], "stream": "extract/config_schema"}, no_input=True)
        return None
    return json.loads(p.stdout)


def is_tree(r):
    return isinstance(r, list) and len(r) == 1 and isinstance(r[0], dict)


def is_err(r, prefix="err:schema"):
    return isinstance(r, list) and len(r) >= 1 and all(isinstance(x, str) and x.startswith(prefix) for x in r)


def leaf_delta(a, b, limit=6):
    fa = dict(gen_config.leaves(a))
    fb = dict(gen_config.leaves(b))
    return [[list(k), fa.get(k), fb.get(k)] for k in sorted(set(fa) | set(fb), key=str) if fa.get(k) != fb.get(k)][:limit]


# ---------------------------------------------------------------------------------------------------------------
# stream 2: merged tree, implementation vs model vs leaf-wise spec

def l1_compare(case, i, m):
    """None if fine, else a description"""
    mres = vlib.res_of(m)
    if isinstance(m, dict) and "driver_error" in m:
        return "driver error: " + m["driver_error"]
    if vlib.canon(i) == vlib.canon(mres):
        return None
    if isinstance(i, list) and len(i) > 1:
        return f"the loaded configuration is not determined by the inputs: {len(i)} different results for one file and one set of environment variables"
    return "the loaded configuration differs from the proved model"


def nil_element_only(spec_result):
    """does the leaf-wise rule object only at places a variable with a nil value addresses inside a list?"""
    s = spec_result.get("stats", {}) if isinstance(spec_result, dict) else {}
    bad = [vlib.canon(p) for p in s.get("bad", [])]
    holes = {vlib.canon(p) for p in s.get("holes", [])}
    return bool(bad) and all(p in holes for p in bad)


def l1_shrink(exe, case, spec_only=False):
    def fails(c):
        i = vlib.run_cases([exe], [c])[0]
        m = vlib.run_cases(vlib.driver_cmd(), [c])[0]
        if l1_compare(c, i, m) is not None:
            return True
        if spec_only and is_tree(i):
            sp = vlib.run_cases(vlib.driver_cmd(), [dict(c, op="spec", result=i[0])])[0]
            return vlib.res_of(sp) is not True and not nil_element_only(sp)
        return False

    def with_env(env):
        c = copy.deepcopy(case)
        c["env"] = env
        n = len(env)
        c["orders"] = [list(range(n)), list(reversed(range(n)))]
        c["rep"] = 8
        return c
    cur = with_env(case["env"])
    if not fails(cur):
        return case
    for drop in ("file", "defaults"):
        c2 = copy.deepcopy(cur)
        if drop == "file":
            c2.pop("file", None)
        else:
            c2["defaults"] = {}
        if fails(c2):
            cur = c2
    env = vlib.ddmin(cur["env"], lambda e: fails(dict(with_env(e), **{k: cur[k] for k in ("file", "defaults") if k in cur})))
    res = with_env(env)
    for k in ("file", "defaults"):
        if k in cur:
            res[k] = cur[k]
        else:
            res.pop(k, None)
    return res if fails(res) else cur


def l1_stream(R, exe, cases, label):
    impl = run_parallel([exe], cases)
    model = vlib.run_cases(vlib.driver_cmd(), cases)
    # the leaf-wise rule applied to what the implementation returned
    spec_cases, spec_idx = [], []
    for k, (c, i) in enumerate(zip(cases, impl)):
        if is_tree(i):
            sc = dict(c, op="spec", result=i[0])
            spec_cases.append(sc)
            spec_idx.append(k)
    spec = vlib.run_cases(vlib.driver_cmd(), spec_cases)
    spec_bad = {}
    for k, s in zip(spec_idx, spec):
        if vlib.res_of(s) is not True:
            spec_bad[k] = s
    bad = []
    st = collections.Counter()
    for k, (c, i, m) in enumerate(zip(cases, impl, model)):
        why = l1_compare(c, i, m)
        if not why and k in spec_bad and nil_element_only(spec_bad[k]):
            # the implementation does what the proved model says (c20_env_nil_element_ignored) and the leaf-wise rule
            # objects only at list positions a variable defines to be nil: the known finding, nothing else
            st["known_nil_element"] += 1
            R.known_hits[KNOWN_NIL_ELEM] = R.known_hits.get(KNOWN_NIL_ELEM, 0) + 1
            continue
        if why or k in spec_bad:
            bad.append((k, c, i, m, why, spec_bad.get(k)))
    nontriv = set()
    for c, m in zip(cases, model):
        s = m.get("stats", {}) if isinstance(m, dict) else {}
        if "prefix" in c:
            st["own_prefix"] += 1
            st["own_prefix_" + ("empty" if not gen_config.effective_prefix(c["prefix"]) else "other_case"
                                if gen_config.effective_prefix(c["prefix"]) != gen_config.effective_prefix(c["prefix"]).upper()
                                else "upper")] += 1
        for key in ("foreign", "env", "env_list_leaves", "env_overrides", "env_nil", "env_nil_overrides", "env_holes", "file_leaves",
                    "default_leaves", "result_leaves"):
            st[key] += s.get(key, 0)
        st["depth_max"] = max(st["depth_max"], s.get("depth", 0))
        if not s.get("ok", False):
            st["not_loadable"] += 1
        if s.get("env", 0) >= 2 and s.get("env_list_leaves", 0) >= 1 and (s.get("file_leaves", 0) + s.get("default_leaves", 0)) >= 1:
            nontriv.add(vlib.case_hash(c))
    for k, c, i, m, why, sb in bad[:3]:
        sc = l1_shrink(exe, c, spec_only=not why)
        si = vlib.run_cases([exe], [sc])[0]
        sm = vlib.run_cases(vlib.driver_cmd(), [sc])[0]
        w = l1_compare(sc, si, sm) or why or "the leaf-wise rule (environment over file over defaults) rejects the loaded configuration"
        if sb is not None and not why:
            w = "the loaded configuration violates the leaf-wise rule environment > file > defaults at " + json.dumps(
                sb.get("stats", {}).get("bad", [])[:3])
        R.violation(f"{label}: {w}; " + (f"prefix {json.dumps(sc['prefix'])}, " if "prefix" in sc else "")
                    + f"environment {json.dumps([e[:2] for e in sc['env']][:6])}",
                    {"kind": "load", "case": sc, "impl": si, "model": vlib.res_of(sm)})
    return len(cases), nontriv, st, len(bad), cases[:1]


# ---------------------------------------------------------------------------------------------------------------
# stream 3: real Configuration, complete file vs file/environment splits

def l2_required_names():
    """all property names some schema object requires (used only to aim the 'opt' splits at file-valid parts)"""
    names = set()
    try:
        with open(os.path.join(vlib.REPO, "schema", "config.schema.json")) as fh:
            schema = json.load(fh)
    except Exception:  # noqa: BLE001
        return frozenset()

    def walk(n):
        if isinstance(n, dict):
            for r in n.get("required", []) if isinstance(n.get("required"), list) else []:
                names.add(r)
            for v in n.values():
                walk(v)
        elif isinstance(n, list):
            for v in n:
                walk(v)
    walk(schema)
    return frozenset(names)


MODES = ["env", "over", "opt", "opt", "half", "lists"]


def l2_eval(exe, plans):
    """plans: list of (cfg, [plan...]). Returns per group: base result, per plan (case, result, file-valid-alone)"""
    cases = []
    index = []
    for cfg, pls in plans:
        b = len(cases)
        cases.append(gen_config.base_case(cfg))
        ids = []
        for pl, case in pls:
            ids.append(len(cases))
            cases.append(case)
            v = dict(case, op="validate", env=[], orders=[], rep=1)
            if "file_quoted" in case:
                # the file holds unquoted strings: "the file part alone is no valid configuration" is asked of the twin
                # with every scalar quoted, so that a validation which READS the unquoted text differently is not
                # taken for the known finding C20-file-validated-alone
                v["file"] = case["file_quoted"]
            cases.append(v)
        index.append((b, ids))
    out = run_parallel([exe], cases)
    res = []
    for (cfg, pls), (b, ids) in zip(plans, index):
        res.append((out[b], [(pl, case, out[i], out[i + 1] if "file" in case else ["ok"]) for (pl, case), i in zip(pls, ids)]))
    return res


def drop_nil_members(t):
    """a map member that is nil and an absent one are the same configuration (Spec: `showsLeaf`, `≈`)"""
    if isinstance(t, dict):
        return {k: drop_nil_members(v) for k, v in t.items() if v is not None}
    if isinstance(t, list):
        return [drop_nil_members(v) for v in t]
    return t


def plan_has_nil(case):
    return any(e[2] is None for e in case.get("env", []))


def l2_verdict(base, r, valid_alone, nil=False):
    """'ok' | 'known' | description of a violation. nil: the environment defines leaves to be nil, the reference is the
    configuration without them (members of free-form maps then hold nil instead of being absent)"""
    if not is_tree(base):
        return "ok"      # judged by the caller (base failures are compared with the environment-only load)
    if vlib.canon(r) == vlib.canon(base):
        return "ok"
    if nil and is_tree(r) and vlib.canon(drop_nil_members(r)) == vlib.canon(drop_nil_members(base)):
        return "ok"
    if is_err(r) and valid_alone != ["ok"]:
        return "known"   # the file part alone is no valid configuration; the merged one is (base loads)
    if isinstance(r, list) and len(r) > 1:
        return f"{len(r)} different configurations for one file and one set of environment variables"
    if is_tree(r):
        return "file + environment give another configuration than the complete file: " + json.dumps(leaf_delta(base[0], r[0]))
    return f"file + environment fail ({json.dumps(r)[:80]}) although the complete file loads"


def shrunk_case(pl, prefix=None):
    """the load of a (shrunk) plan, under the prefix of the case it was shrunk from"""
    case = gen_config.plan_case(pl, None, rep=6)
    return case if prefix is None else gen_config.with_prefix(case, prefix)


def l2_shrink(exe, plan, rngseed, prefix=None):
    def fails(pl):
        if not pl:
            return False
        cfg = gen_config.plan_config(pl)
        case = shrunk_case(pl, prefix)
        (base, rs), = l2_eval(exe, [(cfg, [(pl, case)])])
        if not is_tree(base):
            return False
        _, _, r, va = rs[0]
        return l2_verdict(base, r, va, plan_has_nil(case)) not in ("ok", "known")
    if not fails(plan):
        return plan
    return vlib.ddmin(plan, fails)


def l2_stream(R, exe, n_groups, required, strings=None):
    rng = R.rng
    plans = []
    for _ in range(n_groups):
        cfg = gen_config.gen_config(rng)
        # dialect-sensitive strings (yes, no, on, off, y, n, <<, =, 1:30) as values of string options
        planted = gen_config.plant_dialect(rng, cfg, strings) if rng.random() < 0.6 else []
        pls = []
        for mode in MODES:
            pl = gen_config.gen_plan(rng, cfg, mode, required)
            case = gen_config.plan_case(pl, rng)
            case["mode"] = mode
            # the variables under a prefix of the operator's own (lower / mixed case, padded), foreign ones in between
            case = gen_config.maybe_prefix(case, rng, 0.25)
            pls.append((pl, case))
        if planted:
            # ... written UNQUOTED into the file (complete file; file/environment split with the text in either source)
            for mode in ("plain", "plainopt"):
                pl = gen_config.gen_plain_plan(rng, cfg, planted, mode, required)
                case = gen_config.plan_case(pl, rng)
                case["mode"] = mode
                pls.append((pl, case))
        plans.append((cfg, pls))
        # the environment defines leaves of the complete file to be nil: a group of its own, the reference is the
        # configuration without those leaves
        pl = gen_config.gen_nil_plan(rng, cfg, required)
        if any("nil" in e for e in pl):
            case = gen_config.plan_case(pl, rng)
            case["mode"] = "nil"
            plans.append((gen_config.plan_config(pl), [(pl, case)]))
    res = l2_eval(exe, plans)
    # model self-check: the model merges file part and environment part to the complete configuration
    mcases, mref = [], []
    for (cfg, pls) in plans:
        for pl, case in pls:
            mc = dict(case, op="merged", defaults={})
            if "file_quoted" in case:
                mc["file"] = case["file_quoted"]        # the tree model takes the file as JSON
            mcases.append(mc)
            mref.append(cfg)
    mout = vlib.run_cases(vlib.driver_cmd(), mcases)
    st = collections.Counter()
    nontriv = set()
    reported = 0
    for (cfg, pls), (base, rs) in zip(plans, res):
        st["groups"] += 1
        if not is_tree(base):
            # the complete file does not load: compare with the environment-only load of the same configuration
            envr = next((r for pl, case, r, va in rs if case.get("mode") == "env"), None)
            st["base_rejected"] += 1
            if is_tree(envr) and reported < 3:
                reported += 1
                pl0 = next(pl for pl, case, r, va in rs if case.get("mode") == "env")
                small = shrink_base(exe, cfg)
                R.violation("a configuration loads from environment variables but the same configuration is rejected "
                            f"as a file ({json.dumps(base)[:60]}): " + json.dumps(small)[:300],
                            {"kind": "cfg-base", "config": small, "impl_file": base, "impl_env": "loads"})
            continue
        for pl, case, r, va in rs:
            mode = case.get("mode")
            st["loads"] += 1
            st["env_vars"] += len(case["env"])
            if "prefix" in case:
                st["loads_own_prefix"] += 1
            v = l2_verdict(base, r, va, mode == "nil")
            if v == "ok":
                st["equal_" + mode] += 1
                if case["env"] and any(isinstance(s, int) for e in pl if e["env"] for s in e["path"]):
                    nontriv.add(vlib.case_hash(case))
                if mode == "nil":
                    st["nil_leaves"] += len(case["env"])
                    nontriv.add(vlib.case_hash(case))
                if mode in ("plain", "plainopt"):
                    st["unquoted_leaves"] += sum(1 for e in pl if e.get("plain"))
                    nontriv.add(vlib.case_hash(case))
            elif v == "known":
                st["known_" + mode] += 1
                R.known_hits[KNOWN] = R.known_hits.get(KNOWN, 0) + 1
            else:
                st["violations"] += 1
                if reported < 3:
                    reported += 1
                    spl = l2_shrink(exe, pl, R.seed, case.get("prefix"))
                    scase = shrunk_case(spl, case.get("prefix"))
                    scfg = gen_config.plan_config(spl)
                    (sb, srs), = l2_eval(exe, [(scfg, [(spl, scase)])])
                    R.violation("typed stream: " + l2_verdict(sb, srs[0][2], srs[0][3], plan_has_nil(scase))
                                + ("; prefix " + json.dumps(scase["prefix"]) if "prefix" in scase else "") + "; environment "
                                + json.dumps([e[:2] for e in scase["env"]][:6]) + " file " + str(scase.get("file"))[:200],
                                {"kind": "cfg", "config": scfg, "case": scase, "impl_complete_file": sb,
                                 "impl_split": srs[0][2]})
    mbad = 0
    for mc, ref, mo in zip(mcases, mref, mout):
        if vlib.canon(drop_nil_members(vlib.res_of(mo))) != vlib.canon(ref):
            mbad += 1
            if mbad <= 2:
                R.violation("model: file part and environment part do not merge to the complete configuration "
                            "(generator or model defect, theorem c20_split says they do)",
                            {"kind": "model-split", "case": mc, "model": vlib.res_of(mo), "expected": ref}, no_input=True)
    st["model_split_checked"] = len(mcases)
    sample = plans[0][1][2][1] if plans else None
    return st, nontriv, sample


def shrink_base(exe, cfg):
    """a small sub-configuration that loads from the environment but not from a file. Whole sections and whole list
    entries of `mechanisms` are removed (entries stay complete, so no `required` property goes missing by shrinking)"""
    units = [("section", k) for k in cfg if k != "mechanisms"]
    for cat, lst in cfg.get("mechanisms", {}).items():
        units += [("mech", cat, i) for i in range(len(lst))]

    def assemble(us):
        c = {}
        for u in us:
            if u[0] == "section":
                c[u[1]] = cfg[u[1]]
            else:
                c.setdefault("mechanisms", {}).setdefault(u[1], []).append(cfg["mechanisms"][u[1]][u[2]])
        if "mechanisms" in c:
            for cat, stub in (("authenticators", {"id": "a0", "type": "anonymous"}), ("finalizers", {"id": "f0", "type": "noop"})):
                c["mechanisms"].setdefault(cat, [stub])
        return c

    def fails(us):
        if not us:
            return False
        c = assemble(us)
        pl = [{"path": list(p), "value": v, "env": True, "file": False, "file_value": v} for p, v in gen_config.leaves(c)]
        out = vlib.run_cases([exe], [gen_config.base_case(c), gen_config.plan_case(pl, None, rep=2)])
        return (not is_tree(out[0])) and is_tree(out[1])
    if not fails(units):
        return cfg
    return assemble(vlib.ddmin(units, fails))


# ---------------------------------------------------------------------------------------------------------------
# stream 4: types and option names, schema vs loader, on the real validator

def schema_stream(R, exe, facts):
    st = collections.Counter()
    cases, meta = [], []
    for cat, typ in sorted(set(map(tuple, facts["loaderMechTypes"])) | set(map(tuple, facts["schemaMechTypes"]))):
        cfg = gen_config.type_config(cat, typ)
        if (cat, typ) not in gen_config.TYPE_MINIMAL:
            st["types_without_template"] += 1
        pl = [{"path": list(p), "value": v, "env": True, "file": False, "file_value": v} for p, v in gen_config.leaves(cfg)]
        cases.append(gen_config.base_case(cfg))
        cases.append(gen_config.plan_case(pl, None, rep=2))
        meta.append((cat, typ, cfg))
    out = vlib.run_cases([exe], cases)
    loader = set(map(tuple, facts["loaderMechTypes"]))
    for k, (cat, typ, cfg) in enumerate(meta):
        f, e = out[2 * k], out[2 * k + 1]
        st["types_checked"] += 1
        if (cat, typ) in loader and not is_tree(f):
            R.violation(f"the loader registers {cat} type '{typ}' and the configuration loads from environment variables "
                        f"({'ok' if is_tree(e) else json.dumps(e)[:40]}), but the file validation rejects it ({json.dumps(f)[:50]})",
                        {"kind": "cfg-base", "config": cfg, "impl_file": f, "impl_env": e})
        elif (cat, typ) not in loader and is_tree(f):
            R.violation(f"the file validation accepts {cat} type '{typ}' for which the loader registers no factory",
                        {"kind": "cfg-base", "config": cfg, "impl_file": "loads", "loader_types": sorted(t for c, t in loader if c == cat)},
                        no_input=False)
    # negative probes: what neither side knows must not pass the file validation
    neg, negmeta = [], []
    for cat in sorted({c for c, _ in loader}):
        cfg = gen_config.type_config(cat, "anonymous" if cat == "authenticators" else "noop")
        if cat == "cache":
            cfg = {"cache": {"type": "zz_unknown"}}
        else:
            cfg = {"mechanisms": {"authenticators": [{"id": "a", "type": "anonymous"}], "finalizers": [{"id": "f", "type": "noop"}]}}
            cfg["mechanisms"][cat] = cfg["mechanisms"].get(cat, []) + [{"id": "zz", "type": "zz_unknown"}]
        neg.append(gen_config.base_case(cfg))
        negmeta.append(("type", cat, cfg))
    for path, closed, sk, lk in facts["optionTable"]:
        if closed and path.count(".") <= 1:
            segs = [s for s in path.split(".") if s] + ["zz_unknown"]
            cfg = gen_config.build([(tuple(segs), 1)])
            neg.append(gen_config.base_case(cfg))
            negmeta.append(("option", path, cfg))
    nout = vlib.run_cases([exe], neg)
    for (what, where, cfg), r in zip(negmeta, nout):
        st["negative_probes"] += 1
        if not is_err(r):
            R.violation(f"the file validation accepts an unknown {what} at '{where}' (zz_unknown), which the loader does not support",
                        {"kind": "cfg-accepts-unknown", "config": cfg, "impl_file": r if not is_tree(r) else "loads"})
    # option names: rows of the table that disagree, exhibited on the real loader where possible
    for path, closed, sk, lk in facts["optionTable"]:
        st["option_rows"] += 1
        for key in sorted(set(lk) - set(sk)):
            if not closed:
                continue
            hit = probe_option(exe, path, key)
            what = f"the loader reads option '{path}.{key}' (effective from the environment) but the file validation rejects it"
            R.violation(what, hit or {"stream": "option table", "path": path, "key": key}, no_input=hit is None)
        for key in sorted(set(sk) - set(lk)):
            hit = probe_option(exe, path, key, ignored=True)
            what = f"the file validation accepts option '{path}.{key}' which the loader does not read (accepted and ignored)"
            R.violation(what, hit or {"stream": "option table", "path": path, "key": key}, no_input=hit is None)
    return st


def probe_option(exe, path, key, ignored=False):
    """find a value with which the disagreement shows on the real loader"""
    segs = [s for s in path.split(".") if s] + [key]
    empty = vlib.run_cases([exe], [{"fam": "config", "op": "cfg", "env": [], "rep": 1}])[0]
    for val in (418, True, "x", {"code": 418}, {"read": "7s"}, ["x"]):
        cfg = gen_config.build([(tuple(segs) + p, v) for p, v in gen_config.leaves(val)])
        pl = [{"path": list(p), "value": v, "env": True, "file": False, "file_value": v} for p, v in gen_config.leaves(cfg)]
        f, e = vlib.run_cases([exe], [gen_config.base_case(cfg), gen_config.plan_case(pl, None, rep=2)])
        if not ignored and is_tree(e) and vlib.canon(e) != vlib.canon(empty) and not is_tree(f):
            return {"kind": "cfg-base", "config": cfg, "impl_file": f, "impl_env": "loads and takes effect"}
        if ignored and is_tree(f) and vlib.canon(f) == vlib.canon(empty):
            return {"kind": "cfg-ignored", "config": cfg, "impl_file": "accepted, configuration unchanged"}
    return None


# ---------------------------------------------------------------------------------------------------------------
# stream 4b: the options INSIDE a mechanism's `config`. The static tables above end at `config` (a free-form map of the
# Configuration struct); what a mechanism accepts there is decided by two pieces of running code: the JSON schema
# applied to the FILE (additionalProperties of the alternative of the mechanism's type) and the type factory
# (mapstructure with ErrorUnused) that creates the mechanism from the merged configuration, whatever its source. Both
# are MEASURED: every type is declared with all candidate names at once at every place the schema describes below its
# `config`, once in a file handed to the real ValidateConfig and once by variables through the real NewConfiguration +
# NewMechanismFactory; the names each side refuses BY NAME are read off the structured errors. The measured table is
# written into Gen/ConfigSchema.lean (obligation c20_mech_tables_agree, theorem c20_mech_options_schema_eq_loader);
# a disagreeing row is turned into a configuration that is usable from one source only.

UNKNOWN = "zz_unknown"           # stands for every name outside the candidate pool


def load_schema():
    try:
        with open(os.path.join(vlib.REPO, "schema", "config.schema.json")) as fh:
            return json.load(fh)
    except Exception:  # noqa: BLE001
        return None


def schema_deref(schema, node):
    for _ in range(30):
        if not (isinstance(node, dict) and isinstance(node.get("$ref"), str) and node["$ref"].startswith("#/")):
            break
        cur = schema
        for part in node["$ref"][2:].split("/"):
            cur = cur.get(part) if isinstance(cur, dict) else None
        node = cur
    return node if isinstance(node, dict) else {}


def schema_alts(schema, node, depth=0):
    node = schema_deref(schema, node)
    out = [node]
    if depth < 6:
        for k in ("anyOf", "oneOf", "allOf"):
            for a in node.get(k, []) if isinstance(node.get(k), list) else []:
                out += schema_alts(schema, a, depth + 1)
        for k in ("then", "else"):
            if isinstance(node.get(k), dict):
                out += schema_alts(schema, node[k], depth + 1)
    return out


def schema_places(schema, node, place=(), depth=0):
    """[(place, names the schema lists there)] for every place at or below `node` the schema describes as an object with
    named properties (through lists: the first element)"""
    res = []
    props = {}
    alts = schema_alts(schema, node)
    for a in alts:
        if isinstance(a.get("properties"), dict):
            for k, v in a["properties"].items():
                props.setdefault(k, v)
    if props:
        res.append((place, sorted(props)))
        if depth < 4:
            for k, v in sorted(props.items()):
                res += schema_places(schema, v, place + (k,), depth + 1)
    for a in alts:
        if isinstance(a.get("items"), dict) and depth < 4:
            res += schema_places(schema, a["items"], place + (0,), depth + 1)
    return res


def mech_schema_nodes(schema):
    """{(category, type): schema node of the `config` of that mechanism type or None}"""
    res = {}
    defs = schema_deref(schema, {"$ref": "#/definitions/mechanismDefinitions"}).get("properties", {})
    for cat, node in defs.items():
        items = schema_deref(schema, node).get("items", {})
        for alt in schema_alts(schema, items):
            t = alt.get("properties", {}).get("type") if isinstance(alt.get("properties"), dict) else None
            if isinstance(t, dict):
                for typ in ([t["const"]] if "const" in t else t.get("enum", [])):
                    res[(cat, typ)] = alt["properties"].get("config")
    return res


def mech_candidate_pool():
    """names worth asking about: every mapstructure tag and every string used to index a map in the non-test sources
    below internal/rules (a superset of what any factory reads); what both sides say about all OTHER names is asked
    with the name `zz_unknown`"""
    import re
    pool = set()
    root = os.path.join(vlib.REPO, "internal", "rules")
    for d, _, files in os.walk(root):
        if os.sep + "mocks" in d:
            continue
        for f in files:
            if f.endswith(".go") and not f.endswith("_test.go"):
                try:
                    with open(os.path.join(d, f)) as fh:
                        src = fh.read()
                except OSError:
                    continue
                pool |= set(re.findall(r'mapstructure:"([A-Za-z][A-Za-z0-9_]*)', src))
                pool |= set(re.findall(r'\[\s*"([a-z][a-z0-9_]*)"\s*\]', src))
    return sorted(pool)


def mech_measure(R, exe, facts):
    """-> (rows, st, probes). rows: [cat, typ, place, schemaClosed, [names], loaderClosed, [names]]"""
    st = collections.Counter()
    schema = load_schema()
    nodes = mech_schema_nodes(schema) if schema else {}
    pool = mech_candidate_pool()
    st["candidate_names"] = len(pool)
    types = sorted({tuple(t) for t in facts["loaderMechTypes"] + facts["schemaMechTypes"] if t[0] != "cache"})
    cases, meta = [], []
    for cat, typ in types:
        node = nodes.get((cat, typ))
        places = schema_places(schema, node) if node is not None else []
        if not places or places[0][0] != ():
            places = [((), [])] + places
        for place, names in places:
            cand = sorted(set(pool) | set(names) | {UNKNOWN})
            cfg = gen_config.mech_config(cat, typ, place, {k: "x" for k in cand})
            _, vc, ec = gen_config.mech_cases(cfg)
            cases += [vc, ec]
            meta.append((cat, typ, place, cand, cfg))
    out = run_parallel([exe], cases)
    rows, probes = [], {}
    for k, (cat, typ, place, cand, cfg) in enumerate(meta):
        v, e = out[2 * k], out[2 * k + 1]
        v = v[0] if isinstance(v, list) and len(v) == 1 else {}
        e = e[0] if isinstance(e, list) and len(e) == 1 else {}
        ps = gen_config.place_str(place)
        st["mech_probes"] += 2
        if not (isinstance(v, dict) and isinstance(e, dict) and "stage" in v and e.get("stage") in ("ok", "create")):
            if place == ():
                R.violation(f"the options of {cat} type '{typ}' cannot be measured: the minimal declaration does not reach the "
                            f"type factory from environment variables ({json.dumps(e)[:80]})",
                            {"kind": "mech", "config": cfg, "impl": [v, e]}, no_input=True)
            st["mech_places_unmeasured"] += 1
            continue
        sr, lr = v.get("refused", {}), e.get("refused", {})
        s_closed = UNKNOWN in sr.get(ps, []) or (place == () and "-" in sr)
        l_closed = UNKNOWN in lr.get(ps, [])
        s_names = [] if (place == () and "-" in sr) else sorted(set(cand) - set(sr.get(ps, [])) - {UNKNOWN})
        l_names = sorted(set(cand) - set(lr.get(ps, [])) - {UNKNOWN})
        if place != () and not l_closed:
            # the factory does not check names here (a free-form map, a value decoded by a hook of its own, or the probe
            # did not get that far): nothing to compare
            st["mech_places_unmeasured"] += 1
            continue
        rows.append([cat, typ, ps, s_closed, s_names if s_closed else [], l_closed, l_names if l_closed else []])
        probes[(cat, typ, ps)] = (place, cfg)
        st["mech_places"] += 1
        st["mech_names_read"] += len(l_names) if l_closed else 0
        if place != ():
            st["mech_places_nested"] += 1
    return rows, st, probes


def mech_row_problems(row, ignoring):
    """what the Lean predicate `mechRowOk` demands, evaluated here to aim the search: [(problem, key)]"""
    cat, typ, ps, s_closed, s_names, l_closed, l_names = row
    res = []
    if l_closed:
        if s_closed:
            res += [("env-only", k) for k in l_names if k not in s_names]
            res += [("file-accepts-unread", k) for k in s_names if k not in l_names]
    else:
        if not s_closed:
            res.append(("unchecked", UNKNOWN))
        else:
            res += [("accepted-ignored", k) for k in s_names]
            if [cat, typ] not in [list(t) for t in ignoring]:
                res.append(("tolerant-factory", UNKNOWN))
    return res


MECH_VALUES = ["x", 418, True, {"a": "b"}, ["x"], "5s"]


def mech_usable(exe, cfg):
    """(usable from the file, usable from the environment, raw answers)"""
    fc, _, ec = gen_config.mech_cases(cfg)
    f, e = vlib.run_cases([exe], [fc, ec])
    fs = f[0].get("stage") if isinstance(f, list) and len(f) == 1 and isinstance(f[0], dict) else None
    es = e[0].get("stage") if isinstance(e, list) and len(e) == 1 and isinstance(e[0], dict) else None
    return fs == "ok", es == "ok", f, e


def mech_names_verdict(exe, cat, typ, place, key):
    """(refused by the file validation, refused by the type factory) for one name at one place, measured"""
    cfg = gen_config.mech_config(cat, typ, tuple(place), {key: "x"})
    _, vc, ec = gen_config.mech_cases(cfg)
    v, e = vlib.run_cases([exe], [vc, ec])
    ps = gen_config.place_str(place)
    v = v[0] if isinstance(v, list) and len(v) == 1 and isinstance(v[0], dict) else {}
    e = e[0] if isinstance(e, list) and len(e) == 1 and isinstance(e[0], dict) else {}
    s_ref = key in v.get("refused", {}).get(ps, []) or (not place and "-" in v.get("refused", {}))
    l_ref = key in e.get("refused", {}).get(ps, [])
    return s_ref, l_ref, cfg


def mech_stream(R, exe, facts, rows, probes, st):
    shown = 0
    for row in rows:
        cat, typ, ps = row[:3]
        place, _ = probes[(cat, typ, ps)]
        for problem, key in mech_row_problems(row, facts.get("ignoresConfig", [])):
            st["mech_disagreements"] += 1
            if shown >= 4:
                continue
            shown += 1
            where = f"{cat} type '{typ}', option '{(ps + '.' if ps else '') + key}'"
            if problem == "env-only":
                # search: a value with which the declaration is usable from the environment and not from the file
                hit = None
                for val in MECH_VALUES:
                    cfg = gen_config.mech_config(cat, typ, place, {key: val})
                    fu, eu, f, e = mech_usable(exe, cfg)
                    if eu and not fu:
                        hit = (cfg, f, e)
                        break
                if hit:
                    R.violation(f"{where}: the type factory reads the option and the configuration is usable from environment "
                                f"variables, but the file validation rejects the same configuration as a file "
                                f"({json.dumps(hit[1])[:80]})",
                                {"kind": "mech", "config": hit[0], "impl_file": hit[1], "impl_env": hit[2], "expect": "same"})
                else:
                    s_ref, l_ref, cfg = mech_names_verdict(exe, cat, typ, place, key)
                    R.violation(f"{where}: the type factory reads the option, the file validation refuses the name",
                                {"kind": "mechopt", "category": cat, "type": typ, "place": list(place), "key": key,
                                 "config": cfg, "impl": {"file_validation_refuses": s_ref, "factory_refuses": l_ref}})
            elif problem == "file-accepts-unread":
                s_ref, l_ref, cfg = mech_names_verdict(exe, cat, typ, place, key)
                R.violation(f"{where}: the file validation accepts the option, the type factory does not read it (refused "
                            f"when the mechanism is created)",
                            {"kind": "mechopt", "category": cat, "type": typ, "place": list(place), "key": key,
                             "config": cfg, "impl": {"file_validation_refuses": s_ref, "factory_refuses": l_ref}})
            else:
                cfg = gen_config.mech_config(cat, typ, place, {key: "x"})
                fu, eu, f, e = mech_usable(exe, cfg)
                what = {"accepted-ignored": "the file validation accepts the option, the type factory ignores whatever is configured",
                        "tolerant-factory": "the type factory accepts any option name without reading it through a checked "
                                            "structure (its factory function does not ignore the config either)",
                        "unchecked": "neither the file validation nor the type factory check option names"}[problem]
                R.violation(f"{where}: {what}", {"kind": "mech", "config": cfg, "impl_file": f, "impl_env": e,
                                                 "expect": "refused"}, no_input=(fu == eu and problem != "accepted-ignored"))


def corpus_mech(R, exe, items, st):
    """corpus kind `mech`: a mechanism declaration must be usable from the file iff it is usable from the environment"""
    for c in items:
        fu, eu, f, e = mech_usable(exe, c["config"])
        st["corpus_mech"] += 1
        if fu != eu:
            R.violation(f"corpus {c.get('name', '')}: the configuration is usable from "
                        f"{'the file' if fu else 'environment variables'} only",
                        {"kind": "mech", "config": c["config"], "impl_file": f, "impl_env": e, "expect": "same"})


# ---------------------------------------------------------------------------------------------------------------
# stream 5: values. Every value shape for every leaf type from the file (as the schema demands it) and from the
# environment (plain spelling), real typed decoding vs Lean `decode`, and the spec "same leaf from both sources"

LEAF_DEFAULT = {"string": "", "int": 0, "bool": False, "text": "0s"}


def leaf_expect(typ, leaf):
    """what the harness shows for a model leaf (None: the model does not say)"""
    if leaf == "unsupported" or isinstance(leaf, dict):
        return None
    if leaf == "zero":
        return LEAF_DEFAULT[typ]
    return leaf


def leaf_field(r, field):
    if isinstance(r, list) and len(r) == 1:
        r = r[0]
        if isinstance(r, dict):
            return r.get(field, "")       # the optional pointer field: unset = empty
        return r
    return {"outcomes": r}


def leaf_stream(R, exe, quads):
    st = collections.Counter()
    raws = sorted({e[0][1] for _, _, _, _, e in ((t, f, v, fc, ec["env"]) for t, f, v, fc, ec in quads)})
    ys = vlib.run_cases([exe], [{"fam": "config", "op": "yaml", "raw": raws}])[0]
    if not isinstance(ys, list) or len(ys) != len(raws):
        R.violation("values stream: the harness does not report YAML readings", {"impl": ys}, no_input=True)
        return st, set()
    reading = dict(zip(raws, ys))
    icases, mcases = [], []
    for typ, field, v, fc, ec in quads:
        icases += [fc, ec]
        y = reading[ec["env"][0][1]]
        mcases.append({"fam": "config", "op": "leaf", "type": typ, "scalar": y, "value": v})
    impl = run_parallel([exe], icases)
    model = vlib.run_cases(vlib.driver_cmd(), mcases)
    nontriv = set()
    shown = 0
    for k, (typ, field, v, fc, ec) in enumerate(quads):
        fi, ei = leaf_field(impl[2 * k], field), leaf_field(impl[2 * k + 1], field)
        m = model[k]
        st["value_cases"] += 1
        if not isinstance(m, dict) or "res" not in m:
            st["model_skipped"] += 1          # a reading outside the model (collection, timestamp)
            continue
        me, mf = leaf_expect(typ, m["res"]), leaf_expect(typ, m["stats"]["file"])
        faithful = m["stats"]["faithful"]
        raw = ec["env"][0][1]
        y = reading[raw]
        if y != raw:
            nontriv.add((typ, field, raw))
        payload = {"kind": "leaf", "type": typ, "field": field, "value": v, "file_case": fc, "env_case": ec,
                   "yaml_reading": y, "impl_file": fi, "impl_env": ei, "model_env": m["res"], "model_file": m["stats"]["file"]}
        bad = None
        if typ != "text":
            if mf is not None and fi != mf:
                bad = f"the file value {json.dumps(v)} of a {typ} property arrives as {json.dumps(fi)}, the decoding model says {json.dumps(mf)}"
            elif me is not None and ei != me:
                bad = (f"the environment value {raw} (YAML reads {json.dumps(y)}) of a {typ} property arrives as "
                       f"{json.dumps(ei)}, the decoding model says {json.dumps(me)}")
        if bad is None and ei != fi:
            if typ == "string" and not faithful and me is not None and ei == me:
                st["known_retyped"] += 1
                R.known_hits[KNOWN_RETYPED] = R.known_hits.get(KNOWN_RETYPED, 0) + 1
            else:
                bad = (f"{typ} property: the file value {json.dumps(v)} gives {json.dumps(fi)}, its plain spelling {raw} "
                       f"in the environment gives {json.dumps(ei)}")
        elif bad is None:
            st["equal_" + typ] += 1
            if me is None:
                st["model_silent"] += 1
        if bad is not None:
            st["violations"] += 1
            if shown < 4:
                shown += 1
                R.violation("values stream: " + bad, payload)
    return st, nontriv


# ---------------------------------------------------------------------------------------------------------------
# stream 5b: one text of a variable for one leaf of every kind (string, int, bool, duration, list element, typed member
# of a structure in a list, member of a free-form map; top level and below list entries) where the FILE defines the
# leaf with another value (F), where only the DEFAULTS define it (D) and where nothing defines it (N); R / RD: the
# file says the very text at that place. Spec: the environment wins for exactly that leaf (F gives what N gives, the
# sibling leaf of the file stays), file and environment are equivalent (R gives what N gives, RD what D gives).
# Model: Lean loader model followed by the Lean decoding model (driver op `leafload`).

ZERO = {"string": "", "int": 0, "bool": False, "text": "0s", "any": None}


def site_leaf(r, path):
    """the leaf at `path` in what the harness shows for the typed probe; a failed load is its own leaf"""
    if not (isinstance(r, list) and len(r) == 1):
        return {"outcomes": r}
    r = r[0]
    if not isinstance(r, dict):
        return r                                    # "err:decode", "panic", ...
    if path[0] == "n":
        return r.get("n." + path[1])
    if path == ["p"]:
        return r.get("p", "")                       # the optional pointer field: unset = empty
    node = r
    for seg in path:
        if isinstance(seg, int):
            node = node[seg] if isinstance(node, list) and seg < len(node) else None
        else:
            node = node.get(seg) if isinstance(node, dict) else None
    return node


def site_expect(typ, leaf, default):
    """what the harness shows for a model leaf; (False, _) when the model does not say"""
    if leaf == "zero":
        return True, (default if default is not None else ZERO[typ])
    if leaf == "unsupported" or (isinstance(leaf, dict) and "text" in leaf):
        return False, None
    if isinstance(leaf, dict) and "raw" in leaf:
        return True, leaf["raw"]
    return True, leaf                                # a value, "err:decode" or "panic"


def site_judge(site, obs, model=None):
    """(violations, known) for one site/text. obs: scenario -> observed leaf (and "sib": sibling leaf under F)"""
    bad, known = [], 0
    path, typ, text = site["path"], site["type"], site["text"]
    where = ".".join(map(str, path))
    what = f"{typ} property {where}, variable value {json.dumps(text)}"
    nil_elem = isinstance(path[-1], int) and site.get("reading", "?") is None
    if model is not None:
        for sc, dflt in (("N", None), ("F", None), ("D", site["default"])):
            if sc in obs and sc in model:
                says, exp = site_expect(typ, model[sc], dflt)
                if says and vlib.canon(obs[sc]) != vlib.canon(exp):
                    bad.append(f"{what}: the loaded leaf is {json.dumps(obs[sc])}, the proved model says {json.dumps(exp)} "
                               f"({'file defines ' + json.dumps(site['other']) if sc == 'F' else 'defaults define the leaf' if sc == 'D' else 'nothing else defines the leaf'})")
    if vlib.canon(obs["F"]) != vlib.canon(obs["N"]):
        if nil_elem and vlib.canon(obs["F"]) == vlib.canon(site["other"]):
            known += 1          # a nil value for a list position changes nothing: C20-nil-list-element, exactly that
        else:
            bad.append(f"{what}: the environment does not win over the file: the file says {json.dumps(site['other'])}, the "
                       f"result is {json.dumps(obs['F'])}; without the file the variable gives {json.dumps(obs['N'])}")
    if not isinstance(obs["F"], (str,)) or not str(obs["F"]).startswith(("err:", "panic")):
        if "sib" in obs and vlib.canon(obs["sib"]) != vlib.canon(site["sibling"][1]):
            bad.append(f"{what}: the variable changes another leaf: {'.'.join(map(str, site['sibling'][0]))} of the file is "
                       f"{json.dumps(site['sibling'][1])}, loaded {json.dumps(obs['sib'])}")
    for a, b in (("R", "N"), ("RD", "D")):
        if a in obs and b in obs and obs[a] != "err:configuration" and vlib.canon(obs[a]) != vlib.canon(obs[b]):
            bad.append(f"{what}: the same text in the file{' (over defaults)' if a == 'RD' else ''} gives "
                       f"{json.dumps(obs[a])}, in the environment {json.dumps(obs[b])}")
    return bad, known


def site_observe(exe, site):
    order = sorted(site["impl"])
    out = vlib.run_cases([exe], [site["impl"][k] for k in order])
    obs = {k: site_leaf(r, site["path"]) for k, r in zip(order, out)}
    obs["sib"] = site_leaf(out[order.index("F")], site["sibling"][0])
    return obs


def site_stream(R, exe):
    st = collections.Counter()
    sites = gen_config.site_cases()
    texts = sorted({s["text"] for s in sites})
    ys = vlib.run_cases([exe], [{"fam": "config", "op": "yaml", "raw": texts}])[0]
    if not isinstance(ys, list) or len(ys) != len(texts):
        R.violation("values stream: the harness does not report YAML readings", {"impl": ys}, no_input=True)
        return st, set()
    reading = dict(zip(texts, ys))
    icases, index, mcases, mindex = [], [], [], []
    for k, s in enumerate(sites):
        s["reading"] = reading[s["text"]]
        for sc in sorted(s["impl"]):
            index.append((k, sc))
            icases.append(s["impl"][sc])
        name = s["impl"]["N"]["env"][0][0]
        env = [[name, s["text"], s["reading"]]]
        base = {"fam": "config", "op": "leafload", "type": s["type"], "path": s["path"], "env": env}
        for sc in ("N", "D"):
            if sc in s["impl"]:
                mindex.append((k, sc))
                mcases.append(base)
        mindex.append((k, "F"))
        mcases.append(dict(base, file=json.dumps(s["file_tree"])))
    iout = run_parallel([exe], icases)
    mout = vlib.run_cases(vlib.driver_cmd(), mcases)
    obs = [dict() for _ in sites]
    raw = [dict() for _ in sites]
    for (k, sc), r in zip(index, iout):
        obs[k][sc] = site_leaf(r, sites[k]["path"])
        raw[k][sc] = r
    for k, s in enumerate(sites):
        obs[k]["sib"] = site_leaf(raw[k]["F"], s["sibling"][0])
    model = [dict() for _ in sites]
    for (k, sc), m in zip(mindex, mout):
        if isinstance(m, dict) and "res" in m:
            model[k][sc] = m["res"]
        else:
            st["site_model_skipped"] += 1         # a reading outside the model (timestamp)
    nontriv = set()
    shown = 0
    for k, s in enumerate(sites):
        st["site_cases"] += 1
        st["site_loads"] += len(s["impl"])
        bad, known = site_judge(s, obs[k], model[k])
        if s["reading"] is None:
            st["site_nil_values"] += 1
        if s["reading"] != s["text"]:
            nontriv.add((tuple(s["path"]), s["text"]))
        if known:
            st["known_nil_element"] += known
            R.known_hits[KNOWN_NIL_ELEM] = R.known_hits.get(KNOWN_NIL_ELEM, 0) + known
        if bad:
            st["site_violations"] += 1
            if shown < 4:
                shown += 1
                R.violation("values stream: " + bad[0],
                            {"kind": "site", "site": {x: s[x] for x in s if x != "impl"}, "cases": s["impl"],
                             "impl": {x: obs[k][x] for x in obs[k]}, "model": model[k], "all": bad})
        else:
            st["site_ok_" + s["type"]] += 1
    return st, nontriv


# ---------------------------------------------------------------------------------------------------------------
# stream 5c: dialect. Three places let a YAML decoder decide what a text means: ValidateConfig (the FILE, for the JSON
# schema), koanfFromYaml (the FILE, for the merge) and toRealType (the text of a VARIABLE). The property needs them to
# agree (c20_validator_reads_like_loader: in the model they are one function, `readText`); here the real three are asked
# for every text of the pool and compared with each other and with the model, and every text is written UNQUOTED into
# the file at string options of the real Configuration and loaded with the real validation, against the same text
# given by a variable (Lean: fileOutcomeOf / envOutcomeOf).

def scalar_class(y):
    """the JSON type the schema sees for a reading as the harness reports it"""
    if isinstance(y, bool):
        return "boolean"
    if isinstance(y, str):
        return "string"
    if isinstance(y, int):
        return "integer"
    if isinstance(y, dict) and "$float" in y:
        t = y["$float"].lstrip("-")
        return "integer" if t.isdigit() else "other"
    if isinstance(y, dict) and "$unreadable" in y:
        return "unreadable"
    return "other"


def sig_digits(text):
    return len("".join(ch for ch in text.split("e")[0].split("E")[0] if ch.isdigit()).strip("0"))


def same_reading(text, impl, model):
    """does the reading of the model equal the one of a real decoder? The text of a float is modelled exactly for up
    to 15 significant digits, beyond that the kind is compared"""
    if vlib.canon(impl) == vlib.canon(model):
        return True
    return isinstance(impl, dict) and isinstance(model, dict) and "$float" in impl and "$float" in model and \
        sig_digits(text) > 15


def validator_substitutes():
    """does ValidateConfig resolve `${var}` references as the loader does (fixes/C20-3.patch)? Read off the source."""
    try:
        with open(os.path.join(vlib.REPO, "internal", "config", "validator.go")) as fh:
            return "envsubst.EvalEnv" in fh.read()
    except OSError:
        return False


def unsubstituted_validation(text, e):
    """the defect fixes/C20-3.patch repairs, exactly: the file refers to an environment variable, the loader resolves the
    reference, the validation judged the text of the reference itself (a string) - and the source of ValidateConfig does
    not resolve references"""
    # fix C20-3 is applied in /repo (recorded under `fixed` in known_findings.json): nothing is pending any more, the
    # behaviour before the fix is a violation like any other
    return False


def reading_verdict(text, e, m, twin=None):
    """None, or what is wrong with the readings of one text. e: harness entry {env, file, validator}; m: model entry
    (for a text with a `${var}` reference: of the text after the substitution); twin: (text, harness entry) of the text
    that says the contents of the referenced variables literally"""
    fcls = scalar_class(e["file"])
    q = json.dumps(text)
    subst = text in gen_config.DIALECT_SUBST
    if fcls == "unreadable":
        if e["validator"] != "unreadable":
            return f"the loader cannot read the file saying {q} but the validation of the file reads it ({e['validator']})"
        return None
    if e["validator"] != fcls:
        return (f"the validation of the file reads the text {q} as {e['validator']}, the loader reads {json.dumps(e['file'])} "
                f"({fcls}): the schema judges another value than the one that is loaded")
    if not subst and vlib.canon(e["env"]) != vlib.canon(e["file"]):
        return (f"the text {q} is read as {json.dumps(e['file'])} in the file and as {json.dumps(e['env'])} in an "
                f"environment variable")
    if twin is not None and scalar_class(twin[1]["file"]) != "unreadable":
        # the file that refers to a variable against the file that says the contents literally at the same place and
        # against the property's own variable carrying that text (c20_quoted_reference_is_string,
        # c20_plain_reference_reads_as_variable)
        tq = json.dumps(twin[0])
        if vlib.canon(e["file"]) != vlib.canon(twin[1]["file"]):
            return (f"the file saying {q} (a reference to an environment variable) is read as {json.dumps(e['file'])}, the "
                    f"file saying the contents literally, {tq}, as {json.dumps(twin[1]['file'])}")
        if vlib.canon(e["file"]) != vlib.canon(twin[1]["env"]):
            return (f"the file saying {q} (a reference to an environment variable) is read as {json.dumps(e['file'])}, the "
                    f"property's own variable carrying {tq} as {json.dumps(twin[1]['env'])}")
    if m is not None and m.get("modelled"):
        if subst and m.get("substituted") != gen_config.DIALECT_SUBST[text]:
            return (f"generator and model disagree about the file after its references are resolved: {q} -> "
                    f"{json.dumps(gen_config.DIALECT_SUBST[text])} (generator), {json.dumps(m.get('substituted'))} (model)")
        if not same_reading(text, e["file"], m["reading"]):
            return (f"the loader reads the text {q} as {json.dumps(e['file'])}, the proved reading model says "
                    f"{json.dumps(m['reading'])}")
        if m["validator"] != e["validator"]:
            return (f"the validation of the file sees {e['validator']} for the text {q}, the proved reading model says "
                    f"{m['validator']}")
    return None


def reading_stream(R, exe, texts):
    st = collections.Counter()
    # the twins of the texts that refer to variables (what the file says literally) are read too
    texts = list(dict.fromkeys(list(texts) + [gen_config.DIALECT_SUBST[t] for t in texts if t in gen_config.DIALECT_SUBST]))
    impl = vlib.run_cases([exe], [{"fam": "config", "op": "readings", "raw": texts, "refs": gen_config.REFS}])[0]
    # the model resolves the references itself (Config.substitute) and reads what the file then says
    model = vlib.res_of(vlib.run_cases(vlib.driver_cmd(), [{"fam": "config", "op": "dialect", "type": "string",
                                                           "want": "string", "texts": texts,
                                                           "refs": gen_config.REFS}])[0])
    if not isinstance(impl, list) or len(impl) != len(texts) or not isinstance(model, list) or len(model) != len(texts):
        R.violation("dialect: harness or driver do not report readings", {"impl": impl, "model": model}, no_input=True)
        return st, set(), {}
    nontriv = set()
    shown = 0
    by_text = dict(zip(texts, impl))
    for t, e, m in zip(texts, impl, model):
        st["reading_texts"] += 1
        st["reading_" + scalar_class(e["file"])] += 1
        if not m.get("modelled"):
            st["reading_beyond_model"] += 1
        twin = None
        if t in gen_config.DIALECT_SUBST:
            st["reading_references"] += 1
            if t[:1] in "\"'":
                st["reading_references_quoted"] += 1
            tw = gen_config.DIALECT_SUBST[t]
            twin = (tw, by_text[tw])
        why = reading_verdict(t, e, m, twin)
        if why is None:
            if e["file"] != t:
                nontriv.add(("reading", t))
            continue
        if unsubstituted_validation(t, e):
            st["reading_unsubstituted_validation"] += 1
            R.known_hits[PENDING_SUBST] = R.known_hits.get(PENDING_SUBST, 0) + 1
            continue
        st["reading_violations"] += 1
        if shown < 3:
            shown += 1
            R.violation("dialect: " + why, dict({"kind": "reading", "text": t, "impl": e, "model": m},
                                                **({"refs": gen_config.REFS, "twin": twin[0], "impl_twin": twin[1]} if twin else {})))
    return st, nontriv, {t: m for t, m in zip(texts, model)}


def dialect_leaf_of(r):
    """what one load shows at the leaf: the scalar, or the error kind"""
    if isinstance(r, list) and len(r) == 1:
        r = r[0]
        if isinstance(r, dict) and "leaf" in r:
            return True, r["leaf"]
        if isinstance(r, str) and r.startswith("err:schema"):
            r = "err:schema"              # below a oneOf the message also lists what the other alternatives miss
        return False, r
    return False, {"outcomes": r}


def dump_norm(y):
    """the leaf is read off the dumped configuration (YAML written and read again): a float without a fraction comes
    back as the integer"""
    if isinstance(y, dict) and "$float" in y and y["$float"].lstrip("-").isdigit():
        return int(y["$float"])
    return y


def dialect_expect(m, default):
    """what the harness shows for an outcome of the model; (says, usable, leaf)"""
    if m == "rejected":
        return True, False, "err:schema"
    if m == "err:decode":
        return True, False, "err:decode"
    if m == "zero":
        return True, True, default
    if isinstance(m, dict) and "raw" in m:
        return True, True, m["raw"]
    if isinstance(m, (str, int, bool)) and m not in ("unsupported", "beyond"):
        return True, True, m
    return False, None, None


def dialect_judge(c, obs, model):
    """(violation or None, known). obs: {"F","E","N"} -> (usable, leaf); model: entry of driver op `dialect` or None"""
    (fu, fl), (eu, el) = obs["F"], obs["E"]
    default = obs["N"][1] if obs["N"][0] else None
    what = f"{c['site']} ({'string field' if c['type'] == 'string' else 'member of a free-form map'}), text {json.dumps(c['text'])}"
    agrees = False
    if model is not None and model.get("modelled"):
        agrees = True
        for side, (u, l), m in (("the file saying the text" + (" (variables of the process: " + json.dumps(
                                     {k: v for k, v in c["file_case"].get("refs", {}).items() if k in c["text"]}) + ")"
                                     if "twin" in c else " unquoted"), (fu, fl), model["file"]),
                                ("a variable carrying " + (json.dumps(c["twin"]) if "twin" in c else "the text"),
                                 (eu, el), model["env"])):
            says, mu, ml = dialect_expect(m, default)
            if not says:
                agrees = False
                continue
            if u != mu or vlib.canon(dump_norm(l)) != vlib.canon(dump_norm(ml)):
                if u != mu or not same_reading(c["text"], l, ml):
                    return (f"{what}: {side} gives {json.dumps(l)}, the proved model says {json.dumps(ml)}"
                            + (" (the schema validation rejects a file the loader supports)" if l == "err:schema" and mu else "")), 0
    if fu != eu:
        if agrees and not model["string"]:
            return None, 1          # the loader does not read the text as the string written: C20-env-value-retyped
        return (f"{what}: usable from {'the file' if fu else 'the environment'} ({json.dumps(fl if fu else el)}) but not "
                f"from {'the environment' if fu else 'the file'} ({json.dumps(el if fu else fl)})"), 0
    if fu and vlib.canon(fl) != vlib.canon(el):
        return f"{what}: the file gives {json.dumps(fl)}, the environment {json.dumps(el)}", 0
    return None, 0


def dialect_observe(exe, c):
    out = vlib.run_cases([exe], [c["file_case"], c["env_case"], c["default_case"]])
    return {"F": dialect_leaf_of(out[0]), "E": dialect_leaf_of(out[1]), "N": dialect_leaf_of(out[2])}


def dialect_stream(R, exe, readings):
    st = collections.Counter()
    cases = gen_config.dialect_cases()
    texts = sorted({c["text"] for c in cases})
    model = {}
    for typ in ("string", "any"):
        out = vlib.res_of(vlib.run_cases(vlib.driver_cmd(), [{"fam": "config", "op": "dialect", "type": typ, "want": "string",
                                                             "texts": texts, "refs": gen_config.REFS}])[0])
        if not isinstance(out, list) or len(out) != len(texts):
            R.violation("dialect: the driver does not answer", {"model": out}, no_input=True)
            return st, set()
        for t, o in zip(texts, out):
            if t in gen_config.REF_TWINS and o.get("modelled") and o.get("substituted") != gen_config.REF_TWINS[t]:
                R.violation("dialect: generator and model disagree about the file after its references are resolved",
                            {"text": t, "generator": gen_config.REF_TWINS[t], "model": o}, no_input=True)
        model[typ] = dict(zip(texts, out))
    icases, index = [], []
    defaults = {}
    for k, c in enumerate(cases):
        for sc in ("file_case", "env_case"):
            index.append((k, sc))
            icases.append(c[sc])
        if c["site"] not in defaults:
            defaults[c["site"]] = len(icases)
            index.append((k, "default_case"))
            icases.append(c["default_case"])
    iout = run_parallel([exe], icases)
    per = [dict() for _ in cases]
    dflt = {}
    for (k, sc), r in zip(index, iout):
        per[k][sc] = dialect_leaf_of(r)
        if sc == "default_case":
            dflt[cases[k]["site"]] = per[k][sc]
    nontriv = set()
    shown = 0
    for k, c in enumerate(cases):
        obs = {"F": per[k]["file_case"], "E": per[k]["env_case"], "N": dflt[c["site"]]}
        m = model[c["type"]][c["text"]]
        st["dialect_cases"] += 1
        st["dialect_loads"] += 2
        if "twin" in c:
            st["dialect_reference_cases"] += 1
        bad, known = dialect_judge(c, obs, m)
        if known:
            st["dialect_known_retyped"] += 1
            R.known_hits[KNOWN_RETYPED] = R.known_hits.get(KNOWN_RETYPED, 0) + 1
        if bad is None:
            st["dialect_file_" + ("usable" if obs["F"][0] else "rejected")] += 1
            if not m.get("string") or (obs["F"][0] and c["text"][:1] not in "\"'"):
                nontriv.add((c["site"], c["text"]))
            continue
        st["dialect_violations"] += 1
        if shown < 4:
            shown += 1
            R.violation("values stream (dialect): " + bad,
                        {"kind": "dialect", "case": c, "impl": {x: list(obs[x]) for x in obs}, "model": m})
    return st, nontriv


# ---------------------------------------------------------------------------------------------------------------
# stream 6: histories. Several NewConfiguration loads in ONE process; every result must be what the same load gives
# as the first load of a fresh process (the model is a function of file + environment, `c20_history_independent`),
# and a configuration returned earlier must not change by later loads

def fresh_results(exe, loads, workers=6):
    out = [None] * len(loads)

    def work(k):
        for i in range(k, len(loads), workers):
            r = vlib.run_cases([exe], [{"fam": "config", "op": "history", "loads": [loads[i]]}])[0]
            out[i] = r["then"][0] if isinstance(r, dict) and "then" in r else {"crash": r}
    ths = [threading.Thread(target=work, args=(k,)) for k in range(workers)]
    for t in ths:
        t.start()
    for t in ths:
        t.join()
    return out


def history_verdict(exe, h):
    """None, or (description, index)"""
    r = vlib.run_cases([exe], [h])[0]
    if not (isinstance(r, dict) and "then" in r):
        return ("the harness fails on a history: " + json.dumps(r)[:200], 0, r, None)
    fresh = fresh_results(exe, h["loads"])
    for i, (t, f) in enumerate(zip(r["then"], fresh)):
        if vlib.canon(t) != vlib.canon(f):
            d = leaf_delta(f, t) if isinstance(t, dict) and isinstance(f, dict) else [f if isinstance(f, str) else "tree", t if isinstance(t, str) else "tree"]
            return (f"load {i + 1} of a process gives another configuration than the same load in a fresh process "
                    f"(what earlier loads defined shows up): [path, fresh, in history] {json.dumps(d)[:300]}", i, r, fresh)
    for i, (t, n) in enumerate(zip(r["then"], r["now"])):
        if vlib.canon(t) != vlib.canon(n):
            d = leaf_delta(t, n) if isinstance(t, dict) and isinstance(n, dict) else []
            return (f"the configuration returned by load {i + 1} changed while later configurations were loaded: "
                    f"[path, then, now] {json.dumps(d)[:300]}", i, r, fresh)
    return None


def history_shrink(exe, h):
    def fails(loads):
        return bool(loads) and history_verdict(exe, dict(h, loads=loads)) is not None
    loads = vlib.ddmin(h["loads"], fails)
    # shrink the environment and the file of every load
    for i in range(len(loads)):
        def fails_env(env, i=i):
            l2 = copy.deepcopy(loads)
            l2[i]["env"] = env
            return fails(l2)
        if len(loads[i].get("env", [])) > 1:
            loads[i]["env"] = vlib.ddmin(loads[i]["env"], fails_env)
        if "file" in loads[i]:
            tree = json.loads(loads[i]["file"])
            ls = list(gen_config.leaves(tree))

            def fails_file(sub, i=i):
                if not sub:
                    return False
                l2 = copy.deepcopy(loads)
                l2[i]["file"] = json.dumps(gen_config.build(sub))
                return fails(l2)
            if len(ls) > 1 and fails_file(ls):
                loads[i]["file"] = json.dumps(gen_config.build(vlib.ddmin(ls, fails_file)))
    return dict(h, loads=loads)


def history_stream(R, exe, hs):
    st = collections.Counter()
    nontriv = set()
    out = run_parallel([exe], hs, workers=4)
    all_loads = [l for h in hs for l in h["loads"]]
    fresh = fresh_results(exe, all_loads)
    pos = 0
    shown = 0
    for h, r in zip(hs, out):
        k = len(h["loads"])
        fr = fresh[pos:pos + k]
        pos += k
        st["histories"] += 1
        st["history_loads"] += k
        ok = isinstance(r, dict) and "then" in r and all(vlib.canon(a) == vlib.canon(b) for a, b in zip(r["then"], fr)) \
            and all(vlib.canon(a) == vlib.canon(b) for a, b in zip(r["then"], r["now"]))
        if ok:
            if sum(1 for l in h["loads"] if "cache" in (l.get("file") or "") or any("CACHE_CONFIG" in e[0] for e in l["env"])) >= 1 \
                    and len({vlib.canon(t) for t in r["then"]}) >= 2:
                nontriv.add(vlib.case_hash(h))
            st["loads_failing_alike"] += sum(1 for t in r["then"] if isinstance(t, str))
            continue
        st["violations"] += 1
        if shown < 2:
            shown += 1
            sh = history_shrink(exe, h)
            v = history_verdict(exe, sh) or history_verdict(exe, h)
            if v is None:
                sh, v = h, ("a history differs from fresh loads (not reproduced on a second run)", 0, r, fr)
            R.violation("history stream: " + v[0], {"kind": "history", "case": sh, "impl_history": v[2], "impl_fresh": v[3]})
    return st, nontriv


# ---------------------------------------------------------------------------------------------------------------
# corpus

def corpus_cases():
    loads, groups, hists = [], [], []
    for c in vlib.load_corpus(PID):
        if c.get("kind") == "load":
            loads.append(c["case"])
        elif c.get("kind") == "cfg":
            groups.append(c)
        elif c.get("kind") == "history":
            hists.append(c["case"])
    return loads, groups, hists


def corpus_groups(R, exe, groups, st):
    for g in groups:
        cfg = g["config"]
        case = g["case"]
        (base, rs), = l2_eval(exe, [(cfg, [([], dict(case, fam="config", op="cfg"))])])
        _, _, r, va = rs[0]
        exp = g.get("expect", "equal")
        st["corpus_groups"] += 1
        if exp == "equal":
            if not is_tree(base):
                R.violation("corpus: the complete file no longer loads: " + g.get("name", ""),
                            {"kind": "cfg-base", "config": cfg, "impl_file": base})
                continue
            v = l2_verdict(base, r, va, plan_has_nil(case))
            if v not in ("ok",):
                R.violation(f"corpus {g.get('name', '')}: " + (v if v != "known" else "file part rejected"),
                            {"kind": "cfg", "config": cfg, "case": case, "impl_complete_file": base, "impl_split": r})
        elif exp == "retyped":
            if not is_tree(base):
                R.violation("corpus: the complete file no longer loads: " + g.get("name", ""),
                            {"kind": "cfg-base", "config": cfg, "impl_file": base})
            elif vlib.canon(r) == vlib.canon(base):
                st["corpus_retyped_now_equal"] += 1     # the finding is gone: fine for the property
            elif is_tree(r) and sorted(map(vlib.canon, leaf_delta(base[0], r[0], 50))) == sorted(map(vlib.canon, g["retyped"])):
                R.known_hits[KNOWN_RETYPED] = R.known_hits.get(KNOWN_RETYPED, 0) + 1
                st["corpus_known_retyped"] += 1
            else:
                R.violation(f"corpus {g.get('name', '')}: " + l2_verdict(base, r, va),
                            {"kind": "cfg", "config": cfg, "case": case, "impl_complete_file": base, "impl_split": r})
        elif exp == "known":
            v = l2_verdict(base, r, va) if is_tree(base) else "base fails"
            if v == "known":
                R.known_hits[KNOWN] = R.known_hits.get(KNOWN, 0) + 1
                st["corpus_known"] += 1
            elif v == "ok":
                st["corpus_known_now_equal"] += 1     # the finding is gone: fine for the property
            else:
                R.violation(f"corpus {g.get('name', '')}: {v}",
                            {"kind": "cfg", "config": cfg, "case": case, "impl_complete_file": base, "impl_split": r})


# ---------------------------------------------------------------------------------------------------------------

def run(R):
    quick = R.tier == "quick"
    os.environ["TMPDIR"] = R.tmp          # configuration files the harness writes live under the run's directory
    # the harness first: the options inside the mechanisms' `config` are measured on the running code and the measured
    # table is part of the generated module the theorems are checked against
    exe = vlib.step_harness(R)
    facts = extract(R, write=False) if exe is not None else extract(R)
    mrows, st3b, mprobes = None, collections.Counter(), {}
    if exe is not None and facts is not None:
        mrows, st3b, mprobes = mech_measure(R, exe, facts)
    lean_ok = False
    # generated module and build under one lock: other checks' clean-up (`git checkout -- lean/HeimdallModel/Gen`) and
    # parallel C20 runs against other trees rewrite the same file
    with vlib.LeanLock():
        if exe is not None and facts is not None:
            facts = extract(R, measured=mrows)
        if facts is not None:
            lean_ok = vlib.step_lean(R, PID)
    if facts is None:
        R.coverage.update({"obligations": 1, "discharged": 0, "checker_cmd": "lake build HeimdallModel.Props.C20",
                           "trusted_base": list(vlib.TRUSTED_BASE)})
    if exe is None:
        R.violation("harness does not build against /repo (API used by the correspondence check changed)",
                    {"build_log": R.harness_log[-3000:]}, no_input=True)
        return
    if not os.path.exists(vlib.driver_cmd()[0]):
        R.violation("the model driver does not build", {"lean_log": getattr(R, "lean", {}).get("log", "")[-3000:]},
                    no_input=True)
        return
    loads, groups, hists = corpus_cases()
    n1 = 2000 if quick else 40000
    n2 = 100 if quick else 1200
    cases = loads + [gen_config.gen_load_case(R.rng) for _ in range(n1)]
    n_l1, nt1, st1, bad1, sample1 = l1_stream(R, exe, cases, "tree stream")
    required = l2_required_names()
    # dialect: the readings first (the strings planted unquoted into the files of the typed stream are those the model
    # reads as the string written)
    dtexts = list(dict.fromkeys(gen_config.DIALECT_POOL + gen_config.DIALECT_STRINGS + gen_config.DIALECT_FIDELITY
                                + list(gen_config.DIALECT_SUBST)
                                + [c["text"] for c in vlib.load_corpus(PID) if c.get("kind") == "reading"]))
    st6, nt6, dmodel = reading_stream(R, exe, dtexts)
    strings = [t for t in gen_config.DIALECT_STRINGS if dmodel.get(t, {}).get("reading") == t]
    if len(strings) != len(gen_config.DIALECT_STRINGS):
        R.violation("dialect: the reading model no longer reads the planted texts as strings (generator or model defect, "
                    "theorem c20_dialect_words_are_strings says it does)",
                    {"texts": [t for t in gen_config.DIALECT_STRINGS if t not in strings]}, no_input=True)
    st2, nt2, sample2 = l2_stream(R, exe, n2, required, strings or None)
    corpus_groups(R, exe, groups, st2)
    st3 = schema_stream(R, exe, facts) if facts is not None else collections.Counter()
    if facts is not None and mrows is not None:
        mech_stream(R, exe, facts, mrows, mprobes, st3b)
    corpus_mech(R, exe, [c for c in vlib.load_corpus(PID) if c.get("kind") == "mech"], st3b)
    st3.update(st3b)
    st4, nt4 = leaf_stream(R, exe, gen_config.leaf_cases())
    st4b, nt4b = site_stream(R, exe)
    st4.update(st4b)
    nt4 |= nt4b
    st6b, nt6b = dialect_stream(R, exe, dmodel)
    st6.update(st6b)
    nt6 |= nt6b
    n5 = 40 if quick else 400
    st5, nt5 = history_stream(R, exe, hists + [gen_config.gen_history(R.rng) for _ in range(n5)])
    R.coverage.update({
        "evaluations": n_l1 + st2["loads"] + st2["groups"] + 2 * st3["types_checked"] + st3["mech_probes"] + 2 * st4["value_cases"]
                       + st4["site_loads"] + 2 * st5["history_loads"] + st6["dialect_loads"] + 5 * st6["reading_texts"],
        "distinct_nontrivial": len(nt1) + len(nt2) + len(nt4) + len(nt5) + len(nt6),
        "rule": "tree stream: a random configuration tree (maps, lists of scalars, lists of structures, nested lists; "
                "scalars incl. strings that need quoting) whose leaves are distributed over defaults / file / "
                "environment with overlaps and conflicting values, variables named by the documented rule (some in "
                "mixed case), every load repeated over 4 enumeration orders x 3 runs on the real parser.Load and compared "
                "with Lean Config.load and with the leaf-wise spec; non-trivial = at least 2 variables, at least one of "
                "them inside a list, and a non-empty file or defaults. typed stream: a schema-valid configuration from a "
                "grammar over the real Configuration (services, cors, respond codes, all simple mechanism types, default "
                "rule, providers) loaded by the real NewConfiguration from the complete file and from 6 file/environment "
                "splits (all-env, override with conflicting values, optional leaves, random halves, list leaves); "
                "non-trivial = a split equal to the complete file whose environment part reaches into a list; "
                "distinct by hash of the case. values stream: every value shape (number-, bool-looking, non-canonical numerals, "
                "ordinary) for string / int / bool / duration leaves (top level, nested, pointer) from the file and in plain "
                "spelling from the environment through the real typed decoding, compared with Lean `decode` and with each other; "
                "non-trivial = YAML reads the spelling as something else than the text. nil values: in the tree stream about "
                "one variable in 14 has a value YAML reads as nil (empty, blanks, null, ~, Null, NULL, unreadable text), most "
                "of them for a leaf file or defaults define too, below the top level and below list entries, some at list "
                "positions (known finding C20-nil-list-element), and the file says null at some properties; in the typed "
                "stream every configuration is also loaded with 1-3 of the leaves of its complete file defined to be nil by "
                "the environment (reference: the configuration without them); in the values stream 19 texts (nil-like, "
                "true, yes, 0x10, 1e3, [], {}, quoted, with `: ` or `#`, `|`, `-`) x 13 leaves (string, int, bool, duration, "
                "pointer, list element, typed member of a structure in a list, member of a free-form map at the top and "
                "inside lists) are loaded where the file defines the leaf with another value, where only the defaults "
                "define it, where nothing defines it, and with the same text in the file; compared with each other "
                "(environment wins, sibling leaf stays, file = environment) and with the Lean loader + decoding model. "
                "dialect: every text of a pool of dialect-sensitive texts (YAML 1.1 booleans yes no on off y n in several "
                "cases, ~, null, 0o17, 017, 0x1F, 1_000, 1e3, .inf, .NaN, a date, <<, =, 1:30, their quoted forms, and ~120 "
                "neighbours: numerals of every base, limits of int64 / uint64 / float64, timestamps, near-misses) is read by "
                "the real ValidateConfig (probed with files that say the text where the schema wants a string / boolean / "
                "integer), the real koanfFromYaml and the real toRealType, compared with each other and with the Lean "
                "reading model; the 50 texts of the pool are written UNQUOTED into the file at 11 string options of the real "
                "Configuration (5 typed fields, 6 members of free-form mechanism / provider configs) and loaded by the real "
                "NewConfiguration with the schema validation, and given by a variable: file usable iff environment "
                "usable, same leaf, both as the Lean model (fileOutcomeOf / envOutcomeOf) says; non-trivial = a text some "
                "decoder does not read as written, or an unquoted text the file delivers; the typed stream plants such "
                "strings unquoted into complete files and file/environment splits. "
                "prefix: about 30 % of the tree cases, 25 % of the typed loads and of the history loads run under a prefix "
                "of their own (upper, lower, mixed case, without trailing underscore, with a dot, padded with blanks; the tree "
                "stream also the empty prefix in an emptied process environment) with the variables under their full names "
                "and foreign variables - named like real ones but for the case of letters of the prefix, a truncated or a "
                "shifted prefix, carrying conflicting values - in between (model: Config.selectEnv / loadP). "
                "mechanism options: every mechanism type is declared with ~100 candidate names (all mapstructure tags and "
                "map index literals of internal/rules, the names of the schema, zz_unknown) at every place the schema "
                "describes below its config; the real ValidateConfig and the real NewConfiguration + NewMechanismFactory "
                "(from variables) say which names they refuse; the measured table is the generated Lean table of "
                "c20_mech_tables_agree. "
                "history stream: 3-4 NewConfiguration "
                "loads (file / environment / override, cache.config leaves, services, mechanisms) in one process, every result "
                "compared with the same load in a fresh process and re-inspected after the later loads; non-trivial = a "
                "load defines cache.config leaves and the loads give different configurations",
        "value_stats": dict(st4), "history_stats": dict(st5), "dialect_stats": dict(st6),
        "tree_cases": n_l1, "tree_stats": dict(st1), "tree_disagreements": bad1,
        "typed_stats": dict(st2), "schema_stats": dict(st3),
        "corpus_cases": len(loads) + len(groups),
        "samples": [s for s in (sample1[0] if sample1 else None, sample2) if s is not None],
        "exhaustive": False,
        "generated_tables": None if facts is None else {
            "mechanism_types_schema": len(facts["schemaMechTypes"]), "mechanism_types_loader": len(facts["loaderMechTypes"]),
            "option_rows": len(facts["optionTable"]), "unread_service_fields": facts["unread"],
            "mechanism_option_rows_measured": None if mrows is None else len(mrows),
            "factories_ignoring_config": facts.get("ignoresConfig")},
        "known_finding_hits": dict(R.known_hits),
    })
    R.assumptions += [
        "typed decoding (mapstructure, decode hooks) is a parameter of the model: the tree stream observes the merged "
        "tree before decoding, the typed stream compares real Configuration values of related loads with each other",
        "values of environment variables are YAML scalars or nil in the tree model (a value YAML reads as a collection "
        "is covered by the values stream only, as the scalar kind `coll`); a nil value is the scalar Val.nil under a map "
        "key and a hole at a list position (Go cannot tell a nil slice entry from padding); the top level of the tree "
        "probe is a struct, nil values are generated below it; property names are lower case, without '.', not starting "
        "with '_' and not numeric (Spec.keyOk)",
        "the order in which the loader visits variables is a Go map order; the model folds in enumeration order and "
        "c20_perm proves the order irrelevant, the harness repeats every load to sample map orders",
        "the YAML reading of the text of an environment variable is taken from the real library (harness op yaml) and "
        "handed to the decoding model; mapstructure's weak decoding is modelled for string/int/bool leaves and canonical "
        "numerals, other combinations are compared between file and environment only",
        "the reading of a text as a YAML scalar (yaml.v3 resolve: words, integers of Go's strconv in every base, floats, "
        "timestamps) is modelled in Lean for one-line plain, single- and double-quoted texts without escapes; outside "
        "that fragment (collections, comments, tags, anchors, block scalars) the real decoders are only compared with "
        "each other; the text of a float is exact for up to 15 significant digits; what the validator reads is observed "
        "through the verdict of the real ValidateConfig on files that say the text where the schema wants a string, a "
        "boolean or an integer",
        "schema/loader tables cover mechanism and cache types, the option names of the static configuration structs and - "
        "measured on the running code - the option names inside a mechanism's `config` at every place the schema describes "
        "and the factory checks (places decoded by a hook of their own - endpoint `auth`, the extraction strategies of "
        "`*_source` - and the `config` of a cache are not in the table); a name outside the candidate pool is represented "
        "by `zz_unknown`; a factory that tolerates every name is taken to ignore its config only if its factory function "
        "ignores the parameter (read off the source); value constraints (patterns, required) are not in the tables",
        "the prefix is trimmed of blanks and tabs in the generated cases (strings.TrimSpace also removes other Unicode "
        "white space; the model lists the ASCII and Latin-1 ones); with an empty prefix the loader takes every variable of "
        "the process, generated for the tree stream only, in an emptied process environment",
    ]
    if facts is not None and not lean_ok:
        failed = "; ".join(R.lean["failed"])[:600]
        only_tables = "tables_agree" in json.dumps(R.lean.get("failed_theorems", [])) or "ablesAgree" in R.lean["log"]
        R.violation("theorems of Props/C20.lean no longer check"
                    + (" (schema and loader tables regenerated from the source disagree)" if only_tables else "") + ": " + failed,
                    {"lean_log": R.lean["log"][-3000:], "failed": R.lean["failed"], "theorems": R.lean.get("failed_theorems"),
                     "tables": {"schema_minus_loader": sorted(set(map(tuple, facts["schemaMechTypes"])) - set(map(tuple, facts["loaderMechTypes"]))),
                                "loader_minus_schema": sorted(set(map(tuple, facts["loaderMechTypes"])) - set(map(tuple, facts["schemaMechTypes"])))}},
                    no_input=True)


def replay(R, path):
    with open(path) as fh:
        p = json.load(fh)
    os.environ["TMPDIR"] = R.tmp
    exe = vlib.step_harness(R)
    R.coverage.update({"obligations": 1, "discharged": 1, "checker_cmd": "replay", "trusted_base": []})
    if exe is None:
        R.violation("harness does not build against /repo", {"build_log": R.harness_log[-3000:]}, no_input=True)
        return
    kind = p.get("kind")
    if kind == "load":
        c = p["case"]
        i = vlib.run_cases([exe], [c])[0]
        m = vlib.run_cases(vlib.driver_cmd(), [c])[0]
        print("impl :", json.dumps(i))
        print("model:", json.dumps(vlib.res_of(m)))
        why = l1_compare(c, i, m)
        if why:
            R.violation("replay: " + why, {"kind": "load", "case": c, "impl": i, "model": vlib.res_of(m)})
    elif kind == "cfg":
        cfg, case = p["config"], p["case"]
        (base, rs), = l2_eval(exe, [(cfg, [([], case)])])
        print("complete file:", json.dumps(base)[:300])
        print("split        :", json.dumps(rs[0][2])[:300])
        v = l2_verdict(base, rs[0][2], rs[0][3], plan_has_nil(case)) if is_tree(base) else "the complete file does not load"
        if v not in ("ok", "known"):
            R.violation("replay: " + v, {"kind": "cfg", "config": cfg, "case": case, "impl_complete_file": base, "impl_split": rs[0][2]})
    elif kind == "leaf":
        f, e = vlib.run_cases([exe], [p["file_case"], p["env_case"]])
        fi, ei = leaf_field(f, p["field"]), leaf_field(e, p["field"])
        print("from file       :", json.dumps(fi))
        print("from environment:", json.dumps(ei), " (model:", json.dumps(p.get("model_env")), ")")
        me = leaf_expect(p["type"], p.get("model_env"))
        if ei != fi and not (p["type"] == "string" and me is not None and ei == me and fi == leaf_expect(p["type"], p.get("model_file"))):
            R.violation("replay: the value arrives differently from file and environment", dict(p, impl_file=fi, impl_env=ei))
        elif me is not None and ei != me:
            R.violation("replay: the decoded value differs from the model", dict(p, impl_file=fi, impl_env=ei))
    elif kind == "site":
        site = dict(p["site"], impl=p["cases"])
        obs = site_observe(exe, site)
        for sc, what in (("N", "variable alone          "), ("F", "variable over the file   "), ("D", "variable over defaults   "),
                         ("R", "the text in the file     "), ("RD", "... over defaults        ")):
            if sc in obs:
                print(what, ":", json.dumps(obs[sc]))
        bad, known = site_judge(site, obs)
        if bad:
            R.violation("replay: " + bad[0], dict(p, impl=obs, all=bad))
    elif kind == "reading":
        refs = p.get("refs", gen_config.REFS)
        twin = None
        tw = p.get("twin", gen_config.DIALECT_SUBST.get(p["text"]))
        raw = [p["text"]] + ([tw] if tw is not None else [])
        es = vlib.run_cases([exe], [{"fam": "config", "op": "readings", "raw": raw, "refs": refs}])[0]
        e = es[0]
        if tw is not None:
            twin = (tw, es[1])
            print("variables of the process:", json.dumps({k: v for k, v in refs.items() if k in p["text"]}))
            print("literal twin            :", json.dumps(tw), "-> file", json.dumps(es[1]["file"]), ", variable", json.dumps(es[1]["env"]))
        print("text                    :", json.dumps(p["text"]))
        print("validation of the file  :", e["validator"])
        print("loader, from the file   :", json.dumps(e["file"]))
        print("loader, from a variable :", json.dumps(e["env"]))
        print("reading model           :", json.dumps((p.get("model") or {}).get("reading")))
        why = reading_verdict(p["text"], e, p.get("model"), twin)
        if why and unsubstituted_validation(p["text"], e):
            print("(the validation judged the unresolved reference: fixes/C20-3.patch)")
        elif why:
            R.violation("replay: " + why, dict(p, impl=e))
    elif kind == "dialect":
        c = p["case"]
        obs = dialect_observe(exe, c)
        print("file (text unquoted)    :", json.dumps(obs["F"][1]))
        print("environment variable    :", json.dumps(obs["E"][1]))
        print("without the leaf        :", json.dumps(obs["N"][1]))
        print("model (file, variable)  :", json.dumps((p.get("model") or {}).get("file")), json.dumps((p.get("model") or {}).get("env")))
        bad, known = dialect_judge(c, obs, p.get("model"))
        if bad:
            R.violation("replay: " + bad, {"kind": "dialect", "case": c, "impl": {x: list(obs[x]) for x in obs}, "model": p.get("model")})
    elif kind == "history":
        v = history_verdict(exe, p["case"])
        print("verdict:", v[0] if v else "every load equals its fresh-process twin, nothing changed afterwards")
        if v:
            R.violation("replay: " + v[0], {"kind": "history", "case": p["case"], "impl_history": v[2], "impl_fresh": v[3]})
    elif kind == "mech":
        fu, eu, f, e = mech_usable(exe, p["config"])
        print("from the file (validation, loader, catalogue creation)  :", json.dumps(f)[:200])
        print("from variables (loader, catalogue creation)             :", json.dumps(e)[:200])
        if p.get("expect") == "refused":
            if fu or eu:
                R.violation("replay: an option nobody reads is accepted", dict(p, impl_file=f, impl_env=e))
        elif fu != eu:
            R.violation("replay: the configuration is usable from " + ("the file" if fu else "environment variables") + " only",
                        dict(p, impl_file=f, impl_env=e))
    elif kind == "mechopt":
        s_ref, l_ref, cfg = mech_names_verdict(exe, p["category"], p["type"], p["place"], p["key"])
        print("the file validation refuses the name :", s_ref)
        print("the type factory refuses the name    :", l_ref)
        if s_ref != l_ref:
            R.violation("replay: file validation and type factory disagree about the option name",
                        dict(p, impl={"file_validation_refuses": s_ref, "factory_refuses": l_ref}))
    elif kind == "cfg-accepts-unknown":
        f = vlib.run_cases([exe], [gen_config.base_case(p["config"])])[0]
        print("from file:", json.dumps(f)[:200])
        if not is_err(f):
            R.violation("replay: the file validation accepts what the loader does not support", {"kind": kind, "config": p["config"]})
    elif kind in ("cfg-base", "cfg-ignored"):
        cfg = p["config"]
        pl = [{"path": list(q), "value": v, "env": True, "file": False, "file_value": v} for q, v in gen_config.leaves(cfg)]
        f, e = vlib.run_cases([exe], [gen_config.base_case(cfg), gen_config.plan_case(pl, None, rep=2)])
        print("from file       :", json.dumps(f)[:200])
        print("from environment:", json.dumps(e)[:200])
        if is_tree(f) != is_tree(e):
            R.violation("replay: the configuration is usable from one source only", {"kind": kind, "config": cfg, "impl_file": f, "impl_env": e})
    else:
        print("nothing to replay in", path)
