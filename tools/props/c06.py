"""C06 — after any rule-set history, matching equals a fresh load of the current rule sets."""
import json

import gen_repo
import repo_common as rc
import vlib

PID = "C06"


def current_sets(ops, results):
    """the rule sets in force after the applied operations (per source, in order of creation)"""
    cur = {}
    for op, res in zip(ops, results):
        if op["op"] == "find" or res != "ok":
            continue
        if op["op"] == "add":
            cur.setdefault(op["src"], [])
            cur[op["src"]] = cur[op["src"]] + op["rules"]
        elif op["op"] == "upd":
            cur.pop(op["src"], None)
            cur[op["src"]] = list(op["rules"])
        elif op["op"] == "del":
            cur.pop(op["src"], None)
    return cur


def fresh_case(case, results, upto):
    """companion case: the current rule sets after `upto` operations loaded once into an empty instance, followed
    by the lookups of the original case from `upto` up to the next rule-set operation"""
    ops = case["ops"]
    cur = current_sets(ops[:upto], results[:upto])
    probes = []
    k = upto
    while k < len(ops) and ops[k]["op"] == "find":
        probes.append(ops[k])
        k += 1
    fresh_ops = [{"op": "add", "src": s, "rules": r} for s, r in cur.items() if r] + probes
    return dict(case, ops=fresh_ops), upto, len(probes)


def canon_expr(e):
    """pattern of a route expression as the tree sees it (wildcard names erased, redundant escapes removed)"""
    out = []
    for seg in e.split("/"):
        if seg.startswith(":"):
            out.append(":")
        elif seg.startswith("*"):
            out.append("*")
            break
        elif len(seg) >= 2 and seg[0] == "\\" and seg[1] in "*:\\":
            out.append("L" + seg[1:])
        else:
            out.append("L" + seg)
    return tuple(out)


def has_alias(rules):
    seen = {}
    for r in rules:
        for rt in r["routes"]:
            k = (r["id"], canon_expr(rt["path"]))
            if k in seen and seen[k] != rt["path"]:
                return True
            seen.setdefault(k, rt["path"])
    return False


def removal_oracle(R, cases, impl):
    """SPEC: removing the version in force of a rule set never fails (C06: deleted / replaced versions never match
    again). A `del` must be applied; an `upd` rejected by the implementation must also be rejected when the same
    rules are added to a repository that does not hold the old version (i.e. the rejection is due to the new rules)."""
    n = 0
    for c, i in zip(cases, impl):
        if not isinstance(i, list):
            continue
        for k, (op, res) in enumerate(zip(c["ops"], i)):
            if op["op"] == "del" and res != "ok":
                n += 1
                cur = current_sets(c["ops"][:k], i[:k]).get(op["src"], [])
                if has_alias(cur):
                    R.known_hits["C06-backslash-alias"] = R.known_hits.get("C06-backslash-alias", 0) + 1
                else:
                    R.violation(f"DeleteRuleSet({op['src']}) was rejected ({res}); its rules keep matching",
                                {"case": dict(c, ops=c["ops"][:k + 1]), "impl": i[:k + 1],
                                 "kind": "impl-vs-spec"}, no_input=False)
    return n


def acceptance_oracle(R, exe, cases, impl):
    """SPEC: whether a change is accepted does not depend on the history — a creation or an update the implementation
    rejected has to be rejected as well when the rule sets in force (without the version being replaced) and the new
    rules are loaded into an empty instance. (A rejection caused by stale state of earlier versions passes the model
    comparison only if the model has the same defect.)"""
    fresh, meta = [], []
    for ci, (c, i) in enumerate(zip(cases, impl)):
        if not isinstance(i, list):
            continue
        for k, (op, res) in enumerate(zip(c["ops"], i)):
            if op["op"] in ("add", "upd") and res == "internal":
                cur = current_sets(c["ops"][:k], i[:k])
                if has_alias(cur.get(op["src"], [])):
                    continue
                if op["op"] == "upd":
                    cur.pop(op["src"], None)
                    cur[op["src"]] = list(op["rules"])
                else:
                    cur[op["src"]] = cur.get(op["src"], []) + op["rules"]
                fresh.append(dict(c, ops=[{"op": "add", "src": s, "rules": r} for s, r in cur.items() if r]))
                meta.append((ci, k))
    res = vlib.run_cases([exe], fresh)
    n = 0
    for fc, fr, (ci, k) in zip(fresh, res, meta):
        if isinstance(fr, list) and fr and all(x == "ok" for x in fr):
            n += 1
            if n <= 2:
                c = cases[ci]
                R.violation(f"a change was rejected because of the history: {c['ops'][k]['op']} of {c['ops'][k]['src']} "
                            "fails, while the rule sets in force and the new rules load into an empty instance",
                            {"case": dict(c, ops=c["ops"][:k + 1]), "impl": impl[ci][:k + 1], "fresh_case": fc,
                             "fresh_results": fr, "kind": "impl-history-vs-impl-fresh"}, no_input=False)
    return len(fresh)


def probe_points(case):
    ops = case["ops"]
    pts = []
    for k in range(1, len(ops)):
        if ops[k]["op"] == "find" and ops[k - 1]["op"] != "find":
            pts.append(k)
    return pts


def run(R):
    lean_ok = vlib.step_lean(R, PID)
    exe = vlib.step_harness(R)
    if exe is None:
        R.violation("harness does not build against /repo", {"build_log": R.harness_log[-3000:]}, no_input=True)
        return
    corpus = vlib.load_corpus(PID)
    n = 1500 if R.tier == "quick" else 120000
    cases = corpus + [gen_repo.gen_repo_case(R.rng, max_ops=14) for _ in range(n)]
    impl, model, nbad = rc.check_correspondence(R, exe, cases, "rule-set history")
    # SPEC oracle on the implementation itself: history vs fresh load of the current rule sets
    fresh, meta = [], []
    for ci, (c, i) in enumerate(zip(cases, impl)):
        if not isinstance(i, list) or len(i) != len(c["ops"]):
            continue
        for pt in probe_points(c):
            fc, upto, np_ = fresh_case(c, i, pt)
            if np_:
                fresh.append(fc)
                meta.append((ci, upto, np_))
    fimpl = vlib.run_cases([exe], fresh)
    mism = 0
    nontrivial = set()
    for fc, fi, (ci, upto, np_) in zip(fresh, fimpl, meta):
        orig = impl[ci][upto:upto + np_]
        got = fi[-np_:] if isinstance(fi, list) else fi
        adds_ok = isinstance(fi, list) and all(x == "ok" for x in fi[:-np_])
        nchanges = sum(1 for o in cases[ci]["ops"][:upto] if o["op"] in ("upd", "del"))
        if nchanges >= 1 and any(isinstance(x, dict) and x.get("rule") and not x["rule"].startswith("config/") for x in orig):
            nontrivial.add(vlib.case_hash(fc))
        if not adds_ok or vlib.canon(orig) != vlib.canon(got):
            mism += 1
            if mism <= 3:
                R.violation("matching after the history differs from a fresh load of the current rule sets: "
                            f"history {json.dumps(orig)[:300]} vs fresh {json.dumps(got)[:300]}",
                            {"case": cases[ci], "upto": upto, "fresh_case": fc, "history_results": impl[ci],
                             "fresh_results": fi, "kind": "impl-history-vs-impl-fresh"}, no_input=False)
    rejected_deletes = removal_oracle(R, cases, impl)
    acceptance_checks = acceptance_oracle(R, exe, cases, impl)
    st = rc.stats_sum(model)
    nops = {"add": 0, "upd": 0, "del": 0, "find": 0}
    rejected = 0
    live_hist = {0: 0, 1: 0, 2: 0, 3: 0}
    for c, i in zip(cases, impl):
        if isinstance(i, list):
            mx = 0
            for k in range(1, len(c["ops"]) + 1):
                mx = max(mx, sum(1 for v in current_sets(c["ops"][:k], i[:k]).values() if v))
            live_hist[min(mx, 3)] += 1
        for o, r in zip(c["ops"], i if isinstance(i, list) else []):
            nops[o["op"]] += 1
            if o["op"] != "find" and r != "ok":
                rejected += 1
    R.coverage.update({
        "evaluations": len(cases) + len(fresh), "distinct_nontrivial": len(nontrivial),
        "rule": "random rule-set histories (add/update/delete over 3 sources; rules unchanged/changed/reordered/added/"
                "removed, shared expressions, duplicate ids and duplicate routes) through the real rule factory, "
                "rule-set processor and repository, compared op by op with the Lean model; plus, after every block "
                "of changes, the same lookups against a freshly loaded real repository. Non-trivial = fresh-load "
                "comparison after >= 1 update/delete in which a regular rule answered; distinct by case hash",
        "operations": nops, "rejected_changes": rejected, "rejected_deletes": rejected_deletes, "fresh_load_comparisons": len(fresh),
        "rejections_checked_against_a_fresh_load": acceptance_checks, "max_sources_loaded_side_by_side": live_hist,
        "lookups_with_2plus_candidates": st.get("multi", 0), "lookups_matched": st.get("matched", 0),
        "lookups_default_rule": st.get("default", 0), "corpus_cases": len(corpus),
        "samples": [cases[len(corpus)]] if len(cases) > len(corpus) else [cases[0]],
    })
    R.assumptions += [
        "token-level table model of the radix tree and the repository model are validated against the real code by "
        "this correspondence run (not proved equal)",
        "rules are created by the real rule factory with stub authenticators; providers (C18) are out of scope here",
    ]
    if not lean_ok:
        R.violation("theorems of Props/C06.lean no longer check: " + "; ".join(R.lean["failed"])[:600],
                    {"lean_log": R.lean["log"], "failed": R.lean["failed"]}, no_input=True)


replay = rc.replay
