"""C14 — effective pipelines follow stage-wise inheritance; malformed rules are rejected."""
import collections
import copy
import json
import re

import gen_factory
import vlib

PID = "C14"
PROBES = ["GET /r/a, authentication fails, conditions hold", "GET /r/a, authentication fails, conditions false",
          "GET /r/a, authentication succeeds, conditions hold", "GET /r/a, authentication succeeds, conditions false",
          "POST /r/a (path of the rule, method not: backtracking decides)", "GET /other (no rule)",
          "GET /r/a with X-Deny: 1 (the cel authorizers that listen refuse it), authentication succeeds, conditions hold",
          "GET /r/a with X-Deny: 1, authentication succeeds, conditions false"]
HARNESS_ENV = None   # set by run()/replay(): the harness keeps its scratch files under R.tmp


def harness_env(R):
    global HARNESS_ENV
    HARNESS_ENV = dict(vlib.go_env(), TMPDIR=R.tmp)


def run_impl(exe, cases):
    """one harness process for the whole list: cases share the loaded configuration and the mechanism catalogue of
    their default rule, every case has a rule factory of its own"""
    return vlib.run_cases([exe], cases, env=HARNESS_ENV)


def strip(i):
    """the implementation side reports error classes next to the verdicts; they are evidence, not compared"""
    if not isinstance(i, dict):
        return i
    i = {k: v for k, v in i.items() if k != "class"}
    if isinstance(i.get("loads"), list):
        i["loads"] = [{k: v for k, v in l.items() if k != "class"} if isinstance(l, dict) else l for l in i["loads"]]
    return i


def verdicts(case, exe):
    i = run_impl(exe, [case])[0]
    m = vlib.run_cases(vlib.driver_cmd(), [case])[0]
    return i, m


def agrees(i, m):
    return (isinstance(m, dict) and "res" in m and vlib.canon(strip(i)) == vlib.canon(m["res"])
            and vlib.canon(strip(i)) == vlib.canon(m.get("spec")))


def detail(case, k, why, st):
    """which step makes the rule malformed, for the reasons added with the typed conditions / unknown references"""
    r = case["rules"][k]
    steps = [(lst, s2) for lst in ("execute", "on_error") for s2 in (r.get(lst) or [])]
    if why == "bad_condition":
        conds = st["rules"][k].get("conds", []) if k < len(st.get("rules", [])) else []
        texts = [s2.get("if") for _, s2 in steps if s2.get("cond", "absent") != "absent"]
        for cls, text in zip(conds, texts):
            if cls != "expr:bool":
                ty = cls[5:] if cls.startswith("expr:") else {"invalid": "does not compile"}.get(cls, cls)
                return (f": the condition `if: {text}` is not a boolean expression (static type: {ty}); at run time "
                        "anything but the bool true counts as false, the guarded mechanism would be skipped")
    if why == "unknown_mechanism":
        ids = {(d["kind"], d["id"]) for d in case.get("cat", gen_factory.CATALOGUE)}
        for lst, s2 in steps:
            order = ["error_handler"] if lst == "on_error" else gen_factory.LOOKUP_ORDER
            first = next((key for key in order if key in s2["keys"]), None)
            if first and (gen_factory.KIND_OF[first], s2["keys"][first]) not in ids:
                return (f": `{first}: {json.dumps(s2['keys'][first])}` is not defined in the mechanisms catalogue "
                        f"for that kind")
    if why == "bad_override":
        for _, s2 in steps:
            ex = list(gen_factory._expression_texts(s2.get("config")))
            if ex:
                return f": rule-level config with expressions {json.dumps(ex)}"
    return ""


def describe(case, i, m):
    """(text naming the clause of the property the disagreement is about, index of the rule, concrete?)"""
    i = strip(i)
    if isinstance(i, dict) and "panic" in i:
        where = [l.strip() for l in str(i.get("stack", "")).splitlines() if "/repo/internal/" in l.replace(vlib.REPO, "/repo")
                 and "zzverif" not in l][:1]
        return (f"heimdall panics ({i['panic']}{' at ' + where[0] if where else ''}) while the rules of the case are "
                "loaded / their pipelines executed: a rule that makes a mechanism crash has to be rejected when its rule "
                "set is loaded", None, True)
    if not isinstance(i, dict) or "factory" not in i:
        return "implementation side failed on the case: " + json.dumps(i)[:300], None, False
    if not isinstance(m, dict) or "spec" not in m:
        return "model side failed on the case: " + json.dumps(m)[:300], None, False
    s = m["spec"]
    st = m.get("stats", {})
    if i["factory"] != s["factory"]:
        if i["factory"] == "ok":
            return (f"a malformed default rule is accepted (specification: {st.get('config_reason')})", None, True)
        return "a well-formed configuration (default rule) is refused", None, True
    for k, (a, b) in enumerate(zip(i.get("loads", []), s.get("loads", []))):
        if a == b:
            continue
        why = st["rules"][k]["reason"] if k < len(st.get("rules", [])) else ""
        nth = f"rule {k + 1} of {len(s['loads'])} loaded by the factory: " if len(s["loads"]) > 1 else ""
        if a.get("load") != b.get("load"):
            if a.get("load") == "accepted":
                return (nth + f"a malformed rule is accepted when its rule set is loaded (specification: rejected, "
                              f"{why}{detail(case, k, why, st)})", k, True)
            return nth + "a well-formed rule is rejected when its rule set is loaded", k, True
        for p, (x, y) in enumerate(zip(a.get("probes", []), b.get("probes", []))):
            if x != y:
                fields = [f for f in ("rule", "calls", "fin", "hdr", "ret", "perr", "upstream", "src") if x.get(f) != y.get(f)]
                if "rule" in fields and p == 4:
                    return (nth + f"backtracking setting is not the rule's own / the default rule's / off: "
                                  f"{PROBES[p]} is answered by '{x.get('rule')}', the property demands "
                                  f"'{y.get('rule')}'", k, True)
                if fields == ["src"]:
                    return (nth + f"a stage of the executed pipeline does not consist of the mechanisms the rule "
                                  f"(or, for a stage it does not define, the default rule) names: probe '{PROBES[p]}' "
                                  f"ends with an error raised by the mechanism '{x.get('src')}' (Error.Source in the "
                                  f"conditions of on_error), the property demands '{y.get('src')}' — the stage holds "
                                  f"another catalogue entry than the one referenced", k, True)
                own = ""
                if any((s.get("cfg") or 0) >= gen_factory.TYPED for lst in ("execute", "on_error")
                       for s in (case["rules"][k].get(lst) or [])):
                    own = " (the rule carries a rule-level config of its own: its mechanisms have to show exactly that)"
                return (nth + f"the executed pipeline is not the stage-wise inherited one{own}: probe '{PROBES[p]}' "
                              f"differs in {fields}: executed {json.dumps({f: x.get(f) for f in fields})}, the "
                              f"property demands {json.dumps({f: y.get(f) for f in fields})}", k, True)
    if len(i.get("loads", [])) != len(s.get("loads", [])):
        return "number of load results differs from the number of rules", None, False
    if vlib.canon(i) != vlib.canon(m["res"]):
        return ("implementation agrees with the specification but not with the model (model and specification "
                "differ)"), None, False
    return None, None, False


# ---------------------------------------------------------------------------------------------------------------
# shrinking

def candidates(cur):
    """structurally smaller cases: fewer rules in the history, fewer steps, conditions, overrides, keys, settings,
    no default rule, simpler spelling"""
    cands = []
    rules = cur["rules"]
    for k in range(len(rules)):
        if len(rules) > 1:
            c = copy.deepcopy(cur)
            del c["rules"][k]
            cands.append(c)
    if cur.get("default") is not None:
        c = copy.deepcopy(cur)
        c["default"] = None
        cands.append(c)
    owners = [("default", None)] if cur.get("default") else []
    owners += [("rules", k) for k in range(len(rules))]
    for owner, k in owners:
        def get(c, owner=owner, k=k):
            return c["default"] if owner == "default" else c["rules"][k]
        o = get(cur)
        for lst in ("execute", "on_error"):
            steps = o.get(lst)
            if not isinstance(steps, list):
                continue
            for n in range(len(steps)):
                c = copy.deepcopy(cur)
                del get(c)[lst][n]
                cands.append(c)
            for n, s in enumerate(steps):
                oe = lst == "on_error"
                if s.get("cond", "absent") != "absent":
                    c = copy.deepcopy(cur)
                    get(c)[lst][n] = gen_factory.restep(s, cond="absent", on_error=oe)
                    cands.append(c)
                if s.get("cfg") is not None:
                    c = copy.deepcopy(cur)
                    get(c)[lst][n] = gen_factory.restep(s, drop_cfg=True, on_error=oe)
                    cands.append(c)
                if len(s["keys"]) > 1:
                    for key in s["keys"]:
                        c = copy.deepcopy(cur)
                        keys = {kk: vv for kk, vv in s["keys"].items() if kk != key}
                        get(c)[lst][n] = gen_factory.restep(s, keys=keys, on_error=oe)
                        cands.append(c)
        for lst in ("execute", "on_error"):
            if lst in o and not o[lst] and lst == "on_error" and o[lst] is None:
                c = copy.deepcopy(cur)          # `null` -> absent
                del get(c)[lst]
                cands.append(c)
        if o.get("bt") is not None:
            c = copy.deepcopy(cur)
            get(c)["bt"] = None
            cands.append(c)
        if o.get("forward_to"):
            c = copy.deepcopy(cur)
            get(c)["forward_to"] = False
            cands.append(c)
    if cur["mode"] == "proxy":
        c = copy.deepcopy(cur)
        c["mode"] = "decision"
        cands.append(c)
    if cur.get("path", "yaml") != "yaml":
        c = copy.deepcopy(cur)
        c["path"] = "yaml"
        cands.append(c)
    return cands


def shrink(exe, case, fails, budget=160):
    cur = copy.deepcopy(case)
    cur.pop("note", None)
    changed = True
    while changed and budget > 0:
        changed = False
        for c in candidates(cur):
            budget -= 1
            if budget <= 0:
                break
            if fails(c):
                cur = c
                changed = True
                break
    return gen_factory.compact(cur)


def fails_alone(exe):
    def f(c):
        i, m = verdicts(c, exe)
        return not agrees(i, m)
    return f


def fails_after(exe, prefix):
    """the case disagrees when it runs in one harness process behind the given earlier cases"""
    def f(c):
        res = run_impl(exe, prefix + [c])
        m = vlib.run_cases(vlib.driver_cmd(), [c])[0]
        return len(res) == len(prefix) + 1 and not agrees(res[-1], m)
    return f


def env_key(c):
    """cases with the same catalogue and default rule share configuration and mechanism catalogue in the harness"""
    return vlib.canon({"default": c.get("default"), "cat": c.get("cat")})


def slim(case):
    return {k: v for k, v in case.items() if k != "cat"}


def report(R, exe, cases, k, i, m):
    """turn a disagreement seen in the batch run into a violation with a replay that reproduces it"""
    c = cases[k]
    alone = fails_alone(exe)
    if alone(c):
        sc = shrink(exe, c, alone)
        si, sm = verdicts(sc, exe)
        what, nth, concrete = describe(sc, si, sm)
        if what is None:                     # cannot happen: the shrinker only keeps failing cases
            what, concrete = "implementation and model disagree on the replay", False
        return what, {"case": sc, "impl": si, "model": sm.get("res") if isinstance(sm, dict) else sm,
                      "spec": sm.get("spec") if isinstance(sm, dict) else None,
                      "kind": "impl-vs-spec" if concrete else "impl-vs-model"}, not concrete
    # The case agrees when it runs alone: the result depends on what ran before it in the same process (the cases
    # before it that share its configuration and mechanism catalogue).  Replay that history and shrink it.
    what0, _, _ = describe(c, i, m)
    key = env_key(c)
    for prefix in ([p for p in cases[:k] if env_key(p) == key], cases[:k]):
        if not fails_after(exe, prefix)(c):
            continue
        tests = [0]

        def still(sub):
            tests[0] += 1
            return tests[0] <= 60 and fails_after(exe, sub)(c)
        prefix = vlib.ddmin(prefix, still) if len(prefix) > 1 else prefix
        sc = shrink(exe, c, fails_after(exe, prefix), budget=80)
        res = run_impl(exe, prefix + [sc])
        sm = vlib.run_cases(vlib.driver_cmd(), [sc])[0]
        what, nth, concrete = describe(sc, res[-1], sm)
        what = (f"history dependence across rule factories: after {len(prefix)} earlier case(s) in the same "
                f"process, {what or what0}")
        return what, {"history": prefix, "case": sc, "impl": res[-1],
                      "model": sm.get("res") if isinstance(sm, dict) else sm,
                      "spec": sm.get("spec") if isinstance(sm, dict) else None, "kind": "impl-vs-spec"}, False
    return (f"not reproducible: the batch run disagreed ({what0}), the case alone and the replayed batch prefix agree "
            f"— the implementation's answer depends on something outside the inputs",
            {"case": c, "impl_in_batch": i, "model": m.get("res") if isinstance(m, dict) else m}, True)


# ---------------------------------------------------------------------------------------------------------------

def run(R):
    harness_env(R)
    lean_ok = vlib.step_lean(R, PID)
    exe = vlib.step_harness(R)
    if exe is None:
        R.violation("harness does not build against /repo (API used by the correspondence check changed)",
                    {"build_log": R.harness_log[-3000:]}, no_input=True)
        return
    corpus = vlib.load_corpus(PID)
    quick = R.tier == "quick"
    pool = gen_factory.gen_defaults(R.rng, 60 if quick else 500)
    n = 1800 if quick else 24000
    cases = corpus + [gen_factory.gen_case(R.rng, pool) for _ in range(n)]
    # look-alike overrides: histories in which one factory sees, for the same mechanism, values that differ in type
    # or structure but print alike (some of them refused by the mechanism), in any order
    n_look = 260 if quick else 4000
    cases += [gen_factory.gen_lookalike_case(R.rng) for _ in range(n_look)]
    # `expressions` of cel / remote authorizers overridden on the rule level: boolean ones, statically non-boolean,
    # dyn-typed, not compiling, malformed shapes; any order in one factory
    n_expr = 120 if quick else 2000
    cases += [gen_factory.gen_expression_case(R.rng) for _ in range(n_expr)]
    # one rule-level config over several catalogue entries of one type (default rule + rule, rules of one history,
    # steps of one rule): every step must get a variant of the entry it names
    n_twin = 120 if quick else 2500
    cases += [gen_factory.gen_twin_case(R.rng) for _ in range(n_twin)]
    n_random = len(cases) - len(corpus)
    grids = gen_factory.small_scope(3 if quick else 5)
    cases += grids
    impl = run_impl(exe, cases)
    model = vlib.run_cases(vlib.driver_cmd(), cases)
    # the type checker of the model against cel-go, on every expression the generator can produce
    cel_case = gen_factory.cel_case()
    cel_impl = run_impl(exe, [cel_case])[0]
    cel_model = vlib.run_cases(vlib.driver_cmd(), [cel_case])[0]
    cel_types = collections.Counter()
    cel_bad = []
    if not (isinstance(cel_impl, dict) and isinstance(cel_impl.get("cel"), list) and isinstance(cel_model, dict)
            and isinstance(cel_model.get("res", {}).get("cel"), list)
            and len(cel_impl["cel"]) == len(cel_case["exprs"]) == len(cel_model["res"]["cel"])):
        cel_bad.append(("<the whole table>", cel_impl, cel_model))
    else:
        for src, a, b in zip(cel_case["exprs"], cel_impl["cel"], cel_model["res"]["cel"]):
            cel_types[f"{a['type']} / {'accepted' if a['accepted'] else 'refused'}"] += 1
            if a != b:
                cel_bad.append((src, a, b))

    bad = []
    reasons = collections.Counter()
    classes = collections.Counter()
    verdict = collections.Counter()
    stages_own = collections.Counter()
    stages_inh = collections.Counter()
    cond_only = collections.Counter()
    bt_combo = collections.Counter()
    modes = collections.Counter()
    paths = collections.Counter()
    spelled = collections.Counter()
    hist_len = collections.Counter()
    shared_refs = 0
    nontriv = set()
    multi_key = disordered = overrides = probes_run = rules_total = 0
    typed = typed_refused = typed_histories = 0
    cond_classes = collections.Counter()
    src_named = 0
    src_refused = collections.Counter()
    ref_shapes = collections.Counter()
    type_names = set(gen_factory.ALL_TYPE_NAMES)
    samples, sampled = [], set()
    for k, (c, i, m) in enumerate(zip(cases, impl, model)):
        if not agrees(i, m):
            bad.append((k, i, m))
        if not (isinstance(m, dict) and "stats" in m):
            continue
        st, res = m["stats"], m["res"]
        hist_len[min(len(c["rules"]), 6)] += 1
        paths[c.get("path", "yaml")] += 1
        modes[c["mode"]] += 1
        d = c.get("default")
        if d is not None:
            spelled["default.execute:" + st["default_execute_spelled"]] += 1
            spelled["default.on_error:" + st["default_on_error_spelled"]] += 1
        if isinstance(i, dict) and i.get("class"):
            classes[i["class"]] += 1
        if res["factory"] != "ok":
            verdict["config rejected"] += 1
            reasons["config:" + st["config_reason"]] += 1
            continue
        nt = False
        if c.get("ovr") and len(c["rules"]) > 1:
            typed_histories += 1
        for n_rule, (r, rs, load) in enumerate(zip(c["rules"], st["rules"], res["loads"])):
            rules_total += 1
            v = load["load"]
            verdict[v] += 1
            if rs["reason"]:
                reasons[rs["reason"]] += 1
            il = i["loads"][n_rule] if isinstance(i, dict) and n_rule < len(i.get("loads", [])) else {}
            if isinstance(il, dict) and il.get("class"):
                classes[il["class"]] += 1
            spelled["execute:" + rs["execute_spelled"]] += 1
            spelled["on_error:" + rs["on_error_spelled"]] += 1
            for lst in ("execute", "on_error"):
                for s in (r.get(lst) or []):
                    if any(v2 in gen_factory.SHARED_IDS for v2 in s["keys"].values()):
                        shared_refs += 1
                    for v2 in s["keys"].values():
                        if v2 in type_names:
                            ref_shapes["named like a mechanism type"] += 1
                        elif v2 != v2.strip() or v2 != v2.lower():
                            ref_shapes["catalogue id re-spelled (case / white space)"] += 1
            for cls in rs.get("conds", []):
                cond_classes[cls + " / " + v] += 1
            multi_key += 1 if rs["multi_key"] else 0
            disordered += 0 if rs["ordered"] else 1
            overrides += rs["overrides"]
            typed += rs.get("typed", 0)
            typed_refused += rs.get("typed_refused", 0)
            if v == "accepted":
                probes_run += len(PROBES)
                for pn, pr in enumerate(load.get("probes", [])):
                    if pr.get("src"):
                        src_named += 1
                        if pn >= 6:
                            src_refused[pr["src"]] += 1
                for s in rs["own"]:
                    stages_own[s] += 1
                for s in rs["inherited"]:
                    stages_inh[s] += 1
                for s in rs["cond_only"]:
                    cond_only[s] += 1
                bt_combo["default=%s own=%s" % ("absent" if d is None else d.get("bt"), r.get("bt"))] += 1
                nt = nt or bool(rs["own"] and rs["inherited"])
            else:
                nt = nt or rs["n_execute"] + rs["n_on_error"] >= 1
            key = (v, bool(rs["inherited"]), len(c["rules"]) > 1)
            if k >= len(corpus) and key not in sampled and len(samples) < 5:
                sampled.add(key)
                samples.append({"case": slim(c), "implementation": i, "model": res})
        if nt:
            nontriv.add(vlib.case_hash(slim(c)))
    R.coverage.update({
        "evaluations": len(cases), "distinct_nontrivial": len(nontriv),
        "rule": "a case = operation mode + load path (YAML / JSON rule set document through the rule set parser, "
                "kubernetes resource through the provider's conversion) + default rule (absent / partial / complete "
                "/ malformed; lists spelled absent / null / [] / steps) + a history of 1..12 rule definitions, all "
                "loaded by ONE real rule factory (configuration loader, mechanism catalogue with ids shared between "
                "kinds, NewRuleFactory, rule set processor, repository; the mechanism factory is shared by all cases "
                "with the same configuration), rule-level overrides incl. look-alike values of different type and "
                "one value over several catalogue entries of a type, eight probe requests per accepted rule (two of "
                "them refused by the cel authorizers that listen: the source of the error shows which entry ran); "
                "non-trivial = the configuration loads and some rule of the history is accepted with at least one "
                "own and one inherited stage, or is rejected and has at least one step; distinct by hash of the "
                "case without the catalogue",
        "rules_loaded": rules_total, "random_cases": n_random, "grid_cases": len(grids),
        "corpus_cases": len(corpus), "default_rule_pool": len(pool),
        "history_lengths": {str(k2): v2 for k2, v2 in sorted(hist_len.items())},
        "load_paths": dict(paths), "modes": dict(modes), "list_spellings": dict(spelled),
        "references_to_ids_shared_between_kinds": shared_refs,
        "verdicts": dict(verdict), "rejection_reasons_model": dict(reasons),
        "error_classes_implementation": dict(classes),
        "accepted_stage_own": dict(stages_own), "accepted_stage_inherited": dict(stages_inh),
        "accepted_stage_defined_only_by_conditional_steps": dict(cond_only),
        "accepted_backtracking_combinations": dict(bt_combo),
        "rules_with_multi_key_steps": multi_key, "rules_with_disordered_execute": disordered,
        "override_payloads": overrides, "probe_requests_executed": probes_run,
        "lookalike_random_cases": n_look, "expression_override_random_cases": n_expr,
        "same_override_over_several_entries_random_cases": n_twin,
        "same_override_over_several_entries_grid_cases": len(gen_factory.grid_twins()),
        "probes_ending_with_an_error_that_names_its_source": src_named,
        "refused_probes_by_source": dict(src_refused),
        "conditions_by_static_type_and_verdict": dict(cond_classes),
        "references_by_shape": dict(ref_shapes),
        "cel_expressions_typed_by_model_and_cel_go": len(cel_case["exprs"]),
        "cel_static_types_and_compile_verdicts": dict(cel_types),
        "mechanism_type_names_read_from_repo": gen_factory.TYPE_NAMES,
        "typed_override_values": typed, "typed_override_values_refused_by_their_mechanism": typed_refused,
        "histories_with_typed_overrides": typed_histories,
        "samples": samples or [slim(cases[0])],
        "exhaustive": False,
        "small_scope": "every default rule of {absent, authenticator + each subset of {authorizer, finalizer, error "
                       "handler} x backtracking off/on, without authenticator} x every sequence of step kinds "
                       "{authenticator, authorizer, contextualizer, finalizer} up to length %d x with/without own "
                       "error handler (histories of 12); default/own backtracking x mode x forward_to x load path; "
                       "every kind x condition class x override tag; every pair of reference keys in one step; every "
                       "spelling (absent/null/[]/steps) of execute x on_error x 8 default rules x load path x mode, "
                       "forwards and backwards; every ordered pair of references to shared / kind-only ids with the "
                       "first one used by the default rule, an earlier rule or an earlier step; look-alike overrides: "
                       "every mechanism type x every family of values that print alike (string / number / bool / nil, "
                       "string with k:v pairs / map, string '[a b]' / list, nested / flattened, spellings of one "
                       "duration) x every ordered pair of members as a history of two rules of one factory, and "
                       "the whole family forwards and backwards; every kind x every id the catalogue does not "
                       "define for it (the names of all mechanism types read from the repo, ids of other kinds, "
                       "re-spelled ids) with and without default rule; every kind of step x every CEL expression of "
                       "the table (boolean, boolean over dyn sub-terms, int / string / list / map, dyn-typed "
                       "attribute and index chains, syntax errors, undeclared names / no overload) as its `if`, also "
                       "inside the default rule; cel / remote authorizer x every expression and malformed shape as "
                       "rule-level `expressions`; every type with several catalogue entries x every ordered pair of "
                       "entries x every value: the same rule-level config over both, the first one used by the default "
                       "rule, an earlier rule of the history or an earlier conditional step" % (3 if quick else 5),
    })
    R.assumptions += [
        "the catalogue, the override payloads and the condition literals used by the generator stand for all "
        "mechanisms, overrides and conditions: the theorems treat the catalogue abstractly (known ids per kind, "
        "accepted override tags), the correspondence run exercises heimdall's generic/anonymous authenticators, "
        "remote authorizer, generic contextualizer, header finalizer, redirect/default/www_authenticate error handlers",
        "typed overrides (tags >= 100 name values of the case's `ovr` table): whether a mechanism accepts a value and "
        "what the variant then shows is computed by the model from the value (Model/FactoryOverride.lean: strict "
        "decoding of subject / realm / allow_fallback_on_error / continue_pipeline_on_error / cache_ttl / values / "
        "headers, unknown keys refused) and validated by the correspondence run; other keys the real mechanisms accept "
        "on the rule level (payload, forward_* lists) are not in that stream; `expressions` of the cel / remote "
        "authorizers are (entries {expression, message}, every expression typed by the model); \"\" / null as a "
        "template entry are refused at load since fix C14-1 (4c2a454) and part of the stream",
        "CEL: the static result type of a condition / expression is computed by the model from the expression TREE "
        "(Model/FactoryCel.lean, a fragment: literals, one-element list / map literals, the variables of "
        "cellib.Library(), selection, indexing, == != && || ! ?:, the member / global functions in use); the text "
        "heimdall compiles is printed from the same tree by the generator; on every run the model's type is compared "
        "with cel-go's for every expression of the generator's table; every boolean expression generated holds "
        "(conditions: holds unless the probe sends X-Skip: 1; expressions of a cel authorizer that read the header "
        "X-Deny: hold unless the probe sends X-Deny: 1) for every probe request, CEL evaluation is not modelled",
        "execution semantics of the probe requests (Model/FactoryProbe.lean: fallback between authenticators, "
        "conditions, first applicable error handler, backtracking to a less specific rule) are validated by the "
        "correspondence run, not proved; they belong to properties C01/C02/C04",
        "matching conditions, encoded-slash handling and rule hashing of CreateRule are not part of this property",
        "the kubernetes load path is entered behind the API machinery: the resource is decoded with encoding/json "
        "and converted by the provider's own toRuleSetConfiguration",
    ]
    seen = set()
    for k, i, m in bad[:80]:
        what0, _, _ = describe(cases[k], i, m)
        # one report per clause: the position of the rule in its history is not part of the clause
        key = re.sub(r"^rule \d+ of \d+ loaded by the factory: ", "", what0 or "")[:70]
        if key in seen:
            continue
        seen.add(key)
        what, payload, no_input = report(R, exe, cases, k, i, m)
        if what in [w for w, _, _ in R.violations]:
            continue
        R.violation(what, payload, no_input=no_input)
        if len(R.violations) >= 6:
            break
    if bad and not R.violations:     # never lose a disagreement to de-duplication
        k, i, m = bad[0]
        what, payload, no_input = report(R, exe, cases, k, i, m)
        R.violation(what, payload, no_input=no_input)
    for src, a, b in cel_bad[:2]:
        R.violation(f"the CEL type checker of the model and cel-go (heimdall's environment) disagree on `{src}`: "
                    f"cel-go {json.dumps(a)[:200]}, model {json.dumps(b)[:200]} — the load-time check of conditions "
                    "and expressions (result type bool) is no longer what the model describes",
                    {"case": {"fam": "factory", "op": "cel", "exprs": [src],
                              "cel": [e for e in cel_case["cel"] if e["src"] == src]},
                     "impl": a, "model": b}, no_input=not bad)
    R.coverage["disagreements_checked"] = len(bad) + len(cel_bad)
    if not lean_ok:
        R.violation("theorems of Props/C14.lean no longer check: " + "; ".join(R.lean["failed"])[:600],
                    {"lean_log": R.lean["log"], "failed": R.lean["failed"],
                     "theorems": R.lean.get("failed_theorems")}, no_input=True)


def replay(R, path):
    with open(path) as fh:
        p = json.load(fh)
    if "case" not in p:          # a corpus file: the case itself
        p = {"case": p}
    harness_env(R)
    exe = vlib.step_harness(R)

    def full(c):
        return c if "cat" in c else dict(c, cat=gen_factory.CATALOGUE)
    if p["case"].get("op") == "cel":
        i = run_impl(exe, [p["case"]])[0]
        m = vlib.run_cases(vlib.driver_cmd(), [p["case"]])[0]
        print("impl :", json.dumps(i))
        print("model:", json.dumps(m.get("res") if isinstance(m, dict) else m))
        R.coverage.update({"obligations": 1, "discharged": 1, "checker_cmd": "replay", "trusted_base": []})
        if not (isinstance(m, dict) and vlib.canon(i) == vlib.canon(m.get("res"))):
            R.violation("replay still differs: static types of CEL expressions", {"case": p["case"], "impl": i, "model": m})
        return
    c = full(p["case"])
    history = [full(h) for h in p.get("history", [])]
    i = run_impl(exe, history + [c])[-1]
    m = vlib.run_cases(vlib.driver_cmd(), [c])[0]
    if history:
        print(f"(replayed behind {len(history)} earlier case(s) in one process)")
    print("impl :", json.dumps(i))
    print("model:", json.dumps(m.get("res") if isinstance(m, dict) else m))
    print("spec :", json.dumps(m.get("spec") if isinstance(m, dict) else m))
    R.coverage.update({"obligations": 1, "discharged": 1, "checker_cmd": "replay", "trusted_base": []})
    if not agrees(i, m):
        what, _, _ = describe(c, i, m)
        R.violation("replay still differs: " + str(what), {"history": history, "case": c, "impl": i, "model": m})
