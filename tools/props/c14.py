"""C14 — effective pipelines follow stage-wise inheritance; malformed rules are rejected."""
import collections
import copy
import json

import gen_factory
import vlib

PID = "C14"
PROBES = ["GET /r/a, authentication fails, conditions hold", "GET /r/a, authentication fails, conditions false",
          "GET /r/a, authentication succeeds, conditions hold", "GET /r/a, authentication succeeds, conditions false",
          "POST /r/a (path of the rule, method not: backtracking decides)", "GET /other (no rule)"]


def strip(i):
    """the implementation side reports the error class next to the verdict; it is evidence, not compared"""
    if isinstance(i, dict) and "class" in i:
        i = dict(i)
        i.pop("class")
    return i


HARNESS_ENV = None   # set by run()/replay(): the harness keeps its scratch files under R.tmp


def run_impl(exe, cases):
    return vlib.run_cases([exe], cases, env=HARNESS_ENV)


def verdicts(case, exe):
    i = run_impl(exe, [case])[0]
    m = vlib.run_cases(vlib.driver_cmd(), [case])[0]
    return i, m


def agrees(i, m):
    return (isinstance(m, dict) and "res" in m and vlib.canon(strip(i)) == vlib.canon(m["res"])
            and vlib.canon(strip(i)) == vlib.canon(m.get("spec")))


def describe(case, i, m):
    """which clause of the property the disagreement is about"""
    i = strip(i)
    if not isinstance(i, dict) or "factory" not in i:
        return "implementation side failed on the case: " + json.dumps(i)[:300], False
    if not isinstance(m, dict) or "spec" not in m:
        return "model side failed on the case: " + json.dumps(m)[:300], False
    s = m["spec"]
    why = m.get("stats", {}).get("reason", "")
    if i["factory"] != s["factory"]:
        if i["factory"] == "ok":
            return f"a malformed default rule is accepted (specification: {why})", True
        return "a well-formed configuration (default rule) is refused", True
    if i["factory"] != "ok":
        return "verdicts agree, details differ", False
    if i.get("load") != s.get("load"):
        if i.get("load") == "accepted":
            return f"a malformed rule is accepted when its rule set is loaded (specification: rejected, {why})", True
        return "a well-formed rule is rejected when its rule set is loaded", True
    for k, (a, b) in enumerate(zip(i.get("probes", []), s.get("probes", []))):
        if a != b:
            fields = [f for f in ("rule", "calls", "fin", "ret", "perr", "upstream") if a.get(f) != b.get(f)]
            if "rule" in fields and k == 4:
                what = (f"backtracking setting is not the rule's own / the default rule's / off: "
                        f"{PROBES[k]} is answered by '{a.get('rule')}', the property demands '{b.get('rule')}'")
            else:
                what = (f"the executed pipeline is not the stage-wise inherited one: probe '{PROBES[k]}' differs in "
                        f"{fields}: executed {json.dumps({f: a.get(f) for f in fields})}, the property demands "
                        f"{json.dumps({f: b.get(f) for f in fields})}")
            return what, True
    if vlib.canon(i) != vlib.canon(m["res"]):
        return "implementation agrees with the specification but not with the model (model and specification differ)", False
    return "no difference", False


def shrink(exe, case):
    """greedy structural shrinking: drop steps, conditions, overrides, settings, the default rule, as long as
    implementation and specification still disagree"""
    def fails(c):
        i, m = verdicts(c, exe)
        return not agrees(i, m)

    cur = copy.deepcopy(case)
    cur.pop("note", None)
    budget = 120
    changed = True
    while changed and budget > 0:
        changed = False
        cands = []
        for owner in ("rule", "default"):
            o = cur.get(owner)
            if not o:
                continue
            for lst in ("execute", "on_error"):
                steps = o.get(lst) or []
                for k in range(len(steps)):
                    c = copy.deepcopy(cur)
                    del c[owner][lst][k]
                    cands.append(c)
                for k, s in enumerate(steps):
                    if s.get("cond", "absent") != "absent":
                        c = copy.deepcopy(cur)
                        c[owner][lst][k] = gen_factory.step(s["keys"], "absent", s.get("cfg"), lst == "on_error")
                        cands.append(c)
                    if s.get("cfg") is not None:
                        c = copy.deepcopy(cur)
                        c[owner][lst][k] = gen_factory.step(s["keys"], s.get("cond", "absent"), None, lst == "on_error")
                        cands.append(c)
                    if len(s["keys"]) > 1:
                        for key in s["keys"]:
                            c = copy.deepcopy(cur)
                            keys = {kk: vv for kk, vv in s["keys"].items() if kk != key}
                            c[owner][lst][k] = gen_factory.step(keys, s.get("cond", "absent"), s.get("cfg"),
                                                                lst == "on_error")
                            cands.append(c)
                if lst == "on_error" and lst in o and not steps:
                    c = copy.deepcopy(cur)
                    del c[owner][lst]
                    cands.append(c)
        if cur.get("default") is not None:
            c = copy.deepcopy(cur)
            c["default"] = None
            cands.insert(0, c)
            if cur["default"].get("bt") is not None:
                c = copy.deepcopy(cur)
                c["default"]["bt"] = None
                cands.append(c)
        if cur["rule"].get("bt") is not None:
            c = copy.deepcopy(cur)
            c["rule"]["bt"] = None
            cands.append(c)
        if cur["mode"] == "proxy":
            c = copy.deepcopy(cur)
            c["mode"] = "decision"
            cands.append(c)
        if cur["rule"].get("forward_to"):
            c = copy.deepcopy(cur)
            c["rule"]["forward_to"] = False
            cands.append(c)
        for c in cands:
            budget -= 1
            if budget <= 0:
                break
            if fails(c):
                cur = c
                changed = True
                break
    return cur


def slim(case):
    return {k: v for k, v in case.items() if k != "cat"}


def harness_env(R):
    global HARNESS_ENV
    HARNESS_ENV = dict(vlib.go_env(), TMPDIR=R.tmp)


def run(R):
    harness_env(R)
    lean_ok = vlib.step_lean(R, PID)
    exe = vlib.step_harness(R)
    if exe is None:
        R.violation("harness does not build against /repo (API used by the correspondence check changed)",
                    {"build_log": R.harness_log[-3000:]}, no_input=True)
        return
    corpus = vlib.load_corpus(PID)
    quick = R.tier == "quick"
    pool = gen_factory.gen_defaults(R.rng, 60 if quick else 500)
    n = 3000 if quick else 40000
    cases = corpus + [gen_factory.gen_case(R.rng, pool) for _ in range(n)]
    n_random = len(cases) - len(corpus)
    grids = gen_factory.grid_backtracking() + gen_factory.grid_steps() + gen_factory.grid_orderings(3 if quick else 5)
    cases += grids
    impl = run_impl(exe, cases)
    model = vlib.run_cases(vlib.driver_cmd(), cases)

    bad = []
    reasons = collections.Counter()
    classes = collections.Counter()
    verdict = collections.Counter()
    stages_own = collections.Counter()
    stages_inh = collections.Counter()
    cond_only = collections.Counter()
    bt_combo = collections.Counter()
    modes = collections.Counter()
    nontriv = set()
    multi_key = disordered = overrides = probes_run = 0
    samples, sampled = [], set()
    for k, (c, i, m) in enumerate(zip(cases, impl, model)):
        if k >= len(corpus) and isinstance(m, dict) and "res" in m:
            key = (m["res"]["factory"], m["res"].get("load"), bool(m["stats"]["inherited"]))
            if key not in sampled and len(samples) < 5:
                sampled.add(key)
                samples.append({"case": slim(c), "implementation": i, "model": m["res"]})
    for c, i, m in zip(cases, impl, model):
        if not agrees(i, m):
            bad.append((c, i, m))
        if not (isinstance(m, dict) and "stats" in m):
            continue
        st = m["stats"]
        res = m["res"]
        v = "config rejected" if res["factory"] != "ok" else res["load"]
        verdict[v] += 1
        if st["reason"]:
            reasons[st["reason"]] += 1
        if isinstance(i, dict) and i.get("class"):
            classes[i["class"]] += 1
        modes[c["mode"] + ("+forward_to" if c["rule"].get("forward_to") else "")] += 1
        if v == "accepted":
            probes_run += 6
            for s in st["own"]:
                stages_own[s] += 1
            for s in st["inherited"]:
                stages_inh[s] += 1
            for s in st["cond_only"]:
                cond_only[s] += 1
            d = c.get("default")
            bt_combo["default=%s own=%s" % ("absent" if d is None else d.get("bt"), c["rule"].get("bt"))] += 1
        multi_key += 1 if st["multi_key"] else 0
        disordered += 0 if st["ordered"] else 1
        overrides += st["overrides"]
        if res["factory"] == "ok" and ((v == "accepted" and st["own"] and st["inherited"]) or
                                       (v == "rejected" and st["n_execute"] + st["n_on_error"] >= 1)):
            nontriv.add(vlib.case_hash(slim(c)))
    R.coverage.update({
        "evaluations": len(cases), "distinct_nontrivial": len(nontriv),
        "rule": "a case = operation mode + default rule (absent / partial / complete / malformed) + one rule "
                "definition, loaded through heimdall's real configuration loader, mechanism catalogue, rule factory, "
                "rule set parser and repository, then six probe requests executed; non-trivial = the configuration "
                "loads and either the rule is accepted with at least one own and at least one inherited stage, or "
                "the rule is rejected and has at least one step; distinct by hash of the case without the catalogue",
        "random_cases": n_random, "grid_cases": len(grids), "corpus_cases": len(corpus),
        "default_rule_pool": len(pool),
        "verdicts": dict(verdict), "rejection_reasons_model": dict(reasons),
        "error_classes_implementation": dict(classes), "modes": dict(modes),
        "accepted_stage_own": dict(stages_own), "accepted_stage_inherited": dict(stages_inh),
        "accepted_stage_defined_only_by_conditional_steps": dict(cond_only),
        "accepted_backtracking_combinations": dict(bt_combo),
        "cases_with_multi_key_steps": multi_key, "cases_with_disordered_execute": disordered,
        "override_payloads": overrides, "probe_requests_executed": probes_run,
        "samples": samples,
        "exhaustive": False,
        "small_scope": "every default rule of {absent, authenticator + each subset of {authorizer, finalizer, error "
                       "handler} x backtracking off/on, without authenticator} x every sequence of step kinds "
                       "{authenticator, authorizer, contextualizer, finalizer} up to length %d x with/without own "
                       "error handler; default/own backtracking x mode x forward_to grid; every kind x condition "
                       "class x override tag; every pair of reference keys in one step" % (3 if quick else 5),
    })
    R.assumptions += [
        "the catalogue, the override payloads and the three condition literals used by the generator stand for all "
        "mechanisms, overrides and conditions: the model treats the catalogue abstractly (known ids, accepted "
        "override tags), the correspondence run exercises heimdall's generic/anonymous authenticators, remote "
        "authorizer, generic contextualizer, header finalizer, redirect/default error handlers",
        "execution semantics of the probe requests (Model/FactoryProbe.lean: fallback between authenticators, "
        "conditions, first applicable error handler, backtracking to a less specific rule) are validated by the "
        "correspondence run, not proved; they belong to properties C01/C02/C04",
        "matching conditions, encoded-slash handling and rule hashing of CreateRule are not part of this property",
    ]
    seen_raw, seen = set(), set()
    for c, i, m in bad[:60]:
        what, concrete = describe(c, i, m)
        if what[:90] in seen_raw:
            continue
        seen_raw.add(what[:90])
        sc = shrink(exe, c) if concrete else c
        si, sm = verdicts(sc, exe)
        what, concrete = describe(sc, si, sm)
        if what in seen:
            continue
        seen.add(what)
        R.violation(what, {"case": sc, "impl": si, "model": sm.get("res") if isinstance(sm, dict) else sm,
                           "spec": sm.get("spec") if isinstance(sm, dict) else None,
                           "kind": "impl-vs-spec" if concrete else "impl-vs-model"}, no_input=not concrete)
        if len(R.violations) >= 6:
            break
    if bad and not R.violations:     # never lose a disagreement to de-duplication
        c, i, m = bad[0]
        what, concrete = describe(c, i, m)
        R.violation(what, {"case": c, "impl": i, "model": m}, no_input=not concrete)
    R.coverage["disagreements_checked"] = len(bad)
    if not lean_ok:
        R.violation("theorems of Props/C14.lean no longer check: " + "; ".join(R.lean["failed"])[:600],
                    {"lean_log": R.lean["log"], "failed": R.lean["failed"],
                     "theorems": R.lean.get("failed_theorems")}, no_input=True)


def replay(R, path):
    with open(path) as fh:
        p = json.load(fh)
    harness_env(R)
    exe = vlib.step_harness(R)
    c = p["case"]
    if "cat" not in c:
        c = dict(c, cat=gen_factory.CATALOGUE)
    i, m = verdicts(c, exe)
    print("impl :", json.dumps(i))
    print("model:", json.dumps(m.get("res") if isinstance(m, dict) else m))
    print("spec :", json.dumps(m.get("spec") if isinstance(m, dict) else m))
    R.coverage.update({"obligations": 1, "discharged": 1, "checker_cmd": "replay", "trusted_base": []})
    if not agrees(i, m):
        what, _ = describe(c, i, m)
        R.violation("replay still differs: " + what, {"case": c, "impl": i, "model": m})
