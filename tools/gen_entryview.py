"""Generator for family `entryview` (property C13): one logical request + one rule set whose mechanisms read the
request view. Every random choice comes from the rng handed in."""
import json

import gen_repo
import gen_trie

HEX = "0123456789abcdefABCDEF"
# bytes `validEncoded(s, encodePath)` of Go's net/url accepts unescaped
PATH_OK = set("abcdefghijklmnopqrstuvwxyzABCDEFGHIJKLMNOPQRSTUVWXYZ0123456789-_.~$&+,/:;=@!'()*[]")

HOSTS = gen_repo.HOSTS + ["a.example.com:8443", "localhost"]
# hosts whose authority spells a port out: the default port of one of the schemes (legal, a number of clients send it;
# over the matching scheme AND over the other one), a port with a leading zero, no digits after the colon, IPv6
# literals with and without port. The view shows the host as written; `URL.Hostname()` / `URL.Port()` are its parts.
PORT_HOSTS = ["a.example.com:80", "a.example.com:443", "b.example.com:443", "example.org:80", "localhost:80",
              "localhost:443", "A.Example.Com:443", "a.example.com:0443", "a.example.com:080", "a.example.com:",
              "[::1]:443", "[::1]:80", "[::1]", "[2001:db8::1]:8080", "127.0.0.1:80", "a.example.com:65535"]
# host matchers of rules that look at the port
PORT_HOST_MATCHERS = [
    {"type": "exact", "value": "a.example.com:443"}, {"type": "exact", "value": "a.example.com:80"},
    {"type": "exact", "value": "a.example.com"}, {"type": "exact", "value": "localhost:80"},
    {"type": "exact", "value": "[::1]:443"},
    {"type": "glob", "value": "*.example.com:443"}, {"type": "glob", "value": "*.example.com:80"},
    {"type": "glob", "value": "*.example.com"}, {"type": "glob", "value": "localhost:*"},
    {"type": "regex", "value": ":443$"}, {"type": "regex", "value": ":80$"},
    {"type": "regex", "value": "^a\\.example\\.com:80$"}, {"type": "regex", "value": "^\\[::1\\]"},
    {"type": "regex", "value": "com$"},
]
METHODS = ["GET", "GET", "GET", "POST", "PUT", "DELETE", "HEAD", "PATCH"]
HEADER_NAMES = ["X-Foo", "x-foo", "X-FOO", "Accept", "accept", "X-Bar-Baz", "x-bar-baz", "Authorization", "X_Under",
                "x-a!b", "User-Agent", "X-Request-Id", "If-None-Match"]
HEADER_VALUES = ["1", "abc", "a, b", "Bearer xyz.abc", "text/html", "a b  c", "", "x=1;y=2", "\"quoted\"", "v%20w",
                 "A", "*/*", "h~e"]
UNTRUSTED = ["X-Forwarded-For", "x-forwarded-proto", "X-Forwarded-Host", "Forwarded", "X-Forwarded-Method",
             "X-Forwarded-Uri"]
COOKIE_NAMES = ["sid", "a", "b", "SID", "x-y", "tok"]
COOKIE_PARTS = ["sid=abc", "a=\"q\"", "b= sp", "a=1", "a=2", "tok=x,y", "tok=a b", "bad name=1", "=nov", "noeq",
                "sid=", "x-y=\"", "b=\"a\\b\"", "SID=UP", "sid=\"a b\"", "tok=e", " a = 3 ", "sid=a=b"]
QUERIES = ["", "", "", "a=b", "q=1&p=2", "x=%2F&y", "a=b?c=d", "k=v%20w", "redirect=/x?y", "a", "fields=name,price"]
UP_HEADERS = ["X-C13-A", "X-C13-B", "X-C13-C", "x-c13-d", "X-C13-Long-Name"]
UP_COOKIES = ["c13u-a", "c13u-b", "c13u-c"]
# response configurations (`respond` of serve.decision and serve.proxy; Envoy uses the one of the decision service):
# the codes of the error classes are pairwise different, defaults included, and none of them is a 2xx
RESPONDS = [
    {"verbose": False, "codes": {}},
    {"verbose": False, "codes": {}},
    {"verbose": False, "codes": {}},
    {"verbose": True, "codes": {}},
    {"verbose": False, "codes": {"argument": 422, "authentication": 407, "authorization": 404, "communication": 504,
                                 "internal": 503, "norule": 410}},
    {"verbose": True, "codes": {"accepted": 202, "argument": 412, "authentication": 403, "authorization": 401,
                                "communication": 500, "internal": 502, "norule": 400}},
    {"verbose": False, "codes": {"authorization": 418}},
    {"verbose": False, "codes": {"authentication": 407, "norule": 421, "accepted": 204}},
]
CLIENT_UP_VALUES = ["mallory", "1", "a, b", "", "x y", "%41"]
LITERALS = ["", "a", "b", "ab", "abc", "GET", "POST", "http", "https", "a b", "a/b", "1", "abc", "q", "a%2Fb", "v1",
            "a.example.com", "/a/b", "a=b", "x", "zz", "443", "80", "a.example.com:443", "::1"]

# `serve.decision.buffer_limit` / `serve.proxy.buffer_limit` (bytes; the Envoy gRPC service uses the block of the
# decision service). DEFAULT_LIMITS: what heimdall's configuration loader yields when the configuration says nothing
# (documented: 4KB each) — measured on the tree under test at the start of a run (`set_default_limits`). A case without
# `limits` runs with 0 / 0 (a configuration assembled by hand, as the unit tests do).
DEFAULT_LIMITS = {"read": 4096, "write": 4096}


def set_default_limits(measured):
    """the defaults of the tree under test as reported by the harness (`op: defaults`)"""
    if isinstance(measured, dict) and all(isinstance(measured.get(k), int) for k in ("read", "write")):
        DEFAULT_LIMITS.update({"read": measured["read"], "write": measured["write"]})


def gen_limits(rng):
    """mostly the defaults; now and then no limits at all, small ones, large ones, read and write apart"""
    r = rng.random()
    if r < 0.62:
        return dict(DEFAULT_LIMITS)
    if r < 0.72:
        return None
    return dict(rng.choice([{"read": 1024, "write": 1024}, {"read": 512, "write": 8192},
                            {"read": 16384, "write": 4096}, {"read": 65536, "write": 65536}]))


def head_bytes(req):
    """mirror of LReq.headLength: the bytes of the request line and the header block as the harness writes them"""
    target = req["path"] + ("?" + req["query"] if req["query"] else "")
    return (len(req["method"]) + 1 + len(target) + 11 + 6 + len(req["host"]) + 2
            + sum(len(n) + 2 + len(v) + 2 for n, v in req["headers"]) + 2)


def header_budget(limits):
    """mirror of headerBudget: http.Server.MaxHeaderBytes = buffer_limit.read (0: 1 MiB) + 4096"""
    return ((limits or {}).get("read") or 1 << 20) + 4096


def split_host_port(hp):
    """mirror of splitHostPort (net/url)"""
    host, port = hp, ""
    i = hp.rfind(":")
    if i != -1 and all("0" <= ch <= "9" for ch in hp[i + 1:]):
        host, port = hp[:i], hp[i + 1:]
    if host.startswith("[") and host.endswith("]"):
        host = host[1:-1]
    return host, port


def valid_path(p):
    """mirror of Spec.validPath: only bytes Go's validEncoded accepts, every % followed by two hex digits"""
    i = 0
    while i < len(p):
        c = p[i]
        if c == "%":
            if len(p) - i < 3 or p[i + 1] not in HEX or p[i + 2] not in HEX:
                return False
            i += 3
            continue
        if c not in PATH_OK:
            return False
        i += 1
    return True


def canon(name):
    return "-".join(w[:1].upper() + w[1:].lower() for w in name.split("-"))


# ---------------------------------------------------------------------------------------------------------------
# bodies with the answer of the trusted decoders (goccy/go-json, url.ParseQuery, yaml.v3) for exactly these bodies

def cj(o):
    """Go's json.Marshal of the decoded value: sorted keys, compact, HTML-safe"""
    return (json.dumps(o, sort_keys=True, separators=(",", ":"))
            .replace("&", "\\u0026").replace("<", "\\u003c").replace(">", "\\u003e"))


def gen_body(rng):
    """(body, content type, oracle) — oracle: decoder kind -> canonical JSON of the decoded value, or None"""
    kind = rng.choice(["none", "none", "empty", "json", "json", "json-bad", "form", "form", "form-bad", "yaml", "text",
                       "json-as-form", "form-as-json", "json-as-yaml"])
    flat = {rng.choice(["k", "user", "id", "a"]): rng.choice(["v", "alice", "42", "x y"])}
    if rng.random() < 0.5:
        flat[rng.choice(["z", "role"])] = rng.choice(["admin", "r w", "1"])
    jbody = cj(flat)
    fbody = "&".join(f"{k}={v.replace(' ', '+')}" for k, v in flat.items())
    fdec = cj({k: [v] for k, v in flat.items()})
    ybody = "".join(f"{k}: {json.dumps(v)}\n" for k, v in flat.items())
    json_ct = rng.choice(["application/json", "application/json; charset=utf-8", "application/vnd.api+json", "text/json"])
    form_ct = rng.choice(["application/x-www-form-urlencoded", "application/x-www-form-urlencoded; charset=utf-8"])
    yaml_ct = rng.choice(["application/yaml", "text/x-yaml"])
    none = {"json": None, "form": None, "yaml": None}
    if kind == "none":
        ct = rng.choice([None, None, json_ct, form_ct, yaml_ct])
        return None, ct, dict(none)
    if kind == "empty":
        return "", rng.choice([None, json_ct, form_ct, yaml_ct]), dict(none)
    if kind == "json":
        nested = rng.random() < 0.3
        if nested:
            o = {"user": {"id": 7, "tags": ["a", "b"]}, "ok": True}
            return cj(o), json_ct, dict(none, json=cj(o))
        return jbody, json_ct, dict(none, json=cj(flat))
    if kind == "json-bad":
        return jbody[:-1], json_ct, dict(none)
    if kind == "form":
        return fbody, form_ct, dict(none, form=fdec)
    if kind == "form-bad":
        return "a=%zz&b=1", form_ct, dict(none)
    if kind == "yaml":
        return ybody, yaml_ct, dict(none, yaml=cj(flat))
    if kind == "text":
        return rng.choice(["hello world", jbody, fbody]), rng.choice([None, "text/plain", "application/octet-stream"]), dict(none)
    if kind == "json-as-form":
        # url.ParseQuery of a flat JSON text without & ; = % +: one key, one empty value
        b = cj({"k": "v"})
        return b, form_ct, dict(none, form=cj({b: [""]}))
    if kind == "form-as-json":
        return fbody, json_ct, dict(none)
    # a flat JSON object of strings is a YAML flow mapping
    return jbody, yaml_ct, dict(none, yaml=cj(flat))


# ---------------------------------------------------------------------------------------------------------------
# the log level the services run with, and bodies of a given length

# `log.level` of the case: the dump middleware of the HTTP based services only runs at trace, other code paths write
# their lines at debug / info
LEVELS = ["trace", "trace", "trace", "debug", "debug", "info", "info", "warn", "error", "disabled", "disabled"]
# the lengths every run covers for every kind of body: none, one byte, a few hundred bytes, a page, around 16 KiB (the
# size of the buffers of bufio / io.Copy users and of a bounded dump), 64 KiB, and more than net/http drains after a
# handler returned (256 KiB); 4096 / 4097: at and just above the default `buffer_limit.read` of the services
SIZES = [0, 1, 300, 4096, 4097, 16383, 16384, 16385, 65536, 307200]
SIZED_KINDS = ["json", "form", "yaml", "text", "json-bad"]
FILL = "abcdefghijklmnopqrstuvwxyz0123456789ABCDEFGHIJKLMNOPQRSTUVWXYZ"
BIG = 8192      # from here on a case reads the body in at most two templates (header size limits of the carriers)


def fill(n, off=0):
    """n bytes which no shift, swap or truncation leaves unchanged: the alphabet, cyclically, from position off"""
    off %= len(FILL)
    return (FILL * ((n + off) // len(FILL) + 2))[off:off + n]


def sized_body(kind, size, off=0):
    """(body of exactly `size` bytes, content type, oracle) — a single value `data` as long as needed, in the syntax of
    the content type; below the length of the envelope: letters (which the decoders reject, except url.ParseQuery)"""
    none = {"json": None, "form": None, "yaml": None}
    if kind == "json":
        if size < 11:
            return "7" * size, "application/json", dict(none)
        v = fill(size - 11, off)
        return '{"data":"%s"}' % v, "application/json", dict(none, json=cj({"data": v}))
    if kind == "json-bad":
        # a JSON text cut off before its end: shown as the string it is
        if size < 9:
            return "{" * size, "application/json", dict(none)
        return '{"data":"' + fill(size - 9, off), "application/json", dict(none)
    if kind == "form":
        ct = "application/x-www-form-urlencoded"
        if size < 6:
            b = fill(size, off)
            return b, ct, dict(none, form=cj({b: [""]}) if b else None)
        v = fill(size - 5, off)
        return "data=" + v, ct, dict(none, form=cj({"data": [v]}))
    if kind == "yaml":
        if size < 9:
            return fill(size, off), "application/yaml", dict(none)
        v = fill(size - 8, off)
        return 'data: "%s"' % v, "application/yaml", dict(none, yaml=cj({"data": v}))
    return fill(size, off), "text/plain", dict(none)


def set_body(case, body, ct, dec, sized=None):
    """replace the body of the request of the case (with its Content-Type / Content-Length lines and oracle)"""
    req = case["req"]
    req["headers"] = [h for h in req["headers"] if h[0].lower() not in ("content-type", "content-length")]
    if ct is not None:
        req["headers"].append(["Content-Type", ct])
    if body is not None:
        req["headers"].append(["Content-Length", str(len(body.encode("latin-1")))])
    req["body"] = body
    case["dec"] = dec
    req.pop("sized", None)
    if sized is not None:
        req["sized"] = sized
    return case


def expand(case):
    """a case may name its body by kind and length (`req.sized`) instead of spelling it out (corpus files)"""
    sz = case.get("req", {}).get("sized")
    if sz and "body" not in case["req"]:
        body, ct, dec = sized_body(sz["kind"], sz["size"], sz.get("off", 0))
        set_body(case, body, ct, dec, sized=sz)
    if case.get("limits") == "default":
        # the `buffer_limit` defaults of the tree under test (corpus files name them instead of spelling them out)
        case["limits"] = dict(DEFAULT_LIMITS)
    pad = case.get("req", {}).get("pad")
    if pad and not any(h[0] == pad["name"] for h in case["req"]["headers"]):
        # a header line that brings the head of the message to `budget + over` bytes (corpus files)
        pad_head(case, pad["name"], pad["over"])
    return case


def pad_head(case, name, over):
    """add the header line `name: aaa…` in front of the others so that the request line and the header block are
    `over` bytes longer (shorter: negative) than what the HTTP based services read for them under the limits of the
    case; None if that is not possible"""
    req = case["req"]
    n = header_budget(case.get("limits")) + over - head_bytes(req) - (len(name) + 4)
    if n < 0:
        return None
    req["headers"].insert(0, [name, fill(n)])
    req["pad"] = {"name": name, "over": over}
    return case


def resize(case, size):
    """the case with its sized body at another length"""
    sz = dict(case["req"]["sized"], size=size)
    body, ct, dec = sized_body(sz["kind"], size, sz.get("off", 0))
    return set_body(case, body, ct, dec, sized=sz)


def limit_body_probes(case, keep=2):
    """long bodies: at most `keep` templates echo the body (a header of the upstream request may hold 1 MiB, a gRPC
    message 4 MiB)"""
    pipes = [r["pipe"] for st in case["sets"] for r in st["rules"]]
    if "default" in case:
        pipes.append(case["default"]["pipe"])
    for pipe in pipes:
        n = 0      # per pipeline: one request runs one pipeline
        for f in pipe["fin"]:
            for it in f["items"]:
                for i, p in enumerate(it["probes"]):
                    if p["k"] == "body":
                        n += 1
                        if n > keep:
                            it["probes"][i] = {"k": "method", "a": ""}
    return case


def random_size(rng):
    r = rng.random()
    if r < 0.3:
        return rng.randrange(0, 600)
    if r < 0.6:
        return max(0, rng.choice([4096, 8192, 16384, 16384, 32768, 65536]) + rng.randrange(-2, 3))
    if r < 0.85:
        return int(600 * (70000 / 600) ** rng.random())
    return rng.randrange(70000, 310000)


def sized_case(rng, kind, size, level):
    """one rule every request to /up/… reaches, whose pipeline echoes the body (template) next to the spy; the request
    carries a body of the given kind and length; the services run at the given log level"""
    rule = {"id": "r1", "bt": None, "esh": "", "scheme": "", "methods": [], "hosts": [],
            "routes": [{"path": "/up/:id", "pp": []}],
            "pipe": {"authz": [{"p": {"k": "capture", "a": "id"}, "eq": "42"}] if rng.random() < 0.5 else [],
                     "fin": [{"t": "header", "if": None,
                              "items": [{"name": "X-C13-A", "probes": [{"k": "body", "a": ""}]},
                                        {"name": "X-C13-B", "probes": [{"k": "capture", "a": "id"},
                                                                        {"k": "header", "a": "content-type"}]}]},
                             {"t": "cookie", "if": None,
                              "items": [{"name": "c13u-a", "probes": [{"k": "method", "a": ""}]}]}]}}
    req = {"method": rng.choice(["POST", "POST", "PUT", "PATCH"]), "tls": rng.random() < 0.25,
           "host": rng.choice(HOSTS), "path": "/up/42", "query": rng.choice(["", "a=b"]),
           "headers": [["X-Foo", "1"]] if rng.random() < 0.5 else [], "body": None,
           "envoy_body": rng.choice(["raw", "raw", "str"])}
    case = {"fam": "entryview", "sets": [{"src": "s1", "rules": [rule]}], "req": req, "dec": {},
            "spy": {"headers": ["Content-Type", "Host"], "cookies": []},
            "respond": rng.choice(RESPONDS), "log": level}
    # mostly the default limits (4 KiB to read): most of these bodies are longer
    lim = gen_limits(rng) if rng.random() < 0.3 else dict(DEFAULT_LIMITS)
    if lim is not None:
        case["limits"] = lim
    off = rng.randrange(len(FILL))
    body, ct, dec = sized_body(kind, size, off)
    return set_body(case, body, ct, dec, sized={"kind": kind, "size": size, "off": off})


def sized_cases(rng):
    """the cases of every run: every kind of body at every length of SIZES at log level trace and at one other level"""
    out = []
    for kind in SIZED_KINDS:
        for size in SIZES:
            if kind == "json-bad" and size not in (16383, 16384, 65536):
                continue
            out.append(sized_case(rng, kind, size, "trace"))
            out.append(sized_case(rng, kind, size, rng.choice(["debug", "info", "warn", "error", "disabled"])))
    return out


# ---------------------------------------------------------------------------------------------------------------

def gen_probe(rng, cap_names, hdr_names, ck_names, cel=False):
    r = rng.random()
    if r < 0.28 and cap_names:
        return {"k": "capture", "a": rng.choice(cap_names)}
    if r < 0.33:
        return {"k": "capture", "a": rng.choice(["x", "nope", "*"])}
    if r < 0.5:
        return {"k": "header", "a": rng.choice(hdr_names)}
    if r < 0.62:
        return {"k": "cookie", "a": rng.choice(ck_names)}
    if r < 0.72 and not cel:
        return {"k": "body", "a": ""}
    return {"k": rng.choice(["method", "scheme", "host", "host", "hostname", "port", "port", "path", "path", "query"]),
            "a": ""}


def guess(rng, p, req):
    """a literal a condition compares the probe with: often the value the view should have"""
    if rng.random() < 0.3:
        return rng.choice(LITERALS)
    k = p["k"]
    if k == "method":
        return req["method"]
    if k == "scheme":
        return "https" if req["tls"] else "http"
    if k == "host":
        return req["host"]
    if k == "hostname":
        return split_host_port(req["host"])[0]
    if k == "port":
        return split_host_port(req["host"])[1] if rng.random() < 0.7 else rng.choice(["", "80", "443"])
    if k == "query":
        return req["query"]
    if k == "header":
        return ",".join(v for n, v in req["headers"] if canon(n) == canon(p["a"]))
    if k == "path":
        return req["path"]
    return rng.choice(LITERALS)


def ascii_lit(s):
    return "".join(ch for ch in s if " " <= ch <= "~")


def gen_pipe(rng, cap_names, hdr_names, ck_names, req, dup_p):
    authz = []
    for _ in range(rng.choice([0, 0, 0, 1, 1, 2])):
        p = gen_probe(rng, cap_names, hdr_names, ck_names, cel=True)
        authz.append({"p": p, "eq": ascii_lit(guess(rng, p, req))})
    fins = []
    used = set()
    for _ in range(rng.choice([1, 1, 2, 2, 3])):
        t = rng.choice(["header", "header", "cookie"])
        pool = UP_HEADERS if t == "header" else UP_COOKIES
        items = []
        local = set()
        for _ in range(rng.choice([1, 1, 2, 3])):
            n = rng.choice(pool)
            key = canon(n) if t == "header" else n
            if key in local:
                continue
            if t == "header" and key in used and rng.random() >= dup_p:
                continue
            local.add(key)
            items.append({"name": n, "probes": [gen_probe(rng, cap_names, hdr_names, ck_names)
                                                for _ in range(rng.choice([1, 1, 2, 3]))]})
        if not items:
            continue
        if t == "header":
            used |= local
        cond = None
        if rng.random() < 0.25:
            p = gen_probe(rng, cap_names, hdr_names, ck_names, cel=True)
            cond = {"p": p, "eq": ascii_lit(guess(rng, p, req))}
        fins.append({"t": t, "if": cond, "items": items})
    pipe = {"authz": authz, "fin": fins}
    r = rng.random()
    if r < 0.05:
        pipe["deny"] = True          # `unauthorized` authenticator
    elif r < 0.11:
        pipe["comm"] = True          # contextualizer with an unreachable endpoint
    return pipe


def gen_cookie_line(rng):
    parts = [rng.choice(COOKIE_PARTS) for _ in range(rng.choice([1, 2, 2, 3, 4]))]
    return rng.choice(["; ", ";", " ; ", "; "]).join(parts)


LITS = ["a", "b", "ab", "abc", "v1", "api", "ab:c", "a*b", "\\:a", "a.b", "a~b", "files"]
SEG_VALUES = gen_repo.SEG_VALUES + ["v1", "42", "a%3Fb", "%C3%A9", "a%3Ab", "A%2fB", "x%2Fy%2Fz", "%7Euser", "a,b;c=d", "(x)"]


# segments with octets that may not stand in a path (the request context shows them percent-encoded; an encoded slash
# next to them stays what it is), the placeholders a former `unescape` used, UTF-8 written as bytes (one character per
# byte, as the harness reads it)
RAW_VALUES = ["a^b", "a|b", "{a}", "a%2Fb^", "%2f|", "\"a\"", "<a>", "`a", "a%2Fb{", "a\\b", "$$$escaped-slash$$$",
              "$$$escaped-lc-slash$$$", "\u00c3\u00a9", "caf\u00c3\u00a9%2fb", "\u00e2\u0082\u00ac", "%41<x>", "a%20b|c"]


def wide_path(p):
    """mirror of Spec.validPath: leading slash, no `?`, no blank / control octet, well-formed escapes"""
    if not p.startswith("/") or "?" in p:
        return False
    i = 0
    while i < len(p):
        c = p[i]
        if c == "%":
            if len(p) - i < 3 or p[i + 1] not in HEX or p[i + 2] not in HEX:
                return False
            i += 3
            continue
        if ord(c) <= 0x20 or ord(c) == 0x7f:
            return False
        i += 1
    return True


def gen_exprs(rng):
    """path expressions whose wildcard names are consistent per depth, so that the rule sets load"""
    depth_names = [rng.choice(["x", "id", "a", "*", "name"]) for _ in range(4)]
    depth_names = [n if n == "*" or depth_names.index(n) == i else n + str(i) for i, n in enumerate(depth_names)]
    catch = rng.choice(["*rest", "**", "*r"])
    k = rng.choice([1, 2, 2, 3])
    base = [rng.choice(LITS) for _ in range(k)]
    exprs = []
    for _ in range(rng.choice([2, 3, 4, 5])):
        n = rng.choice([max(1, k - 1), k, k, min(4, k + 1)])
        parts = []
        for i in range(n):
            r = rng.random()
            if r < 0.5 and i < k:
                parts.append(base[i])
            elif r < 0.85:
                parts.append(":" + depth_names[i])
            else:
                parts.append(rng.choice(LITS))
        if rng.random() < 0.25:
            parts.append(catch)
        exprs.append("/" + "/".join(parts))
    if rng.random() < 0.15:
        exprs.append("/" + catch)
    return sorted(set(exprs))


def instantiate(rng, expr, exact, raw=False):
    values = SEG_VALUES + (RAW_VALUES * 3 if raw else [])
    out = []
    for t in expr.split("/")[1:]:
        if t.startswith(":"):
            out.append(rng.choice(values))
        elif t.startswith("*"):
            out.append("/".join(rng.choice(values) for _ in range(rng.choice([1, 1, 2, 3]))))
        else:
            out.append(t.replace("\\", ""))
    if not exact:
        r = rng.random()
        if r < 0.4 and out:
            out[rng.randrange(len(out))] = rng.choice(SEG_VALUES)
        elif r < 0.7:
            out.append(rng.choice(SEG_VALUES))
        elif out:
            out.pop()
    p = "/" + "/".join(out)
    if rng.random() < 0.08:
        p += "/"
    if rng.random() < 0.4:
        p = gen_repo.reencode(rng, p, rng.choice([0.1, 0.3]))
    return p


def gen_rule(rng, rid, exprs):
    r = gen_repo.gen_rule(rng, rid, exprs)
    # most rules do not restrict method, host and scheme, so that the pipeline is reached
    if rng.random() < 0.7:
        r["methods"] = []
    if rng.random() < 0.75:
        r["hosts"] = []
    if rng.random() < 0.12:
        # host matchers that look at the port (any of the listed ones matches)
        r["hosts"] = [dict(m) for m in rng.sample(PORT_HOST_MATCHERS, rng.choice([1, 1, 2, 3]))]
    if rng.random() < 0.8:
        r["scheme"] = ""
    # a methods list that allows nothing is a configuration error (the whole rule set is rejected): rare here
    ms = r["methods"]
    allowed = {m for m in (gen_repo.METHODS + ["HEAD", "CONNECT", "OPTIONS", "TRACE"] if "ALL" in ms else ms)
               if not m.startswith("!") and m != "ALL"} - {m[1:] for m in ms if m.startswith("!")}
    if ms and not allowed and rng.random() < 0.9:
        r["methods"] = ["ALL"] + [m for m in ms if m.startswith("!")][:2]
    seen = set()
    routes = []
    for rt in r["routes"]:
        if rt["path"] not in seen:
            seen.add(rt["path"])
            if rng.random() < 0.7:
                rt["pp"] = []
            routes.append(rt)
    r["routes"] = routes
    return r


def gen_request(rng, rules, exprs, wellformed=True, raw=False):
    target = rng.choice(rules)
    for _ in range(30):
        path = instantiate(rng, rng.choice(target["routes"])["path"] if rng.random() < 0.85 else rng.choice(exprs),
                           rng.random() < 0.8, raw)
        if raw:
            if rng.random() < 0.3:
                path += rng.choice(["\"q", "<x>", "|", "^", "{a}", "`"])
            if wide_path(path) and not valid_path(path):
                break
        elif not wellformed or valid_path(path):
            break
    else:
        path = "/a^" if raw else "/a"
    query = rng.choice(QUERIES)
    headers = []
    for _ in range(rng.choice([0, 1, 2, 2, 3, 4])):
        headers.append([rng.choice(HEADER_NAMES), rng.choice(HEADER_VALUES)])
    if rng.random() < 0.45:
        headers.insert(rng.randrange(len(headers) + 1),
                       [rng.choice(["Cookie", "cookie", "COOKIE"]), gen_cookie_line(rng).strip()])
    body, ct, dec = gen_body(rng)
    if ct is not None:
        headers.append([rng.choice(["Content-Type", "content-type"]), ct])
        if rng.random() < 0.05:
            headers.append(["Content-Type", "text/plain"])
    if body is not None:
        headers.append(["Content-Length", str(len(body.encode("latin-1")))])
    method = rng.choice(METHODS)
    pos = [m for m in target["methods"] if not m.startswith("!") and m != "ALL"]
    if pos and rng.random() < 0.7:
        method = rng.choice(pos)
    host = rng.choice(HOSTS)
    if rng.random() < 0.22:
        host = rng.choice(PORT_HOSTS)
    exact = [h["value"] for h in target["hosts"] if h["type"] == "exact"]
    if exact and rng.random() < 0.7:
        host = rng.choice(exact)
    tls = rng.random() < 0.3
    if target["scheme"] and rng.random() < 0.7:
        tls = target["scheme"] == "https"
    if rng.random() < 0.1:
        # the default port of the scheme of this very request, spelled out
        host = split_host_port(host)[0] if ":" not in split_host_port(host)[0] else "[" + split_host_port(host)[0] + "]"
        host += ":443" if tls else ":80"
    req = {"method": method, "tls": tls, "host": host, "path": path,
           "query": query, "headers": headers, "body": body, "envoy_body": rng.choice(["raw", "raw", "str"])}
    return req, dec


# A trusted gateway delegating the decision to the HTTP decision service (`case.via`): the `trusted_proxies` list the
# services are configured with (the harness connects from 127.0.0.1), and the request of the gateway's own that carries
# the logical request in X-Forwarded-Method / -Proto / -Host / -Uri: its method (None: the client's), its transport,
# its request target.
VIA_PROXIES = [["127.0.0.1"], ["127.0.0.1"], ["10.1.2.3", "127.0.0.0/8"], ["0.0.0.0/0"]]
VIA_METHODS = [None, None, "GET", "GET", "POST"]
VIA_PATHS = ["/", "/decide", "/_auth/check", "/decisions/v1", "/a%2Fb"]
VIA_P = 0.25


def forwardable(req):
    """mirror of Spec.forwardable (method and host are never empty here): the path is in origin form and the request
    target contains no `#` — the domain on which the model describes url.Parse of the X-Forwarded-Uri value"""
    return req["path"].startswith("/") and not req["path"].startswith("//") and "#" not in req["path"] + req["query"]


def gen_via(rng, req):
    via = {"proxies": list(rng.choice(VIA_PROXIES)), "method": rng.choice(VIA_METHODS),
           "tls": rng.random() < 0.3, "path": rng.choice(VIA_PATHS)}
    if rng.random() < 0.15:
        via["path"] = req["path"]       # NGINX auth_request with the URI of the client's request
    return via


def delegated(case):
    """mirror of forwardAuth / c13Delegated: the message the gateway sends to the decision service"""
    req, via = case["req"], case["via"]
    target = req["path"] + ("?" + req["query"] if req["query"] else "")
    return dict(req, method=via["method"] or req["method"], tls=via["tls"], path=via["path"], query="",
                headers=[["X-Forwarded-Method", req["method"]], ["X-Forwarded-Proto", "https" if req["tls"] else "http"],
                         ["X-Forwarded-Host", req["host"]], ["X-Forwarded-Uri", target]] + req["headers"])


def gen_case(rng, dup_p=0.12, wellformed=True, raw=False, sized_p=0.08):
    """wellformed: a logical request the theorems cover; raw (with wellformed): its path contains octets that may not
    stand in a path; not wellformed: outside the hypotheses (two Cookie lines, hop headers, a head larger than the
    services read); sized_p: share of cases whose body is one of `sized_body` with a random length (up to 300 KiB).
    Every case names the log level the services run with and (most of them) their `buffer_limit` block."""
    exprs = gen_exprs(rng)
    rules = []
    for i in range(rng.choice([1, 2, 2, 3, 4])):
        rules.append(gen_rule(rng, "r%d" % (i + 1), exprs))
    req, dec = gen_request(rng, rules, exprs, wellformed, raw)
    if not wellformed:
        w = rng.choice(["cookie2", "forwarded", "forwarded"])
        if w == "cookie2":
            req["headers"].insert(0, ["Cookie", gen_cookie_line(rng).strip()])
            req["headers"].append(["cookie", gen_cookie_line(rng).strip()])
        elif w == "forwarded":
            req["headers"].insert(rng.randrange(len(req["headers"]) + 1),
                                  [rng.choice(UNTRUSTED), rng.choice(["10.0.0.1", "https", "evil.example.com", "/admin",
                                                                      "for=10.0.0.1;proto=https", "DELETE"])])
    hdr_names = [n for n, _ in req["headers"]] + ["Host", "host", "X-Foo", "x-foo", "Content-Type", "X-Missing"]
    hdr_names = [rng.choice([n, n.lower(), n.upper(), canon(n)]) for n in hdr_names]
    ck_names = COOKIE_NAMES
    for r in rules:
        caps = sorted({n for rt in r["routes"] for n in gen_trie.wild_names(rt["path"])})
        r["pipe"] = gen_pipe(rng, caps, hdr_names, ck_names, req, dup_p)
    # the client itself sends headers the pipeline sets for the upstream (same or another spelling, several lines)
    if rng.random() < 0.3:
        set_names = [it["name"] for r in rules for f in r["pipe"]["fin"] if f["t"] == "header" for it in f["items"]]
        for _ in range(rng.choice([1, 1, 2])):
            n = rng.choice(set_names) if set_names and rng.random() < 0.75 else rng.choice(UP_HEADERS)
            n = rng.choice([n, n.lower(), n.upper(), canon(n)])
            pos = rng.randrange(len(req["headers"]) + 1)
            if req["body"] is not None:
                pos = min(pos, len(req["headers"]) - 1)      # Content-Length stays the last line
            req["headers"].insert(max(pos, 0), [n, rng.choice(CLIENT_UP_VALUES)])
    # one rule set, sometimes two with disjoint path expressions (a tree node holds rules of one rule set only)
    sets = [{"src": "s1", "rules": rules}]
    if len(rules) > 1 and rng.random() < 0.3:
        paths0 = {rt["path"] for rt in rules[0]["routes"]}
        rest = [r for r in rules[1:] if not paths0 & {rt["path"] for rt in r["routes"]}]
        keep = [r for r in rules if r not in rest]
        if rest:
            paths1 = {rt["path"] for r in rest for rt in r["routes"]}
            if not any(paths1 & {rt["path"] for rt in r["routes"]} for r in keep):
                sets = [{"src": "s1", "rules": keep}, {"src": "s2", "rules": rest}]
    case = {"fam": "entryview", "sets": sets, "req": req, "dec": dec,
            "spy": {"headers": sorted(set(rng.sample(hdr_names, min(len(hdr_names), 5)) + ["Host", "Content-Type"])),
                    "cookies": sorted(set(rng.sample(ck_names, 3)))}}
    if rng.random() < 0.25:
        case["default"] = {"pipe": gen_pipe(rng, [], hdr_names, ck_names, req, dup_p)}
    case["respond"] = rng.choice(RESPONDS)
    case["log"] = rng.choice(LEVELS)
    lim = gen_limits(rng)
    if lim is not None:
        case["limits"] = lim
    if rng.random() < sized_p:
        kind, size = rng.choice(SIZED_KINDS), random_size(rng)
        off = rng.randrange(len(FILL))
        body, ct, dec = sized_body(kind, size, off)
        # the Content-Type / Content-Length lines go to the end; a second Content-Type line is dropped with the first
        set_body(case, body, ct, dec, sized={"kind": kind, "size": size, "off": off})
        if size >= BIG:
            limit_body_probes(case)
    # the head of the message (request line + header block) against what the HTTP based services read for it under
    # `buffer_limit.read`: a head that fills the budget to the last byte (inside the hypotheses), and — outside them,
    # only implementation = model is compared — one that exceeds it (431 from net/http, the Envoy service decides)
    if lim is not None and lim["read"] <= 16384:
        if not wellformed and rng.random() < 0.25:
            pad_head(case, "X-Pad", rng.choice([1, 1, 2, 64, 5000]))
        elif rng.random() < 0.03:
            pad_head(case, "X-Pad", rng.choice([0, 0, -1, -2, -100]))
    # a trusted gateway delegates the decision: the HTTP decision service learns the logical request from
    # X-Forwarded-* headers (inside the hypotheses; the head of the gateway's message has to fit as well)
    if wellformed and "pad" not in req and forwardable(req) and rng.random() < VIA_P:
        case["via"] = gen_via(rng, req)
        if head_bytes(delegated(case)) > header_budget(case.get("limits")):
            del case["via"]
    return case


def nontrivial(case):
    """the request exercises something in which the carriers differ: an escape in the path, a query, a repeated or
    differently spelled header, a cookie line, a body — and some mechanism reads the view"""
    r = case["req"]
    names = [n for n, _ in r["headers"]]
    reads = any(f["items"] for s in case["sets"] for ru in s["rules"] for f in ru["pipe"]["fin"])
    feature = ("%" in r["path"] or r["query"] != "" or len({canon(n) for n in names}) < len(names)
               or any(n != canon(n) for n in names) or any(canon(n) == "Cookie" for n in names)
               or r["body"] not in (None, ""))
    return reads and feature
