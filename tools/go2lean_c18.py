"""C18 side of the tie by translated source: (*provider).ruleSetsUpdated of the http_endpoint rule provider and
(*Provider).ruleSetCreatedOrUpdated / ruleSetDeleted of the file_system provider are translated
from the current source on every run (extract/go2lean, cmd/providers, Gen/ProvidersSrc.lean) and proved equal to
`httpUpdated` of the model - same processor calls, same remembered digests, same error - for every state and every
fetched rule set (Props/C18Src.lean). Shared machinery: tools/go2lean_tie.py; called from tools/props/c18.py."""
import go2lean_tie as tie

TIE = tie.Tie(
    cmd="providers", gen_module="HeimdallModel.Gen.ProvidersSrc", stub_namespace="Heimdall.Prov.Src",
    what="the decision kernels of the http_endpoint and file_system providers",
    trusted="Go -> Lean translator extract/go2lean (go/ast, fails closed outside its subset; regenerates "
            "Gen/ProvidersSrc.lean from the whole body of (*provider).ruleSetsUpdated of internal/rules/provider/httpendpoint "
            "on every run): trusted to keep the meaning of the statements it translates; its table (cmd/providers/main.go): "
            "p.states.Load / Store / Delete and the processor's OnCreated / OnUpdated / OnDeleted are uninterpreted "
            "functions acting on the context, len(ruleSet.Rules) == 0 and bytes.Equal(hash, ruleSet.Hash) are atoms, a "
            "type assertion between two Go types of one Lean type is the identity, log statements are dropped")
PROP = tie.Prop("HeimdallModel.Props.C18Src", "Heimdall.Props.C18", always=("HeimdallModel.Model.ProvidersSrc",))

ASSUMPTION = (
    "translated source (Gen/ProvidersSrc.lean): ruleSetsUpdated of the http_endpoint provider and ruleSetCreatedOrUpdated / "
    "ruleSetDeleted of the file_system provider are translated (what loadRuleSet returns for the file is a parameter); the "
    "state map and the processor are parameters which Model/ProvidersSrc.lean fills in with the book / the repository of "
    "the model (a refusing processor changes nothing); fetching, decoding and the polling loop, and the kernels of the "
    "other providers (maps and slices the translator does not read) are tied by the correspondence run")

SEARCH = r"""
import HeimdallModel.Model.ProvidersSrc
open Heimdall Heimdall.Prov Heimdall.Prov.SrcTie

def books : List (Book Nat) := [[], [(7, 1)], [(7, 2)], [(8, 1)], [(8, 1), (7, 1)]]

def main : IO Unit := do
  let mut n := 0
  for b in books do
    for rs in [none, some 1, some 2] do
      for rej in [[], [7], [8]] do
        let st : St Nat := ⟨b, b⟩
        let want := httpUpdated rej st 7 rs
        let ok := match httpSrc rej 7 rs (st, []) with
          | .done e (st', tr) => e.isSome == want.err && st'.book == want.st.book && st'.active == want.st.active && tr == want.calls
          | .panic _ _ => false
        if !ok && n < 20 then
          n := n + 1
          let got := match httpSrc rej 7 rs (st, []) with
            | .done e (st', tr) => s!"error={e.isSome} book={repr st'.book} active={repr st'.active} calls={repr tr}"
            | .panic _ _ => "panic"
          IO.println s!"\{\"remembered\": \"{repr b}\", \"fetched\": \"{repr rs}\", \"refused_sources\": \"{rej}\", \"src\": \"{got.replace "\n" " "}\", \"model\": \"error={want.err} book={repr want.st.book} active={repr want.st.active} calls={(toString (repr want.calls)).replace "\n" " "}\"}"
  for b in ([[], [(7, 1)], [(7, 2)], [(7, 0)], [(8, 1)]] : List (Book Nat)) do
    for f in [FileState.missing, .empty, .invalid, .valid 1, .valid 2] do
      for rej in [[], [7]] do
        let st : St Nat := ⟨b, b.filter (·.2 ≠ 0)⟩
        let want := fsCreatedOrUpdated rej st 7 f
        let ok := match fsChangedSrc rej 7 f (st, []) with
          | .done e (st', tr) => e.isSome == want.err && st'.book == want.st.book && st'.active == want.st.active && tr == want.calls
          | .panic _ _ => false
        if !ok && n < 20 then
          n := n + 1
          let got := match fsChangedSrc rej 7 f (st, []) with
            | .done e (st', tr) => s!"error={e.isSome} book={repr st'.book} active={repr st'.active} calls={repr tr}"
            | .panic _ _ => "panic"
          IO.println s!"\{\"remembered\": \"{repr b}\", \"fetched\": \"file {repr f}\", \"refused_sources\": \"{rej}\", \"src\": \"{got.replace "\n" " "}\", \"model\": \"error={want.err} book={repr want.st.book} active={repr want.st.active} calls={(toString (repr want.calls)).replace "\n" " "}\"}"
  IO.println s!"\{\"differing\": {n}}"
"""


def step(R):
    res = tie.step(R, TIE, PROP)
    R.lean_src = res
    R.assumptions.append(ASSUMPTION)
    return res


def report(R):
    try:
        _report(R)
    finally:
        tie.restore(TIE)


def _report(R):
    res = getattr(R, "lean_src", None)
    if res is None or res["ok"]:
        return
    if res["translate_error"]:
        R.violation("ruleSetsUpdated of the http_endpoint provider can no longer be translated to Lean (extract/go2lean "
                    "fails closed; the theorems c18_src_* of Props/C18Src.lean say nothing about this code): "
                    + res["translate_error"],
                    {"translator": "extract/go2lean cmd/providers", "error": res["translate_error"],
                     "kind": "src-untranslatable"}, no_input=True)
        return
    named = tie.named(res)
    payload = {"lean_log": res["log"], "failed": res["failed"], "theorems": res["failed_theorems"], "kind": "src-vs-model"}
    rc, rows, log = tie.run_lean(R, TIE, PROP, "c18src_search.lean", SEARCH)
    if rc is None or rc != 0:
        R.violation("the Lean translation of ruleSetsUpdated (Gen/ProvidersSrc.lean) or its instantiation with the model's "
                    "state (Model/ProvidersSrc.lean) does not compile: " + log[-600:], dict(payload, lean_log=log),
                    no_input=True)
        return
    diff = [r for r in rows if "src" in r]
    R.coverage["src_search"] = {"grid": "http: 5 books x 3 fetched rule sets x 3 sets of refused sources; file system: 5 books x 5 file states x 2",
                                "points_where_translation_differs_from_model": len(diff)}
    if diff:
        d = diff[0]
        R.violation(f"the translated ruleSetsUpdated does {d['src']} where the model (provider converging to the latest "
                    f"valid content) does {d['model']} for remembered digests {d['remembered']}, fetched {d['fetched']}, "
                    f"refused sources {d['refused_sources']} (theorems that no longer check: {named})",
                    dict(payload, point=d, points=diff), no_input=True)
    else:
        R.violation(f"theorems of Props/C18Src.lean no longer check: {named}; on the search grid the translated kernel "
                    "behaves like the model (the proof script does not cover this shape of the code)", payload,
                    no_input=True)
