"""Generators for the `authn` family (property C04): mechanism catalogues, chains, credentials, requests and the
ground truth ("world") of what lies outside heimdall.

A case is one catalogue of real authenticator definitions, one rule (a chain of steps, each optionally overriding
`allow_fallback_on_error`), a set of credentials (JWT descriptions the harness signs with its own keys, opaque
tokens / session values whose introspection / identity answers the harness' servers give) and a list of requests.
The implementation side sees the concrete configuration and requests; the model side sees the abstract authenticators,
the requests as the extractors see them and the *world*: for every credential string that can reach an
authenticator, what its check says (by construction of the credential, not by running any model).
"""
import base64
import json
import re

ISS_GOOD = "https://good.example"
ISS_EVIL = "https://evil.example"
ISS_OTHER = "https://other.example"

KNOWN_KIDS = {"k1": "ES256", "k2": "ES256", "k3": "ES384"}   # kid -> algorithm stated in the key set
DEFAULT_ALGS = ["ES256", "ES384", "ES512", "PS256", "PS384", "PS512"]

FOREIGN = "foreign"


def chain(*es):
    return {"chain": list(es)}


def kind(k):
    return {"k": k}


ASSERTION = chain(FOREIGN)                    # oauth2.ErrAssertion / ErrTokenNotActive / ErrSessionValidity
SUBJECT_MISSING = chain(kind("configuration"))  # SubjectInfo.CreateSubject: could not extract subject identifier

# ---------------------------------------------------------------------------------------------------------------
# credentials

def PH(name, respell=None):
    """the placeholder of a JWT the harness signs: itself a canonically spelled JWS compact form (three strictly
    base64url encoded parts), so that it has the same structure as the token that replaces it on the implementation
    side. respell: the placeholder of another spelling of the same token — "bits": unused bits of the last character
    of the signature set, "crlf": a line break inside the payload (the real token is respelled the same way)"""
    head = "J" + name
    while len(head) % 4 != 0:
        head += "0"
    if respell == "bits":
        return head + ".plpl.hB"
    if respell == "crlf":
        return head + ".pl\r\npl.hdhd"
    return head + ".plpl.hdhd"


def expand(x):
    """in the sources of the cases JWTs are written @J<name>@"""
    def sub(m):
        name = m.group(1)
        for r in ("bits", "crlf"):
            if name.endswith(r) and name[:-4] in ("ok", "ok2", "nokid"):
                return json.dumps(PH(name, r))[1:-1]
        return PH(name)
    return json.loads(re.sub(r"@J(\w+?)@", sub, json.dumps(x)))


JWTS = {
    # placeholder -> description (what the harness signs)
    "@Jok@": {"key": "k1", "kid": "k1", "iss": ISS_GOOD, "sub": "alice", "exp": 3600, "aud": ["api"]},
    "@Jok2@": {"key": "k2", "kid": "k2", "iss": ISS_GOOD, "sub": "bob", "exp": 3600, "nbf": -60, "aud": ["api", "web"]},
    "@Jnokid@": {"key": "k1", "kid": "", "iss": ISS_GOOD, "sub": "nokid", "exp": 3600, "aud": ["api"]},
    "@Jbadsig@": {"key": "rogue", "kid": "k1", "iss": ISS_GOOD, "sub": "mallory", "exp": 3600, "aud": ["api"]},
    "@Jbadsignokid@": {"key": "rogue", "kid": "", "iss": ISS_GOOD, "sub": "mallory", "exp": 3600, "aud": ["api"]},
    "@Junknownkid@": {"key": "k1", "kid": "zz", "iss": ISS_GOOD, "sub": "alice", "exp": 3600, "aud": ["api"]},
    "@Jexpired@": {"key": "k1", "kid": "k1", "iss": ISS_GOOD, "sub": "alice", "exp": -3600, "aud": ["api"]},
    "@Jnotyet@": {"key": "k2", "kid": "k2", "iss": ISS_GOOD, "sub": "alice", "exp": 7200, "nbf": 3600, "aud": ["api"]},
    "@Jevil@": {"key": "k1", "kid": "k1", "iss": ISS_EVIL, "sub": "eve", "exp": 3600, "aud": ["api"]},
    "@Jnoaud@": {"key": "k1", "kid": "k1", "iss": ISS_GOOD, "sub": "alice", "exp": 3600},
    "@Jalg@": {"key": "k3", "kid": "k3", "iss": ISS_GOOD, "sub": "alice", "exp": 3600, "aud": ["api"]},
    "@Jtext@": {"key": "k1", "kid": "k1", "payload": "text"},
    "@Jnosub@": {"key": "k1", "kid": "k1", "iss": ISS_GOOD, "exp": 3600, "aud": ["api"]},
    # without kid every key of the set is tried in turn (k2 is the first, k1 the last key of the set)
    "@Jnokidexpired@": {"key": "k1", "kid": "", "iss": ISS_GOOD, "sub": "nokid", "exp": -3600, "aud": ["api"]},
    "@Jnokidevil@": {"key": "k1", "kid": "", "iss": ISS_EVIL, "sub": "nokid", "exp": 3600, "aud": ["api"]},
    "@Jnokid2@": {"key": "k2", "kid": "", "iss": ISS_GOOD, "sub": "nokid2", "exp": 3600, "aud": ["api"]},
    "@Jnokid2expired@": {"key": "k2", "kid": "", "iss": ISS_GOOD, "sub": "nokid2", "exp": -3600, "aud": ["api"]},
    # other supported signature algorithms (signed with keys that are not published)
    "@Jhs@": {"alg": "HS256", "key": "k1", "kid": "k1", "iss": ISS_GOOD, "sub": "alice", "exp": 3600, "aud": ["api"]},
    "@Jrs@": {"alg": "RS256", "key": "k1", "kid": "k1", "iss": ISS_GOOD, "sub": "alice", "exp": 3600, "aud": ["api"]},
    "@Jps@": {"alg": "PS256", "key": "k1", "kid": "", "iss": ISS_GOOD, "sub": "alice", "exp": 3600, "aud": ["api"]},
    "@Jed@": {"alg": "EdDSA", "key": "k2", "kid": "k2", "iss": ISS_GOOD, "sub": "bob", "exp": 3600, "aud": ["api"]},
}
# Found, well-formed, properly signed by the trusted issuer — but rejected while the CLAIMS ARE DECODED (oauth2.Claims:
# NumericDate / Audience / Scopes have their own UnmarshalJSON, the other members are strings). `rawclaims` are written
# into the payload literally, `decode` is the run-time error the decoder reports (ground truth by construction: the
# error of heimdall's own claim types is a configuration error, a type mismatch is an error of the JSON library); the
# remaining members describe the token for the rest of the ground truth.
DEC_RANGE = chain(kind("configuration"))             # date out of range, audience / scopes of a wrong JSON type
DEC_PARSE = chain(kind("configuration"), FOREIGN)    # a date that is no number (strconv error attached)
_OKD = {"key": "k1", "kid": "k1", "iss": ISS_GOOD, "sub": "alice", "exp": 3600, "aud": ["api"]}


def _und(raw, decode, **kw):
    return dict(_OKD, rawclaims=[list(p) for p in raw], decode=decode, **kw)


UNDECODABLE_JWTS = {
    # validity claims outside of the years 1..9999: an expiry given in micro / milliseconds, 1e300, the zero time
    "@Jexpms@": _und([("exp", "1893456000000000")], DEC_RANGE),
    "@Jexpmin@": _und([("exp", "-62135596800")], DEC_RANGE),
    "@Jnbfmin@": _und([("nbf", "-62135596800")], DEC_RANGE),
    "@Jnbfe300@": _und([("nbf", "-1e300")], DEC_RANGE),
    "@Jiathuge@": _und([("iat", "1e300")], DEC_RANGE),
    "@Jiatmax@": _und([("iat", "253402300800")], DEC_RANGE),
    # validity claims that are no numbers
    "@Jexpstr@": _und([("exp", '"soon"')], DEC_PARSE),
    "@Jexpbool@": _und([("exp", "true")], DEC_PARSE),
    "@Jexpobj@": _und([("exp", '{"$date":{"n":[1]}}')], DEC_PARSE),
    "@Jnbflist@": _und([("nbf", "[1700000000]")], DEC_PARSE),
    # audience / scopes of a wrong JSON type
    "@Jaudnum@": _und([("aud", "5")], DEC_RANGE),
    "@Jaudmixed@": _und([("aud", '["api",5]')], DEC_RANGE),
    "@Jaudobj@": _und([("aud", '{"api":true}')], DEC_RANGE),
    "@Jaudnull@": _und([("aud", "null")], DEC_RANGE),
    "@Jscpnum@": _und([("scp", "7")], DEC_RANGE),
    "@Jscpmixed@": _und([("scp", '["read",null]')], DEC_RANGE),
    "@Jscopeobj@": _und([("scope", '{"a":[1,{"b":null}]}')], DEC_RANGE),
    # string members of another JSON type: a type mismatch reported by the JSON library
    "@Jissnum@": _und([("iss", "5")], FOREIGN),
    "@Jsubnum@": _und([("sub", "12345")], FOREIGN),
    "@Jjtiobj@": _und([("jti", '{"x":[1]}')], FOREIGN),
    # without kid every key is tried; the one that verifies the signature fails on the claims
    "@Jnokidexpms@": _und([("exp", "1893456000000000")], DEC_RANGE, kid="", sub="nokid"),
    # signed by a key that is not published: the signature fails before any claim is looked at
    "@Jbadsigexpms@": _und([("exp", "1893456000000000")], DEC_RANGE, key="rogue", sub="mallory"),
}
# unusual spellings the decoders accept (controls): a fractional / exponent date in range, a blank separated audience
ODD_BUT_VALID_JWTS = {
    "@Jexpfloat@": dict(_OKD, rawclaims=[["exp", "4.0e9"]]),
    "@Jaudstr@": dict(_OKD, aud=["api", "web"], rawclaims=[["aud", '"api web"']]),
    "@Jexpnull@": dict(_OKD, rawclaims=[["exp", "null"]]),
}
# Found, well-formed JWTs whose ISSUER cannot stand in a URL: where the JWKS / metadata / introspection endpoint is a
# template over {{ .TokenIssuer }} (documented: "the path part of the url can be templated") no request to the endpoint can
# be created for them. Self-made tokens (an unpublished key) and tokens signed by a published key alike.
ISS_ODD_OK = "tenant a/x?y=%zz"       # a blank, a slash, a query with a bad escape: odd, but a request can be made
URL_HOSTILE_JWTS = {
    "@Jisspct@": {"key": "rogue", "kid": "k1", "iss": "%zz", "sub": "mallory", "exp": 3600, "aud": ["api"]},
    "@Jisstrail@": {"key": "k1", "kid": "k1", "iss": "tenant-a%", "sub": "alice", "exp": 3600, "aud": ["api"]},
    "@Jissshort@": {"key": "rogue", "kid": "", "iss": "realm%2", "sub": "mallory", "exp": 3600, "aud": ["api"]},
    "@Jissctl@": {"key": "rogue", "kid": "k1", "iss": "tenant\x7f", "sub": "mallory", "exp": 3600, "aud": ["api"]},
    "@Jissnl@": {"key": "k2", "kid": "k2", "iss": "tenant\nX-Injected: 1", "sub": "bob", "exp": 3600, "aud": ["api"]},
    "@Jissfrag@": {"key": "k1", "kid": "", "iss": "t#%zz", "sub": "nokid", "exp": 3600, "aud": ["api"]},
    # controls: odd issuers a request can be created for
    "@Jissodd@": {"key": "k1", "kid": "k1", "iss": ISS_ODD_OK, "sub": "erin", "exp": 3600, "aud": ["api"]},
    "@Jisslong@": {"key": "k1", "kid": "k1", "iss": "t" * 3000, "sub": "alice", "exp": 3600, "aud": ["api"]},
}
JWTS.update(UNDECODABLE_JWTS)
JWTS.update(ODD_BUT_VALID_JWTS)
JWTS.update(URL_HOSTILE_JWTS)

# other spellings of tokens that are valid in their canonical spelling (go-jose decodes them to the same octets)
for _name in ("ok", "ok2", "nokid"):
    JWTS[f"@J{_name}bits@"] = dict(JWTS[f"@J{_name}@"], respell="bits")
    JWTS[f"@J{_name}crlf@"] = dict(JWTS[f"@J{_name}@"], respell="crlf")
JWTS = {PH(k[2:-1], v.get("respell")): v for k, v in JWTS.items()}
CANONICAL = {ph for ph, v in JWTS.items() if not v.get("respell")}

# what the introspection endpoint knows: token -> answer
INTRO = {
    "opq-alice": {"active": True, "sub": "alice-i", "iss": ISS_GOOD, "exp": 3600, "aud": ["api"]},
    "opq-bob": {"active": True, "sub": "bob-i", "iss": ISS_OTHER, "exp": 3600},
    "opq-inactive": {"active": False},
    "opq-expired": {"active": True, "sub": "alice-i", "iss": ISS_GOOD, "exp": -3600, "aud": ["api"]},
    "opq-evil": {"active": True, "sub": "eve-i", "iss": ISS_EVIL, "exp": 3600, "aud": ["api"]},
    "opq-nosub": {"active": True, "iss": ISS_GOOD, "exp": 3600, "aud": ["api"]},
    "opq-500": {"status": 500},
    "opq-text": {"body": "text"},
    # active tokens whose introspection response cannot be decoded into oauth2.IntrospectionResponse: the token was
    # found, the authorization server knows it, heimdall rejects the answer
    "opq-expms": {"active": True, "sub": "alice-i", "iss": ISS_GOOD, "aud": ["api"],
                  "rawclaims": [["exp", "1893456000000000"]], "decode": DEC_RANGE},
    "opq-nbfmin": {"active": True, "sub": "alice-i", "iss": ISS_GOOD, "exp": 3600, "aud": ["api"],
                   "rawclaims": [["nbf", "-62135596800"]], "decode": DEC_RANGE},
    "opq-iathuge": {"active": True, "sub": "alice-i", "iss": ISS_GOOD, "exp": 3600, "aud": ["api"],
                    "rawclaims": [["iat", "1e300"]], "decode": DEC_RANGE},
    "opq-expstr": {"active": True, "sub": "alice-i", "iss": ISS_GOOD, "aud": ["api"],
                   "rawclaims": [["exp", '"soon"']], "decode": DEC_PARSE},
    "opq-audnum": {"active": True, "sub": "alice-i", "iss": ISS_GOOD, "exp": 3600,
                   "rawclaims": [["aud", "5"]], "decode": DEC_RANGE},
    "opq-audmixed": {"active": True, "sub": "alice-i", "iss": ISS_GOOD, "exp": 3600,
                     "rawclaims": [["aud", '["api",{"x":1}]']], "decode": DEC_RANGE},
    "opq-scopeobj": {"active": True, "sub": "alice-i", "iss": ISS_GOOD, "exp": 3600, "aud": ["api"],
                     "rawclaims": [["scope", '{"a":[1,{"b":null}]}']], "decode": DEC_RANGE},
    "opq-activestr": {"sub": "alice-i", "iss": ISS_GOOD, "exp": 3600, "aud": ["api"],
                      "rawclaims": [["active", '"yes"']], "decode": FOREIGN},
    "opq-subnum": {"active": True, "iss": ISS_GOOD, "exp": 3600, "aud": ["api"],
                   "rawclaims": [["sub", "12345"]], "decode": FOREIGN},
    "opq-expfloat": {"active": True, "sub": "alice-i", "iss": ISS_GOOD, "exp": 3600, "aud": ["api"],
                     "rawclaims": [["exp", "4.0e9"]]},
    "opq-audstr": {"active": True, "sub": "alice-i", "iss": ISS_GOOD, "exp": 3600, "aud": ["api", "web"],
                   "rawclaims": [["aud", '"api web"']]},
    "@Jok@": {"active": True, "sub": "alice", "iss": ISS_GOOD, "exp": 3600, "aud": ["api"]},
    "@Jexpms@": {"active": True, "sub": "alice", "iss": ISS_GOOD, "aud": ["api"],
                 "rawclaims": [["exp", "1893456000000000"]], "decode": DEC_RANGE},
    "@Jbadsig@": {"active": False},
    "@Jexpired@": {"active": False},
    # JWTs used as opaque tokens whose issuer is hostile to a URL (the endpoint URL may be a template over it)
    "@Jisstrail@": {"active": True, "sub": "alice", "iss": ISS_GOOD, "exp": 3600, "aud": ["api"]},
    "@Jissodd@": {"active": True, "sub": "erin", "iss": ISS_GOOD, "exp": 3600, "aud": ["api"]},
}
INTRO = expand(INTRO)

# what the identity endpoint knows: session value -> answer
IDENT = {
    "sess-carol": {"sub": "carol", "active": True, "exp": 3600},
    "sess-dave": {"sub": "dave"},
    "sess-expired": {"sub": "carol", "active": True, "exp": -3600},
    "sess-inactive": {"sub": "carol", "active": False},
    "sess-notyet": {"sub": "carol", "nbf": 3600},
    "sess-nosub": {"active": True},
    "sess-badexp": {"sub": "erin", "raw_exp": "soon"},
    # session_lifespan reads integers: an expiry in microseconds is a date in the far future (accepted), 1e300 and an
    # object are no integers (rejected after the session was found)
    "sess-expms": {"sub": "frank", "rawclaims": [["exp", "1893456000000000"]]},
    "sess-expe300": {"sub": "frank", "rawclaims": [["exp", "1e300"]], "decode": True},
    "sess-expobj": {"sub": "frank", "rawclaims": [["exp", '{"a":[1]}']], "decode": True},
    "sess-401": {"status": 401},
    "sess-500": {"status": 500},
    "sess-text": {"body": "text"},
    "opq-alice": {"sub": "alice-g"},
    # sessions whose reference is hostile to a URL (the identity endpoint's URL may be a template over it): known ones
    "s-4711%": {"sub": "gina"},
    "s 4711://x?y=%zz": {"sub": "gina"},
}

# Credentials that are FOUND (present, well-formed for the extractor) and whose value cannot stand in a URL resp. in a
# header: invalid percent escapes, control characters, a fragment with a bad escape. Where the endpoint's URL / a header
# of the request is a template over the credential, the request cannot be created resp. is refused by net/http before
# it is sent. COOKIE_SAFE ones survive net/http's cookie parser (and a header line on the wire).
URL_HOSTILE = ["%zz", "s-4711%", "%2", "abc%G1def", "sess-carol#%zz", "key7.%zz", "se\x01ss", "a\nX-Injected: 1", "a\tb"]
URL_ODD_OK = ["s 4711://x?y=%zz", "sess carol", "a://b", "sess-carol#frag", "sess-carol?x=%zz", "sess%2Fcarol",
              "../identity/500", "x" * 3000]


def b64(s):
    return base64.b64encode(s.encode()).decode()


BASIC_VALUES = [b64("user:secret"), b64("user:wrong"), b64("admin:secret"), b64("admin:hunter2"), b64("nocolon"),
                b64("a:b:c"), b64(":"), b64("user:"), "!!!notbase64", "dXNlcg", ""]

def b64url(s):
    return base64.urlsafe_b64encode(s.encode()).decode().rstrip("=")


# strings of JWS compact form that jwt.ParseSigned refuses: `alg: none`, an algorithm nobody knows, a header that is
# no JSON, a header without algorithm
NOT_JWTS = ["eyJhbGciOiJub25lIn0.e30.", b64url('{"alg":"XS999","typ":"JWT"}') + ".e30.c2ln",
            b64url("not json") + ".e30.c2ln", b64url('{"typ":"JWT"}') + ".e30.c2ln", "a.b.c", "abcd.e30"]
GARBAGE = ["garbage", "opq-unknown", "sess-unknown", "x", "key7.sess-carol", "key7.sess-401"] + NOT_JWTS


# ---------------------------------------------------------------------------------------------------------------
# ground truth: what the check of a credential says (by the construction of the credential)

def _times_ok(spec):
    exp, nbf = spec.get("exp"), spec.get("nbf")
    return not (exp is not None and exp < 0) and not (nbf is not None and nbf > 0)


def _claims_fail(desc, mech):
    """the reason claims.Validate rejects, or None"""
    if desc.get("iss", "") not in mech["iss"]:
        return "issuer"
    if mech.get("aud") and not (set(mech["aud"]) & set(desc.get("aud") or [])):
        return "audience"
    if not _times_ok(desc):
        return "validity"
    return None


def _verify_with_key(desc, mech, kid):
    """verifyTokenWithKey: None if the token verifies with the key published under kid, else (site, cause)"""
    key_alg = KNOWN_KIDS[kid]
    if key_alg != desc.get("alg", "ES256"):    # the algorithm stated in the header of the token
        return ("algMismatch", None)
    if key_alg not in (mech.get("algs") or DEFAULT_ALGS):
        return ("algNotAllowed", ASSERTION)
    if desc["key"] != kid:
        return ("signature", FOREIGN)
    if "decode" in desc:
        # token.Claims(key, …) verifies the signature and then decodes the payload into oauth2.Claims
        return ("signature", desc["decode"])
    if _claims_fail(desc, mech):
        return ("assertion", ASSERTION)
    return None


def _meta_fail(mech, failed, nouri):
    meta = mech.get("meta")
    if meta == "500":
        return (failed, chain(kind("communication")))
    if meta == "badjson":
        return (failed, chain(kind("internal"), FOREIGN))
    if meta == "nouri":
        return (nouri, None)
    return None


def _ep_fail(mech, unreachable, status, unparsable):
    ep = mech.get("ep", "ok")
    if ep == "dead":
        return (unreachable, FOREIGN)
    if ep == "500":
        return (status, None)
    if ep == "badjson":
        return (unparsable, FOREIGN)
    return None


# ---- endpoint URLs / headers that are templates over the credential (generic: {{ .AuthenticationData }}) resp. over
# the issuer named by the token (jwt, oauth2_introspection: {{ .TokenIssuer }})
#   utpl: "path"  <url>/s/{{ V }}          "mid" <url>/s/{{ V }}/info       "query" <url>?s={{ V }}  (generic only)
#         "enc"   <url>/s/{{ urlenc V }}   "fn"  <url>/s/{{ atIndex 1 (splitList "." V) }}            (generic only)
#   htpl: a header of the request, X-Credential-Ref: {{ V }}
# What the value does to the request is decided by net/url, net/http (ground truth by construction: url.Parse refuses
# control characters in front of the fragment and invalid percent escapes in path and fragment; it does not look at
# the query; net/http refuses to send a header value containing a control character; a blank in the raw query breaks
# the request line, which the server answers with 400).
URL_TEMPLATE_ASSUMPTION = (
    "endpoint URLs / headers that are templates over the credential (generic) or the token's issuer (jwt, "
    "oauth2_introspection): which rendered URLs http.NewRequestWithContext refuses (control characters in front of the "
    "fragment, invalid percent escapes in path and fragment; the query is not looked at), which header values net/http "
    "refuses to send (control characters other than tab) and that a blank in the raw query yields a 400 is part of the "
    "generator's ground truth (gen_authn.url_effect / hdr_hostile), compared with the real net/url, net/http and "
    "endpoint.CreateRequest on every run; control characters reach an authenticator through query / body parameters "
    "and the iss claim only; a header template without a URL template is not combined with a cache for jwt / "
    "oauth2_introspection (a cached key / metadata document is reused without a request)")
UTPL = {"generic": ["path", "path", "mid", "query", "enc", "fn"], "jwt": ["path", "mid", "mid", "enc"],
        "oauth2_introspection": ["path", "mid", "enc"]}
REQ_CAUSE = chain(kind("internal"), FOREIGN)     # endpoint.CreateRequest: "failed to create a request instance" / "failed to render URL"
_HEX = set("0123456789abcdefABCDEF")


def _bad_escape(s):
    i = 0
    while i < len(s):
        if s[i] == "%":
            h = s[i + 1:i + 3]
            if len(h) != 2 or any(x not in _HEX for x in h):
                return True
            i += 3
        else:
            i += 1
    return False


def _ctl(c):
    return ord(c) < 0x20 or ord(c) == 0x7f


def url_effect(pos, value):
    """what rendering `value` into the endpoint URL at `pos` does to the request: None (a request is made),
    "unmakable" (rendering or http.NewRequestWithContext fails), "badline" (the request line is malformed: 400)"""
    if not pos or pos == "enc":
        return None
    if pos == "fn":
        parts = value.split(".")
        if len(parts) < 2:
            return "unmakable"
        value, pos = parts[1], "path"
    rest = {"path": "/s/" + value, "mid": "/s/" + value + "/info", "query": "?s=" + value}[pos]
    u, _, frag = rest.partition("#")
    if any(_ctl(c) for c in u):
        return "unmakable"
    path, _, query = u.partition("?")
    if _bad_escape(path) or (frag != "" and _bad_escape(frag)):
        return "unmakable"
    if " " in query:
        return "badline"
    return None


def hdr_hostile(value):
    """httpguts.ValidHeaderFieldValue refuses it"""
    return any(_ctl(c) and c != "\t" for c in value)


# ---- the endpoint's own authentication (`auth:` of the identity / JWKS / introspection / metadata endpoint): heimdall
# authenticates itself with an api key, with basic auth, or with a token it requests from an authorization server
# (oauth2_client_credentials). Only the last can fail at request time — AFTER the credential of the client was found:
# Endpoint.CreateRequest reports "failed to authenticate request" (an internal error caused by what the token request
# ran into), which the authenticators attach to "failed creating request" (behind a metadata endpoint: metadataFailed).
# How the authorization server answers heimdall's token request, per variant (the harness' token endpoint answers
# under /token/<variant>); the error these answers lead to is the MODEL's (TokenAnswer.failure), compared with the real
# clientcredentials / endpoint packages on every run.
RFC6749_ERRORS = ["invalid_request", "invalid_client", "invalid_grant", "unauthorized_client", "unsupported_grant_type",
                  "invalid_scope"]
CC_ANSWERS = {"ok": {"kind": "token"}}
for _code in RFC6749_ERRORS + ["temporarily_unavailable", ""]:
    CC_ANSWERS["400:" + _code] = {"kind": "badRequest", "error": _code}
CC_ANSWERS.update({
    "400text": {"kind": "badRequest"},                    # 400 with a body that is no JSON
    "401": {"kind": "status", "code": 401}, "403": {"kind": "status", "code": 403},
    "500": {"kind": "status", "code": 500}, "503": {"kind": "status", "code": 503},
    "dead": {"kind": "unreachable"},
    "200text": {"kind": "undecodable"},                   # 200 with a body that is no JSON
    "200error:invalid_scope": {"kind": "errorDocument", "error": "invalid_scope"},
    "200error:server_error": {"kind": "errorDocument", "error": "server_error"},
})
AUTH_KINDS = ["api_key", "basic_auth"] + ["cc:" + v for v in CC_ANSWERS]
ENDPOINT_AUTH_ASSUMPTION = (
    "the endpoint's own authentication (auth: api_key / basic_auth / oauth2_client_credentials of the identity, JWKS, "
    "introspection and metadata endpoints): how the authorization server answers heimdall's token request (200 with a "
    "token, 400 with each error code of RFC 6749 5.2 and others, 400 / 200 without JSON, 200 with an error document, "
    "401 / 403 / 500 / 503, no answer) is a parameter of the model (TokenAnswer); which error Config.Token, "
    "Endpoint.CreateRequest and MetadataEndpoint.Get build from it is modelled (TokenAnswer.failure, "
    "authenticationFailed, metadataRequestFailed: the error document of the authorization server matches no heimdall "
    "sentinel) and compared with the real packages on every run; the time-out of the token request and an unreadable "
    "response body are in the model, not exercised")


def _auth_fail(mech):
    """the description of the failing authentication of the endpoint's own request, if it fails"""
    a = mech.get("auth") or ""
    if a.startswith("cc:") and CC_ANSWERS[a[3:]]["kind"] != "token":
        return {"type": "oauth2_client_credentials", "answer": CC_ANSWERS[a[3:]]}
    return None


def _tpl_fail(mech, rendered, failed_meta, request_failed, unreachable, status):
    """the failure of creating / sending the request to the (metadata) endpoint, if any: (site, cause) — caused by
    rendering the credential / its issuer into the URL or a header, or by the endpoint's own authentication.
    Order of Endpoint.CreateRequest: URL rendered, request instance created, authentication strategy applied, headers
    rendered; then the request is sent."""
    templated = rendered is not None and bool(mech.get("utpl") or mech.get("htpl"))
    eff = url_effect(mech.get("utpl"), rendered) if templated else None
    bad_header = templated and bool(mech.get("htpl")) and hdr_hostile(rendered)
    auth = _auth_fail(mech)
    if mech.get("meta"):
        # the metadata endpoint carries the template / the authentication; MetadataEndpoint.Get wraps what went wrong
        if eff == "unmakable":
            return (failed_meta, chain(kind("internal"), REQ_CAUSE))
        if auth:
            return (failed_meta, {"endpointAuth": auth, "via": "metadata"})
        if bad_header:
            return (failed_meta, chain(kind("communication"), FOREIGN))
        if eff == "badline":
            return (failed_meta, chain(kind("communication")))
        return None
    if eff == "unmakable":
        return (request_failed, REQ_CAUSE)
    if auth:
        return (request_failed, {"endpointAuth": auth})
    if not templated:
        return None
    if bad_header or mech.get("ep") == "dead":
        return (unreachable, FOREIGN)
    if eff == "badline":
        return (status, None)
    return None


def rendered_issuer(tok, no_claims):
    """what {{ .TokenIssuer }} renders to for a token (no_claims: what stands there if the token is no JWT)"""
    desc = JWTS.get(tok)
    if desc is None or desc.get("payload") == "text":
        return no_claims
    for name, raw in desc.get("rawclaims", []):
        if name == "iss":
            return raw if not raw.startswith('"') else json.loads(raw)
    return desc.get("iss", "<no value>")


def verdict(site_cause=None, ok=None):
    if ok is not None:
        return {"ok": ok}
    site, cause = site_cause
    v = {"fail": site}
    if isinstance(cause, dict) and "endpointAuth" in cause:
        v.update(cause)       # the cause is the model's: the failure of the endpoint's own authentication
    elif cause is not None:
        v["cause"] = cause
    return v


def jwt_verdict(tok, mech):
    """a parsed JWT at a jwt authenticator"""
    desc = JWTS[tok]
    if desc.get("payload") == "text":
        return verdict(("claimsUnreadable", FOREIGN))
    f = _tpl_fail(mech, rendered_issuer(tok, None), "metadataFailed", "requestFailed", "jwksUnreachable", "jwksStatus") or \
        _meta_fail(mech, "metadataFailed", "noJwksUri") or \
        _ep_fail(mech, "jwksUnreachable", "jwksStatus", "jwksUnparsable")
    if f:
        return verdict(f)
    if desc["kid"]:
        if desc["kid"] not in KNOWN_KIDS:
            return verdict(("keyNotFound", None))
        f = _verify_with_key(desc, mech, desc["kid"])
        if f:
            return verdict(f)
    else:
        if all(_verify_with_key(desc, mech, kid) for kid in KNOWN_KIDS):
            return verdict(("noKeyVerifies", None))
    if not desc.get("sub"):
        return verdict(("subject", SUBJECT_MISSING))
    return verdict(ok=desc["sub"])


def intro_verdict(tok, mech):
    # a token of JWT form (in whatever spelling go-jose reads) names its issuer; for any other token the URL of the
    # introspection endpoint is used as it is written, the metadata endpoint's is rendered without a value
    rendered = rendered_issuer(tok, "<no value>" if mech.get("meta") else
                               "{{ urlenc .TokenIssuer }}" if mech.get("utpl") == "enc" else "{{ .TokenIssuer }}")
    f = _tpl_fail(mech, rendered, "metadataFailed", "requestFailed", "unreachable", "status") or \
        _meta_fail(mech, "metadataFailed", "noEndpoint") or _ep_fail(mech, "unreachable", "status", "unmarshal")
    if f:
        return verdict(f)
    spec = INTRO.get(tok)
    if spec is None:
        return verdict(("assertion", FOREIGN))
    if spec.get("status", 200) != 200:
        return verdict(("status", None))
    if spec.get("body") == "text":
        return verdict(("unmarshal", FOREIGN))
    if "decode" in spec:
        return verdict(("unmarshal", spec["decode"]))
    if not spec.get("active"):
        return verdict(("assertion", FOREIGN))
    if _claims_fail(spec, mech):
        return verdict(("assertion", ASSERTION))
    if not spec.get("sub"):
        return verdict(("subject", SUBJECT_MISSING))
    return verdict(ok=spec["sub"])


def gen_verdict(val, mech):
    if mech.get("tpl"):
        # payload: {{ atIndex 1 (splitList "." .AuthenticationData) }}
        parts = val.split(".")
        if len(parts) < 2:
            return verdict(("payloadRender", chain(FOREIGN, FOREIGN)))
        full, val = val, parts[1]
    else:
        full = val
    # the URL / a header of the request to the identity endpoint rendered with the credential
    f = _tpl_fail(mech, full, None, "requestFailed", "unreachable", "status")
    if f:
        return verdict(f)
    ep = mech.get("ep", "ok")
    if ep == "dead":
        return verdict(("unreachable", FOREIGN))
    if ep == "500":
        return verdict(("status", None))
    if ep == "badjson":
        return verdict(("subject", SUBJECT_MISSING))
    spec = IDENT.get(val)
    if spec is None:
        return verdict(("status", None))
    if spec.get("status", 200) != 200:
        return verdict(("status", None))
    if spec.get("body") == "text":
        return verdict(("subject", SUBJECT_MISSING))
    if mech.get("lifespan"):
        if "raw_exp" in spec or spec.get("decode"):
            return verdict(("lifespan", chain(FOREIGN, FOREIGN)))
        if spec.get("active") is False or not _times_ok(spec):
            return verdict(("sessionAssert", ASSERTION))
    if not spec.get("sub"):
        return verdict(("subject", SUBJECT_MISSING))
    return verdict(ok=spec["sub"])


def basic_parts(text):
    """the decoded text of a Basic credential split at ':' (None: not base64)"""
    try:
        raw = base64.b64decode(text.encode("latin-1", "replace"), validate=True)
    except Exception:
        return None
    return [p.decode("latin-1") for p in raw.split(b":")]


# ---------------------------------------------------------------------------------------------------------------
# requests

SCHEMES = ["Bearer", "Basic", "Token"]
TOKEN_CHARS = set("!#$%&'*+-.^_`|~0123456789abcdefghijklmnopqrstuvwxyzABCDEFGHIJKLMNOPQRSTUVWXYZ")


def trim(s):
    return s.strip(" \t")


def canonical_key(name):
    """textproto.CanonicalMIMEHeaderKey"""
    if not all(c in TOKEN_CHARS for c in name):
        return name
    out, upper = [], True
    for c in name:
        out.append(c.upper() if upper else c.lower())
        upper = c == "-"
    return "".join(out)


def go_query_unescape(s):
    out, i = [], 0
    while i < len(s):
        c = s[i]
        if c == "%":
            h = s[i + 1:i + 3]
            if len(h) != 2 or any(x not in "0123456789abcdefABCDEF" for x in h):
                return None
            out.append(chr(int(h, 16)))
            i += 3
        else:
            out.append(" " if c == "+" else c)
            i += 1
    return "".join(out)


def go_parse_query(raw):
    """url.ParseQuery with its error ignored (URL.Query()): the pairs that can be read, in order"""
    res = []
    for piece in raw.split("&"):
        if piece == "" or ";" in piece:
            continue
        k, _, v = piece.partition("=")
        k, v = go_query_unescape(k), go_query_unescape(v)
        if k is None or v is None:
            continue
        res.append([k, v])
    return res


def go_parse_cookies(lines):
    """net/http readCookies"""
    res = []
    for line in lines:
        for part in trim(line).split(";"):
            part = trim(part)
            if part == "":
                continue
            n, _, v = part.partition("=")
            n = trim(n)
            if n == "" or not all(c in TOKEN_CHARS for c in n):
                continue
            if len(v) > 1 and v[0] == '"' and v[-1] == '"':
                v = v[1:-1]
            if all(0x20 <= ord(c) < 0x7f and c not in '";\\' for c in v):
                res.append([n, v])
    return res


def query_of(req):
    return go_parse_query(req["rawQuery"]) if "rawQuery" in req else req.get("query", [])


def cookies_of(req):
    return go_parse_cookies(req["rawCookies"]) if "rawCookies" in req else req.get("cookies", [])


def candidates(req):
    """every string an extractor can possibly hand to an authenticator for this request (over-approximation)"""
    res = set(["", trim(req.get("host", "heimdall.local"))])
    by_name = {}
    for n, v in req.get("headers", []):
        by_name.setdefault(canonical_key(n), []).append(v)
    for vs in by_name.values():
        joined = ",".join(vs)
        res.add(trim(joined))
        for s in SCHEMES:
            if joined.startswith(s):
                res.add(trim(joined[len(s):]))
    for n, v in query_of(req) + cookies_of(req):
        res.add(trim(v))
    body = req.get("body")
    readings = [] if not body else [body.get("parsed")] + list((body.get("reads") or {}).values())
    for parsed in readings:
        for n, bv in parsed or []:
            if bv["t"] == "str":
                res.add(trim(bv["v"]))
            elif bv["t"] in ("strs", "anys"):
                for x in bv["v"]:
                    if isinstance(x, str):
                        res.add(trim(x))
    return res


def effective(mechs, steps):
    """the authenticators as the world sees them: every mechanism, plus one entry per step that overrides assertions"""
    res = list(mechs)
    by_id = {m["id"]: m for m in mechs}
    seen = set()
    for st in steps:
        if st.get("key") and st["key"] not in seen:
            seen.add(st["key"])
            res.append(dict(by_id[st["ref"]], id=st["key"], aud=st["aud"]))
    return res


def world_for(mechs, reqs):
    cands = set()
    for r in reqs:
        cands |= candidates(r)
    cands = sorted(cands)
    w = {"basic": [], "headerAlg": [[c, JWTS[c].get("alg", "ES256")] for c in cands if c in CANONICAL],
         "jwt": [], "intro": [], "gen": []}
    for c in cands:
        parts = basic_parts(c)
        if parts is not None:
            w["basic"].append([c, parts])
    for m in mechs:
        for c in cands:
            if m["type"] == "jwt" and c in CANONICAL:
                w["jwt"].append([m["id"], c, jwt_verdict(c, m)])
            elif m["type"] == "oauth2_introspection":
                w["intro"].append([m["id"], c, intro_verdict(c, m)])
            elif m["type"] == "generic":
                w["gen"].append([m["id"], c, gen_verdict(c, m)])
    return w


# ---- the Content-Type of a request with a body. contenttype.NewDecoder chooses the decoder by what the header value
# CONTAINS ("json", else "application/x-www-form-urlencoded", else "yaml"; case-sensitively; all Content-Type lines
# joined by ","): that choice is the model's (decoderFor); the generator only says how each decoder reads the octets.
CT_OWN = {
    "json": ["application/json", "application/json; charset=utf-8", "application/vnd.api+json",
             "application/problem+json", "application/merge-patch+json", "application/ld+json; profile=\"x\"",
             "text/json", "application/x-json", "application/json;q=0.9", "application/vnd.heimdall.v1+json",
             ["text/plain", "application/json"], ["application/json", "application/json"],
             "text/plain, application/scim+json", "application/x-www-form-urlencoded; like=json",
             "application/yaml+json", "json"],
    "form": ["application/x-www-form-urlencoded", "application/x-www-form-urlencoded; charset=UTF-8",
             "application/x-www-form-urlencoded;charset=utf-8", ["text/plain", "application/x-www-form-urlencoded"],
             "application/x-www-form-urlencoded, application/yaml", "xapplication/x-www-form-urlencodedx"],
    "yaml": ["application/yaml", "application/x-yaml", "text/yaml", "text/x-yaml; charset=utf-8",
             "application/vnd.oai.openapi+yaml", ["text/plain", "application/yaml"], "yaml"],
}
# no decoder: the body is a string for the extractors, whatever it contains
CT_NONE = [None, "", "text/plain", "application/octet-stream", "application/xml", "APPLICATION/JSON", "application/Json",
           "application/JSON; charset=utf-8", "Application/X-WWW-Form-Urlencoded", "application/YAML", "text/Yaml",
           "multipart/form-data; boundary=x", "application/jso", "application/x-www-form-urlencode",
           "application/j son", ["application/js", "on"], "application/x-ndjso"]


def ct_lines(ct):
    return [] if ct is None else [ct] if isinstance(ct, str) else list(ct)


def _plain(raw):
    return all(0x20 <= ord(c) < 0x7f or c == "\n" for c in raw)


def render_body(kind_, fields, ct="own"):
    """fields: list of (name, python value for JSON | list of strings for forms) -> the body of a request:
    ct (one Content-Type line, a list of lines, or None: no such header), raw, fmt (the format the octets are written
    in), parsed (what the decoder of that format reads: a list of fields, or None if it fails) and reads (what each of
    the three decoders reads — ground truth by construction: a JSON object is a YAML flow mapping of the same content;
    a form body / a block-style YAML document is no JSON; a form body is a YAML scalar, no mapping; url.ParseQuery on
    a JSON / YAML document yields no pair named like a source). ct="own": the usual media type of the format."""
    usual = {"json": "application/json", "form": "application/x-www-form-urlencoded", "yaml": "application/yaml",
             "text": "text/plain", "badjson": "application/json", "jsonarray": "application/json"}
    ct = usual[kind_] if ct == "own" else ct

    def body(fmt, raw, parsed, **other):
        reads = {"json": None, "form": None, "yaml": None}
        if fmt in reads:
            reads[fmt] = parsed
        reads.update(other)
        return {"ct": ct, "raw": raw, "fmt": fmt, "parsed": parsed, "reads": reads}
    if kind_ == "json":
        raw = json.dumps(dict(fields))
        parsed = []
        for n, v in fields:
            if isinstance(v, str):
                parsed.append([n, {"t": "str", "v": v}])
            elif isinstance(v, list):
                parsed.append([n, {"t": "anys", "v": [x if isinstance(x, str) else None for x in v]}])
            else:
                parsed.append([n, {"t": "other"}])
        b = body("json", raw, parsed)
        if _plain(raw):
            b["reads"]["yaml"] = parsed
        else:
            b["noyaml"] = True         # a raw control character: what yaml.v3 says is not part of the ground truth
        return b
    if kind_ == "form":
        from urllib.parse import quote_plus
        pairs = []
        parsed = []
        for n, vs in fields:
            for v in vs:
                pairs.append(quote_plus(n) + "=" + quote_plus(v, safe="@"))
            parsed.append([n, {"t": "strs", "v": list(vs)}])
        return body("form", "&".join(pairs), parsed)
    if kind_ == "yaml":
        # block style YAML: strings, lists of strings, numbers
        lines, parsed = [], []
        for n, v in fields:
            if isinstance(v, str):
                lines.append(f"{n}: {json.dumps(v)}")
                parsed.append([n, {"t": "str", "v": v}])
            elif isinstance(v, list):
                lines.append(f"{n}: {json.dumps(v)}")
                parsed.append([n, {"t": "anys", "v": [x if isinstance(x, str) else None for x in v]}])
            else:
                lines.append(f"{n}: {json.dumps(v)}")
                parsed.append([n, {"t": "other"}])
        return body("yaml", "\n".join(lines) + "\n", parsed)
    if kind_ == "text":
        # not url-encoded, announced as text: no decoder is asked (only Content-Types without decoder are generated)
        return dict(body("text", "access_token=" + (fields[0][1] if fields else "x"), None), nodecoder=True)
    if kind_ == "badjson":
        return body("badjson", "{\"access_token\": ", None)
    if kind_ == "jsonarray":
        return body("jsonarray", "[\"access_token\"]", None)
    raise ValueError(kind_)


def content_types_for(body):
    """(own spellings, Content-Types selecting another decoder, Content-Types without decoder) that may stand in front
    of this body: only combinations whose reading is ground truth by construction"""
    fmt = body["fmt"]
    if body.get("nodecoder"):
        return [], [], CT_NONE
    own = CT_OWN.get(fmt, [])
    others = []
    for f, cts in CT_OWN.items():
        if f != fmt and not (f == "yaml" and body.get("noyaml")):
            others += cts[:5]
    return own, others, CT_NONE


def choose_content_type(rng, body):
    own, others, none = content_types_for(body)
    r = rng.random()
    if own and r < 0.45:
        body["ct"] = own[0]
    elif own and r < 0.75:
        body["ct"] = rng.choice(own)
    elif others and r < 0.87:
        body["ct"] = rng.choice(others)
    else:
        body["ct"] = rng.choice(none)
    if body["ct"] is None:
        del body["ct"]
    return body


# ---------------------------------------------------------------------------------------------------------------
# random generation

SOURCE_POOL = [
    {"k": "header", "name": "Authorization", "scheme": "Bearer"},
    {"k": "header", "name": "Authorization", "scheme": "Token"},
    {"k": "header", "name": "X-Api-Key", "scheme": ""},
    {"k": "header", "name": "X-Token", "scheme": "Bearer"},
    {"k": "query", "name": "access_token"},
    {"k": "query", "name": "token"},
    {"k": "cookie", "name": "sess"},
    {"k": "cookie", "name": "tok"},
    {"k": "body", "name": "access_token"},
    {"k": "body", "name": "token"},
    # header names are case-insensitive: the configuration may spell them any way
    {"k": "header", "name": "authorization", "scheme": "Bearer"},
    {"k": "header", "name": "x-api-key", "scheme": ""},
    {"k": "header", "name": "X-TOKEN", "scheme": "Bearer"},
    # the Host pseudo header
    {"k": "header", "name": "Host", "scheme": ""},
]

DEFAULT_SOURCES = [SOURCE_POOL[0], SOURCE_POOL[4], SOURCE_POOL[8]]


def gen_sources(rng, allow_default=True):
    if allow_default and rng.random() < 0.45:
        return None
    n = rng.choice([1, 1, 1, 2, 2, 3])
    return [dict(s) for s in rng.sample(SOURCE_POOL, n)]


def gen_mech(rng, idx, typ=None):
    typ = typ or rng.choice(["jwt", "jwt", "oauth2_introspection", "generic", "basic_auth", "basic_auth", "anonymous",
                             "unauthorized"])
    m = {"id": f"a{idx}", "type": typ}
    if typ == "anonymous":
        m["subject"] = rng.choice(["", "", "anon", "guest"])
        return m
    if typ == "unauthorized":
        # unauthorized ignores its configuration altogether: whatever it says, there is no fallback
        if rng.random() < 0.3:
            m["fb"] = rng.random() < 0.7
        return m
    # allow_fallback_on_error is left out in a third of the definitions: the default is "no fallback"
    if rng.random() < 0.66:
        m["fb"] = rng.random() < 0.45
    ep = rng.choice(["ok"] * 8 + ["500", "badjson", "dead"])
    if typ == "basic_auth":
        m["user"], m["pass"] = rng.choice([("user", "secret"), ("user", "secret"), ("admin", "hunter2")])
    elif typ == "jwt":
        m["src"] = gen_sources(rng)
        m["iss"] = rng.choice([[ISS_GOOD], [ISS_GOOD], [ISS_GOOD, ISS_OTHER], [ISS_EVIL]])
        m["aud"] = rng.choice([[], [], ["api"], ["other"]])
        m["algs"] = rng.choice([[], [], [], ["ES384"], ["ES256"]])
        m["ep"] = ep
        m["meta"] = rng.choice([None] * 6 + ["ok", "ok", "500", "badjson", "nouri"])
    elif typ == "oauth2_introspection":
        m["src"] = gen_sources(rng)
        m["iss"] = rng.choice([[ISS_GOOD], [ISS_GOOD, ISS_OTHER], [ISS_EVIL]])
        m["aud"] = rng.choice([[], [], ["api"]])
        m["ep"] = ep
        m["meta"] = rng.choice([None] * 6 + ["ok", "ok", "500", "badjson", "nouri"])
    elif typ == "generic":
        m["src"] = gen_sources(rng, allow_default=False)
        m["lifespan"] = rng.random() < 0.5
        m["ep"] = ep
        if rng.random() < 0.2:
            m["tpl"] = True       # api keys <id>.<secret>: the payload template picks the secret with atIndex
    # the URL of the (metadata) endpoint / a header of the request to it is a template over the credential resp. over
    # the issuer the token names
    if typ not in UTPL:
        return m
    if rng.random() < 0.3:
        m["utpl"] = rng.choice(UTPL[typ])
        if typ != "generic" and rng.random() < 0.5:
            m["iss"] = m["iss"] + [ISS_ODD_OK]
    if rng.random() < 0.12:
        m["htpl"] = True
    # the endpoint demands that heimdall authenticates itself
    if rng.random() < 0.16:
        m["auth"] = rng.choice(AUTH_KINDS + ["cc:ok", "cc:ok"])
    return m


def sources_of(m):
    if m["type"] == "basic_auth":
        return [{"k": "header", "name": "Authorization", "scheme": "Basic"}]
    if m["type"] in ("jwt", "oauth2_introspection"):
        return m.get("src") or DEFAULT_SOURCES
    if m["type"] == "generic":
        return m["src"]
    return []


def credential_for(rng, m):
    """a credential value aimed at this authenticator (valid, invalid, malformed or foreign)"""
    t = m["type"]
    r = rng.random()
    if t == "basic_auth":
        if r < 0.3:
            return b64(m["user"] + ":" + m["pass"])
        return rng.choice(BASIC_VALUES)
    # values hostile to a URL / a header: often where the endpoint is a template over them, now and then elsewhere
    if t in UTPL and rng.random() < (0.35 if m.get("utpl") or m.get("htpl") else 0.03):
        if t == "generic":
            return rng.choice(URL_HOSTILE + URL_HOSTILE + URL_ODD_OK)
        return rng.choice(sorted(PH(k[2:-1]) for k in URL_HOSTILE_JWTS))
    if t == "jwt":
        if r < 0.25:
            return PH(rng.choice(["ok", "ok2", "nokid", "nokid2"]))
        if r < 0.35:
            return PH(rng.choice(["ok", "ok2", "nokid"]), rng.choice(["bits", "crlf"]))
        if r < 0.8:
            return rng.choice(sorted(JWTS))
        return rng.choice(GARBAGE + sorted(INTRO))
    if t == "oauth2_introspection":
        if r < 0.75:
            return rng.choice(sorted(INTRO))
        return rng.choice(GARBAGE + sorted(JWTS))
    if t == "generic":
        if m.get("tpl") and r < 0.6:
            return "key7." + rng.choice(sorted(IDENT))
        if r < 0.75:
            return rng.choice(sorted(IDENT))
        return rng.choice(GARBAGE + sorted(INTRO))
    return rng.choice(GARBAGE)


def decorate(rng, v):
    r = rng.random()
    if r < 0.8:
        return v
    return rng.choice([" " + v, v + " ", "  " + v + "\t", v])


def place(rng, req, src, value):
    """put the value where the source looks for it (mostly well-formed, sometimes deliberately off)"""
    k = src["k"]
    if "\r" in value and k in ("header", "cookie"):
        value = value.replace(".pl\r\npl.hdhd", ".plpl.hB")     # header lines cannot carry line breaks
    if k == "header":
        scheme = src.get("scheme", "")
        r = rng.random()
        if scheme:
            if r < 0.78:
                hv = scheme + " " + decorate(rng, value)
            elif r < 0.84:
                hv = scheme.lower() + " " + value
            elif r < 0.88:
                hv = scheme + value
            elif r < 0.92:
                hv = " " + scheme + " " + value
            elif r < 0.96:
                hv = rng.choice([s for s in SCHEMES if s != scheme]) + " " + value
            else:
                hv = scheme + " "
        else:
            hv = decorate(rng, value) if r < 0.95 else ""
        name = src["name"]
        if name == "Host":
            req["host"] = hv
            return
        q = rng.random()
        name = name if q < 0.6 else name.lower() if q < 0.8 else name.upper() if q < 0.9 else canonical_key(name)
        req["headers"].append([name, hv])
    elif k == "query":
        req["query"].append([src["name"], decorate(rng, value) if rng.random() < 0.95 else ""])
    elif k == "cookie":
        req["cookies"].append([src["name"], value if rng.random() < 0.95 else ""])
    elif k == "body":
        req["_body"].append((src["name"], value))


def finish_body(rng, req):
    fields = req.pop("_body")
    if not fields and rng.random() < 0.85:
        return
    r = rng.random()
    seen = set()
    uniq = []
    for n, v in fields:
        if n not in seen:
            seen.add(n)
            uniq.append((n, v))
    if r < 0.35:
        out = []
        for n, v in uniq:
            q = rng.random()
            out.append((n, v if q < 0.7 else [v] if q < 0.8 else [v, "second"] if q < 0.86 else [5] if q < 0.9 else
                        5 if q < 0.94 else None if q < 0.97 else {"nested": v}))
        if rng.random() < 0.3:
            out.append(("unrelated", "x"))
        req["body"] = render_body("json", out)
    elif r < 0.75:
        out = []
        for n, v in uniq:
            q = rng.random()
            out.append((n, [v] if q < 0.8 else [v, "second"] if q < 0.9 else [""]))
        if rng.random() < 0.3:
            out.append(("unrelated", ["x"]))
        if not out:
            out.append(("unrelated", ["x"]))
        req["body"] = render_body("form", out)
    elif r < 0.88:
        out = []
        for n, v in uniq:
            q = rng.random()
            out.append((n, v if q < 0.7 else [v] if q < 0.8 else [v, "second"] if q < 0.9 else 5))
        if not out:
            out.append(("unrelated", "x"))
        req["body"] = render_body("yaml", out)
    else:
        req["body"] = render_body(rng.choice(["text", "badjson", "jsonarray"]), [(n, v) for n, v in uniq])
    choose_content_type(rng, req["body"])
    req["method"] = "POST"


def rawify(rng, req):
    """turn the query / the cookies into what stands on the wire, sometimes in a form net/url or net/http drop"""
    from urllib.parse import quote
    if req["query"] and rng.random() < 0.35:
        pieces = []
        for n, v in req["query"]:
            q = rng.random()
            enc = quote(v, safe="-._~")
            if q < 0.55:
                pieces.append(f"{n}={enc}")
            elif q < 0.7:
                pieces.append(f"{n}={enc};x=1")          # a semicolon: the pair is dropped
            elif q < 0.8:
                pieces.append(f"{n}={enc}%zz")           # a bad escape: the pair is dropped
            elif q < 0.88:
                pieces.append(f"{n}={enc}+")             # a blank at the end (trimmed by the extractor)
            elif q < 0.94:
                pieces.append(f"x=1;{n}={enc}")
            elif v and trim(v) not in JWTS:
                pieces.append(f"{n}=%{ord(v[0]):02x}{quote(v[1:], safe='-._~')}")   # an escaped character
            else:
                pieces.append(f"{n}" if not v else f"{n}={enc}")
        if rng.random() < 0.2:
            pieces.insert(rng.randrange(len(pieces) + 1), rng.choice(["", "=", "a=b=c", "%", "z;"]))
        req["rawQuery"] = "&".join(pieces)
        del req["query"]
    if req["cookies"] and rng.random() < 0.35:
        parts = []
        for n, v in req["cookies"]:
            q = rng.random()
            if q < 0.5:
                parts.append(f"{n}={v}")
            elif q < 0.6:
                parts.append(f'{n}="{v}"')                # quoted: the quotes are stripped
            elif q < 0.7:
                parts.append(f'{n}={v}"')                 # a stray quote: the cookie is dropped
            elif q < 0.78:
                parts.append(f"{n}={v}\\")               # a backslash: dropped
            elif q < 0.86:
                parts.append(f"{n}={v}\u00e4")            # a non-ASCII character: dropped
            elif q < 0.92:
                parts.append(f" {n} = {v} ")              # blanks around the name / inside the value
            else:
                parts.append(f"{n}={v},x")                # a comma is allowed
        if rng.random() < 0.2:
            parts.insert(rng.randrange(len(parts) + 1), rng.choice(["", "novalue", "bad name=x", "=x"]))
        lines = ["; ".join(parts)] if rng.random() < 0.8 or len(parts) < 2 else ["; ".join(parts[:1]), ";".join(parts[1:])]
        req["rawCookies"] = lines
        del req["cookies"]


def wire_safe(v):
    """the value survives net/http's cookie parser and can stand in a header line on the wire"""
    return all(0x20 <= ord(c) < 0x7f and c not in '";\\' for c in v)


def gen_request(rng, mechs_in_chain, all_mechs):
    req = {"method": "GET", "headers": [], "query": [], "cookies": [], "_body": []}
    n = rng.choice([0, 1, 1, 1, 1, 2, 2, 3])
    for _ in range(n):
        target = rng.choice(mechs_in_chain if rng.random() < 0.85 else all_mechs)
        srcs = sources_of(target)
        if not srcs:
            src = rng.choice(SOURCE_POOL)
            value = rng.choice(GARBAGE)
        else:
            src = rng.choice(srcs)
            value = credential_for(rng, target)
            if src["k"] in ("cookie", "header") and not wire_safe(value):
                # control characters reach an authenticator through query and body parameters only
                value = rng.choice([v for v in URL_HOSTILE if wire_safe(v)])
        place(rng, req, src, value)
    if rng.random() < 0.1:
        req["headers"].append(["X-Unrelated", "1"])
    finish_body(rng, req)
    rawify(rng, req)
    return req


def gen_steps(rng, mechs, max_len):
    n = min(rng.choice([1, 2, 2, 3, 3, 3, 4, 4, 5, 6]), max_len)
    steps = []
    for _ in range(n):
        m = rng.choice(mechs)
        st = {"ref": m["id"]}
        if m["type"] != "anonymous" and rng.random() < 0.3:
            st["fb"] = rng.random() < 0.5
        if m["type"] in ("jwt", "oauth2_introspection", "generic") and rng.random() < 0.2:
            st["ttl"] = True
        if m["type"] in ("jwt", "oauth2_introspection") and rng.random() < 0.15:
            st["aud"] = rng.choice([["api"], ["other"], ["web"]])
            st["key"] = m["id"] + "~aud-" + st["aud"][0]
        steps.append(st)
    # the typical shape: a catch-all at the end
    if rng.random() < 0.5:
        tail = [m for m in mechs if m["type"] in ("anonymous", "unauthorized")]
        if tail:
            steps.append({"ref": rng.choice(tail)["id"]})
    return steps


def tokens_used(reqs):
    from urllib.parse import quote
    text = json.dumps(reqs)
    spellings = lambda ph: (json.dumps(ph)[1:-1], json.dumps(json.dumps(ph)[1:-1])[1:-1], quote(ph, safe="-._~"))
    return [dict(JWTS[ph], ph=ph) for ph in sorted(JWTS) if any(x in text for x in spellings(ph))]


def assemble(mechs, steps, reqs, note=None, cache=False):
    """complete a case: tokens to mint, endpoint registries, the world"""
    reqs = expand(reqs)
    cands = set()
    for r in reqs:
        cands |= candidates(r)
    c = {"fam": "authn", "op": "chain", "mechs": mechs, "steps": steps, "reqs": reqs,
         "tokens": tokens_used(reqs) or [],
         "intro": {k: v for k, v in INTRO.items() if k in cands},
         "ident": {k: v for k, v in IDENT.items() if any(k in c for c in cands)},
         "world": world_for(effective(mechs, steps), reqs)}
    if cache:
        c["cache"] = True
    if note:
        c["note"] = note
    return c


def gen_case(rng, n_reqs=12, max_len=5):
    n_mechs = rng.choice([3, 4, 5, 6])
    mechs = [gen_mech(rng, i) for i in range(n_mechs)]
    if not any(m["type"] == "anonymous" for m in mechs) and rng.random() < 0.7:
        mechs.append(gen_mech(rng, len(mechs), "anonymous"))
    steps = gen_steps(rng, mechs, max_len)
    in_chain = [m for m in mechs if any(s["ref"] == m["id"] for s in steps)]
    reqs = [gen_request(rng, in_chain, mechs) for _ in range(n_reqs)]
    cache = rng.random() < 0.5
    if cache:
        # a cached key / metadata document is reused without a request: whether a header rendered from the issuer
        # is refused by net/http would depend on what earlier requests left in the cache unless the URL (part of the
        # cache key) is rendered from the issuer too — no ground truth by construction, not generated
        for m in mechs:
            if m["type"] in ("jwt", "oauth2_introspection") and m.get("htpl") and not m.get("utpl"):
                del m["htpl"]
        # repeat some requests so that cached keys / introspection responses / identities are hit
        for _ in range(rng.choice([2, 4, 6])):
            reqs.append(json.loads(json.dumps(rng.choice(reqs))))
    return assemble(mechs, steps, reqs, cache=cache)


# ---------------------------------------------------------------------------------------------------------------
# systematic small scope: every ordered pair / triple of authenticator types x fallback settings x credential states

def _std_mech(typ, idx, fb):
    """fb: True / False / None (allow_fallback_on_error left out of the definition)"""
    m = {"id": f"a{idx}", "type": typ}
    if typ == "anonymous":
        m["subject"] = ""
    elif typ == "basic_auth":
        m.update(user="user", **{"pass": "secret"}, fb=fb)
    elif typ == "jwt":
        m.update(src=None, iss=[ISS_GOOD], aud=[], algs=[], ep="ok", fb=fb)
    elif typ == "oauth2_introspection":
        m.update(src=[{"k": "header", "name": "X-Token", "scheme": "Bearer"}, {"k": "query", "name": "token"}],
                 iss=[ISS_GOOD], aud=[], ep="ok", fb=fb)
    elif typ == "generic":
        m.update(src=[{"k": "cookie", "name": "sess"}], lifespan=True, ep="ok", fb=fb)
    elif typ == "unauthorized" and fb is not None:
        m["fb"] = fb
    if m.get("fb", 0) is None:
        del m["fb"]
    return m


# credential states per type: (label, how it is put into the request)
STATES = {
    "basic_auth": [("none", None), ("foreign", ("Authorization", "Bearer opq-alice")),
                   ("malformed", ("Authorization", "Basic !!!notbase64")),
                   ("invalid", ("Authorization", "Basic " + b64("user:wrong"))),
                   ("valid", ("Authorization", "Basic " + b64("user:secret")))],
    "jwt": [("none", None), ("foreign", ("Authorization", "Basic " + b64("user:secret"))),
            ("malformed", ("Authorization", "Bearer a.b.c")), ("invalid", ("Authorization", "Bearer @Jbadsig@")),
            ("expired", ("Authorization", "Bearer @Jexpired@")), ("undecodable", ("Authorization", "Bearer @Jexpms@")),
            ("valid", ("Authorization", "Bearer @Jok@"))],
    "oauth2_introspection": [("none", None), ("foreign", ("X-Token", "Basic zzz")),
                             ("invalid", ("X-Token", "Bearer opq-inactive")),
                             ("undecodable", ("X-Token", "Bearer opq-expms")), ("valid", ("X-Token", "Bearer opq-alice"))],
    "generic": [("none", None), ("invalid", ("Cookie", "sess-401")), ("expired", ("Cookie", "sess-expired")),
                ("undecodable", ("Cookie", "sess-expe300")), ("valid", ("Cookie", "sess-carol"))],
    "anonymous": [("none", None)],
    "unauthorized": [("none", None)],
}


def small_scope_cases(lengths=(2,), with_override=False):
    """all chains of the given lengths over the six types x fallback flags, each run on the product of the
    credential states of its members"""
    import itertools
    types = ["basic_auth", "jwt", "oauth2_introspection", "generic", "anonymous", "unauthorized"]
    cases = []
    for n in lengths:
        for combo in itertools.product(types, repeat=n):
            # two authenticators looking at the same header would need consistent states: skip duplicates
            if len(set(combo)) != len(combo):
                continue
            # None: allow_fallback_on_error left out of the definition (the default must be "no fallback")
            flag_sets = itertools.product(*[[None, False, True] if t not in ("anonymous", "unauthorized") else
                                            [None, True] if t == "unauthorized" else [None] for t in combo])
            for flags in flag_sets:
                mechs = [_std_mech(t, i, fb) for i, (t, fb) in enumerate(zip(combo, flags))]
                steps = [{"ref": m["id"]} for m in mechs]
                if with_override:
                    # the rule inverts the setting of the definition (an absent one counts as false)
                    steps = [dict(s, fb=not m.get("fb", False)) if m["type"] != "anonymous" else s
                             for s, m in zip(steps, mechs)]
                reqs = []
                for states in itertools.product(*[STATES[t] for t in combo]):
                    hdrs = {}
                    ok = True
                    req = {"method": "GET", "headers": [], "query": [], "cookies": []}
                    for (label, put) in states:
                        if put is None:
                            continue
                        name, val = put
                        if name == "Cookie":
                            req["cookies"].append(["sess", val])
                        else:
                            if name in hdrs:
                                ok = False
                            hdrs[name] = val
                            req["headers"].append([name, val])
                    if ok:
                        reqs.append(req)
                cases.append(assemble(mechs, steps, reqs))
    return cases


# ---------------------------------------------------------------------------------------------------------------
# systematic: endpoints whose URL / headers are templates over the credential (the issuer of the token), followed by
# `anonymous`: every placement x fallback settings x credentials that are found and cannot stand in a URL / a header

def _rq(headers=(), query=(), cookies=()):
    return {"method": "GET", "headers": [list(h) for h in headers], "query": [list(q) for q in query],
            "cookies": [list(c) for c in cookies]}


def url_template_cases(with_override=True):
    cases = []
    anon = _std_mech("anonymous", 9, None)
    hostile_jwts = sorted(PH(k[2:-1]) for k in URL_HOSTILE_JWTS)
    variants = []
    for pos in ["path", "mid", "query", "enc", "fn", None]:
        variants.append(("generic", dict(utpl=pos) if pos else dict(htpl=True)))
    for typ in ("jwt", "oauth2_introspection"):
        for meta in (None, "ok"):
            for pos in ["path", "mid", "enc", None]:
                variants.append((typ, dict(meta=meta, **(dict(utpl=pos) if pos else dict(htpl=True)))))
    for typ, extra in variants:
        for fb in (None, False, True):
            for inverted in ((False, True) if with_override else (False,)):
                m = dict(_std_mech(typ, 0, fb), **{k: v for k, v in extra.items() if v is not None})
                if typ == "generic":
                    m["src"] = [{"k": "cookie", "name": "sess"}, {"k": "query", "name": "token"}]
                    vals = ["sess-carol", "sess-401"] + URL_HOSTILE + URL_ODD_OK + ["key7.sess-carol"]
                    reqs = [_rq(cookies=[("sess", v)]) if wire_safe(v) else _rq(query=[("token", v)]) for v in vals]
                else:
                    m["iss"] = [ISS_GOOD, ISS_ODD_OK]
                    hdr = "Authorization" if typ == "jwt" else "X-Token"
                    toks = [PH("ok"), PH("badsig"), "opq-alice", "opq-inactive"] + hostile_jwts
                    reqs = [_rq([(hdr, "Bearer " + t)]) for t in toks]
                reqs.append(_rq())
                steps = [{"ref": "a0"}, {"ref": "a9"}]
                if inverted:
                    steps[0]["fb"] = not m.get("fb", False)
                cases.append(assemble([m, anon], steps, reqs))
    return cases


def url_template_named_cases():
    """the cases stored as corpus/C04/29… – 31…"""
    anon = _std_mech("anonymous", 9, None)
    res = {}
    gen = dict(_std_mech("generic", 0, None), src=[{"k": "cookie", "name": "session"}], lifespan=False, utpl="path")
    res["29_seed_session_that_cannot_stand_in_the_endpoint_url_is_not_missing_credentials"] = assemble(
        [gen, anon], [{"ref": "a0"}, {"ref": "a9"}],
        [_rq(cookies=[("session", v)]) for v in ("%zz", "s-4711%", "%2", "abc%G1def", "sess-carol", "sess-401",
                                                 "s 4711://x?y=%zz")] + [_rq()],
        "minimal reproduction of seed s4eval/C04-b (Endpoint.CreateRequest types the failure of "
        "http.NewRequestWithContext as ErrArgument if the URL became unusable by rendering): the identity endpoint is "
        "<url>/s/{{ .AuthenticationData }}; a session cookie whose value is an invalid percent escape is FOUND, no "
        "request to the identity endpoint can be created for it (internal error) — a rejection, final without "
        "allow_fallback_on_error; anonymous must not be consulted. Known, unknown, odd-but-usable and missing cookies as "
        "controls")
    jwt = dict(_std_mech("jwt", 0, None), utpl="mid", iss=[ISS_GOOD, ISS_ODD_OK])
    toks = sorted(PH(k[2:-1]) for k in URL_HOSTILE_JWTS)
    res["30_seed_issuer_that_cannot_stand_in_the_jwks_url_is_not_missing_credentials"] = assemble(
        [jwt, anon], [{"ref": "a0"}, {"ref": "a9"}],
        [_rq([("Authorization", "Bearer " + t)]) for t in toks + [PH("ok"), PH("evil")]] + [_rq()],
        "the key set of a tenant is published at <url>/s/{{ .TokenIssuer }}/info: tokens (self-made ones and ones signed "
        "by a published key) whose iss is `%zz`, `tenant-a%`, `realm%2`, contains DEL / a line break or a fragment with a "
        "bad escape are JWTs — found, parsed — for which no JWKS request can be created: a rejection, final although "
        "anonymous follows (second demo of seed s4eval/C04-b). An issuer with a blank, a slash and a query (trusted) and "
        "a 3000 character issuer as controls")
    intro = dict(_std_mech("oauth2_introspection", 0, None), src=None, meta="ok", utpl="path", htpl=True)
    res["31_issuer_that_cannot_stand_in_the_metadata_url_or_a_header_is_a_rejection"] = assemble(
        [intro, dict(gen, id="a1", src=[{"k": "query", "name": "token"}], utpl="query", htpl=True), anon],
        [{"ref": "a0"}, {"ref": "a1"}, {"ref": "a9"}],
        [_rq([("Authorization", "Bearer " + t)]) for t in toks + [PH("ok"), "opq-alice"]]
        + [_rq(query=[("token", v)]) for v in URL_HOSTILE + URL_ODD_OK[:3]] + [_rq()],
        "introspection with a metadata endpoint <url>/s/{{ .TokenIssuer }} and a header X-Credential-Ref: {{ .TokenIssuer "
        "}}; generic with <url>?s={{ .AuthenticationData }} and the same header: a control character in the value makes "
        "url.Parse resp. net/http refuse the request before it is sent, a blank in the query makes the server refuse the "
        "request line; the query is not checked for escapes. Whatever goes wrong after the credential was found is final")
    return res


# ---------------------------------------------------------------------------------------------------------------
# systematic: credentials in a body parameter x the formats of the body x the spellings of its media type, followed by
# `anonymous`

BODY_CREDS = {"jwt": ("@Jok@", "@Jbadsig@"), "oauth2_introspection": ("opq-alice", "opq-inactive"),
              "generic": ("sess-carol", "sess-401")}


def _body_fields(fmt, name, value):
    return [(name, [value])] if fmt == "form" else [(name, value)]


def body_request(fmt, name, value, ct):
    b = render_body(fmt, _body_fields(fmt, name, value), ct=ct)
    if b.get("ct") is None:
        b.pop("ct", None)
    return {"method": "POST", "headers": [], "query": [], "cookies": [], "body": b}


def media_type_cases(with_override=True):
    cases = []
    anon = _std_mech("anonymous", 9, None)
    for typ in ("jwt", "oauth2_introspection", "generic"):
        for fb, inverted in ((None, False), (None, True), (True, False)) if with_override else ((None, False),):
            m = _std_mech(typ, 0, fb)
            # jwt, oauth2_introspection: the default sources (Authorization header, access_token query / body parameter)
            m["src"] = None if typ != "generic" else [{"k": "cookie", "name": "sess"}, {"k": "body", "name": "access_token"}]
            reqs = []
            for fmt in ("json", "form", "yaml"):
                probe = render_body(fmt, _body_fields(fmt, "access_token", "x"))
                own, others, none = content_types_for(probe)
                for ct in own + others + none:
                    for cred in BODY_CREDS[typ]:
                        reqs.append(body_request(fmt, "access_token", cred, ct))
            for k in ("text", "badjson", "jsonarray"):
                probe = render_body(k, [("access_token", BODY_CREDS[typ][1])])
                own, others, none = content_types_for(probe)
                for ct in (own + others + none)[::3]:
                    reqs.append({"method": "POST", "headers": [], "query": [], "cookies": [],
                                 "body": {x: y for x, y in dict(probe, ct=ct).items() if y is not None or x != "ct"}})
            reqs.append(_rq())
            steps = [{"ref": "a0"}, {"ref": "a9"}]
            if inverted:
                steps[0]["fb"] = not m.get("fb", False)
            cases.append(assemble([m, anon], steps, reqs))
    return cases


# ---------------------------------------------------------------------------------------------------------------
# systematic: the endpoint demands that heimdall authenticates itself (api key, basic auth, a token requested from an
# authorization server that answers in every way), followed by `anonymous`

def endpoint_auth_cases(with_override=True):
    cases = []
    anon = _std_mech("anonymous", 9, None)
    variants = [("generic", None)] + [(t, meta) for t in ("jwt", "oauth2_introspection") for meta in (None, "ok")]
    for typ, meta in variants:
        for auth in AUTH_KINDS:
            for fb, inverted in ((None, False), (None, True), (True, False)) if with_override else ((None, False),):
                m = dict(_std_mech(typ, 0, fb), auth=auth)
                if meta:
                    m["meta"] = meta
                if typ == "generic":
                    reqs = [_rq(cookies=[("sess", v)]) for v in ("sess-carol", "sess-401", "sess-unknown")]
                elif typ == "jwt":
                    reqs = [_rq([("Authorization", "Bearer " + t)]) for t in (PH("ok"), PH("badsig"), PH("nokid"), "opq-alice")]
                else:
                    reqs = [_rq([("X-Token", "Bearer " + t)]) for t in ("opq-alice", "opq-inactive", "opq-unknown")]
                reqs.append(_rq())
                steps = [{"ref": "a0"}, {"ref": "a9"}]
                if inverted:
                    steps[0]["fb"] = not m.get("fb", False)
                cases.append(assemble([m, anon], steps, reqs))
    return cases


def round5_named_cases():
    """the cases stored as corpus/C04/32… – 35…"""
    anon = _std_mech("anonymous", 9, None)
    res = {}
    jwt = _std_mech("jwt", 0, None)
    cts = ["application/vnd.api+json", "application/problem+json; charset=utf-8", "application/merge-patch+json",
           ["text/plain", "application/json"], "application/json", "APPLICATION/JSON", "text/plain", None]
    res["32_seed_token_in_a_json_body_with_a_structured_syntax_suffix_is_not_missing_credentials"] = assemble(
        [jwt, anon], [{"ref": "a0"}, {"ref": "a9"}],
        [body_request("json", "access_token", t, ct) for ct in cts for t in ("@Jbadsig@", "@Jok@")] + [_rq()],
        "minimal reproduction of seed s5/C04-a (contenttype.NewDecoder selects the decoder by mime.ParseMediaType and an "
        "exact list of media types instead of by what the Content-Type contains): a jwt authenticator with the default "
        "sources (Authorization header, access_token query and BODY parameter) followed by anonymous; the token stands "
        "in a JSON body announced as application/vnd.api+json, application/problem+json; charset=utf-8, "
        "application/merge-patch+json, or by two Content-Type lines (text/plain, application/json): the value contains "
        "`json`, the body is decoded, the token is FOUND — one with a bad signature is rejected finally, a valid one "
        "yields its subject, never anonymous. Controls: application/json; APPLICATION/JSON, text/plain and no "
        "Content-Type name no decoder (the comparison is case-sensitive): the body is a string, the request carries no "
        "credentials and reaches anonymous; a request without body")
    intro = dict(_std_mech("oauth2_introspection", 0, False), src=None)
    gen = dict(_std_mech("generic", 1, None), src=[{"k": "body", "name": "token"}])
    res["33_body_parameters_are_found_whatever_the_spelling_of_the_media_type"] = assemble(
        [intro, gen, anon], [{"ref": "a0"}, {"ref": "a1"}, {"ref": "a9"}],
        [body_request("form", "access_token", "opq-inactive", "application/x-www-form-urlencoded; charset=UTF-8"),
         body_request("form", "access_token", "opq-inactive", ["text/plain", "application/x-www-form-urlencoded"]),
         body_request("form", "access_token", "opq-inactive", "Application/X-WWW-Form-Urlencoded"),
         body_request("yaml", "token", "sess-401", "application/vnd.oai.openapi+yaml"),
         body_request("yaml", "token", "sess-carol", "text/x-yaml; charset=utf-8"),
         body_request("json", "token", "sess-401", "application/yaml"),
         body_request("json", "token", "sess-401", "application/yaml+json"),
         body_request("json", "access_token", "opq-alice", "application/x-www-form-urlencoded; like=json"),
         body_request("form", "access_token", "opq-alice", "application/json"),
         body_request("yaml", "token", "sess-carol", "application/x-www-form-urlencoded"), _rq()],
        "the decoder is chosen by what the Content-Type contains — json, else application/x-www-form-urlencoded, else "
        "yaml — whatever parameters, structured syntax suffixes or further media types surround it; a JSON object "
        "announced as YAML is read by the YAML decoder (the same content); a form body announced as JSON, a YAML "
        "document announced as a form are undecodable resp. carry no parameter of that name: no credentials")
    g = dict(_std_mech("generic", 0, None), src=[{"k": "header", "name": "Authorization", "scheme": "Bearer"}],
             lifespan=False, auth="cc:400:invalid_scope")
    res["34_seed_failing_endpoint_authentication_is_not_missing_credentials"] = assemble(
        [g, anon], [{"ref": "a0"}, {"ref": "a9"}],
        [_rq([("Authorization", "Bearer " + v)]) for v in ("sess-carol", "sess-unknown")] + [_rq()],
        "minimal reproduction of seed s5/C04-b (TokenErrorResponse gains an Is method that matches ErrArgument for "
        "invalid_request / invalid_scope / unsupported_grant_type): the identity endpoint of a generic authenticator "
        "demands oauth2_client_credentials, the authorization server answers heimdall's token request with 400 "
        "invalid_scope. The session in the Authorization header is FOUND; no request to the identity endpoint can be "
        "authenticated (internal error caused by a communication error) — final without allow_fallback_on_error, "
        "anonymous must not be consulted, for a known and for an unknown session alike; a request without credentials "
        "reaches anonymous")
    mechs, steps = [], []
    for i, auth in enumerate(["cc:400:invalid_request", "cc:400:unsupported_grant_type", "cc:400:invalid_client",
                              "cc:400text", "cc:503", "cc:dead", "cc:200text", "cc:200error:invalid_scope", "cc:ok",
                              "api_key", "basic_auth"]):
        typ = ("jwt", "oauth2_introspection", "generic")[i % 3]
        m = dict(_std_mech(typ, i, True), auth=auth)
        if typ != "generic" and i % 2:
            m["meta"] = "ok"
        if typ == "oauth2_introspection":
            m["src"] = None
        if typ == "generic":
            m["src"] = [{"k": "header", "name": "Authorization", "scheme": "Bearer"}]
            m["lifespan"] = False
        mechs.append(m)
        steps.append({"ref": m["id"]})
    last = _std_mech("anonymous", 20, None)
    res["35_every_answer_of_the_authorization_server_to_heimdalls_token_request"] = assemble(
        mechs + [last], steps + [{"ref": "a20"}],
        [_rq([("Authorization", "Bearer " + v)]) for v in ("@Jok@", "opq-alice", "sess-carol", "sess-unknown")] + [_rq()],
        "a chain of jwt / oauth2_introspection / generic authenticators (directly and behind a metadata endpoint) whose "
        "endpoints demand oauth2_client_credentials, each with another answer of the authorization server (400 with "
        "error codes, 400 / 200 without JSON, 200 with an error document, 503, no answer), api_key, basic_auth; all "
        "allow fallback, so every one of them is consulted: none of the failures is an argument error, the sentinels "
        "are the model's")
    return res
