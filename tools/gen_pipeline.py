"""Generators of `pipeline` cases (property C01): a rule and/or default rule whose mechanisms replay a scripted
outcome vector, the error pipeline (incl. error handlers whose configuration reads the request), the status overrides
of the services, whether the request matches the rule, what the client sent (header, query).
Every random choice comes from the rng handed in."""
import copy
import itertools

KINDS = ["argument", "authentication", "authorization", "communication", "timeout", "configuration", "internal",
         "norule"]
# values of the request's Accept header (None = no header); the last four make the content negotiation of the HTTP
# error translator fail (unsupported types, malformed values)
ACCEPTS = [None, "*/*", "application/json", "text/plain", "text/html", "application/xml",
           "text/plain;q=0.5, image/png", "image/png", "application/pdf, image/*", "foobar", "application/json;q=foo"]
# log.level of the request-scoped logger (the pipeline code looks at it: trace makes conditionalSubjectHandler dump
# the subject around the evaluation of the `if` condition)
LOG_LEVELS = ["trace", "debug", "info", "warn", "disabled"]
CEL_TYPES = ["authentication_error", "authorization_error", "communication_error", "internal_error",
             "precondition_error"]

# --- what the client controls and error-handler configurations may read: the header X-C01-To and the query parameter
# `to` (None = absent). Header values cannot contain line breaks (net/http refuses to send them); a decoded query
# parameter can.
HDR_VALUES = [(None, 30), ("https://login.c01.test/in", 28), ("", 14), ("  ", 14), ("\t", 4), ("%zz :x", 10)]
Q_VALUES = [(None, 30), ("https://idp.c01.test/login?x=1", 22), ("", 12), ("   ", 10),
            ("https://a.c01.test/x\nX-Injected: 1", 10), (" \n \n", 8), (":%zz", 8)]
# `to` templates of the redirect error handler (texts in harness/main/pipeline.go, c01ToTemplates)
TO_TEMPLATES = [("static", 22), ("fail", 12), ("hdr", 16), ("q", 11), ("path", 4), ("rawq", 5), ("ml-hdr", 9),
                ("ml-q", 7), ("sel", 6), ("need-q", 4), ("need-q-trim", 4)]
# realm of the www_authenticate handler: catalogue entry / rule-level `config` (None = "c01" / no rule-level config)
REALMS = [(None, 55), ("", 10), ("  ", 10), ("c01 realm", 12), ("multi\nline", 13)]
RULE_REALMS = [(None, 70), ("", 8), ("  ", 7), ("other", 8), ("multi\nline", 7)]
# request attributes an `if` condition can ask about (CEL texts in harness/main/pipeline.go, c01CondExpr)
COND_ON = ["hdr", "q", "rawq", "path"]

# --- middlewares in front of the service handler that touch the response before the rule is looked up:
# `serve.<service>.cors` (None = not configured; only the proxy service has the middleware). `origins` = allowed_origins
# (exact, lower case; [] or "*" = every origin), `methods` = allowed_methods (None = rs/cors' default GET, POST, HEAD),
# `creds` = allow_credentials.
CORS_CFGS = [
    (None, 62),
    ({"origins": ["https://app.c01.test"], "methods": None, "creds": False}, 12),
    ({"origins": [], "methods": None, "creds": False}, 8),
    ({"origins": ["*"], "methods": ["GET", "POST", "DELETE"], "creds": True}, 6),
    ({"origins": ["https://app.c01.test", "https://other.c01.test"], "methods": ["POST"], "creds": True}, 6),
    ({"origins": ["https://other.c01.test"], "methods": None, "creds": True}, 6),
]
# the request's Origin header (None = absent)
ORIGIN_VALUES = [(None, 40), ("https://app.c01.test", 35), ("https://evil.c01.test", 13), ("", 6),
                 ("https://APP.c01.test", 6)]
# share of CORS preflight requests (OPTIONS + Access-Control-Request-Method: GET); every other request is a GET
P_PREFLIGHT = 0.07


def path_of(hit):
    return "/c01/some/resource" if hit else "/elsewhere/resource"


def render_to(to, req, hit):
    """what the `to` template named `to` does for the request: (renders?, nominal rendered value or None when the
    value depends on the entry point). Nominal = as the Envoy service sees the request (HTTP servers trim header
    values)"""
    hdr, q = req.get("hdr"), req.get("q")
    h = hdr or ""
    qv = q or ""
    if to in (None, "static"):
        return True, None
    if to == "fail":
        return False, None
    if to == "hdr":
        return True, h
    if to == "q":
        return True, qv
    if to == "path":
        return True, path_of(hit)
    if to == "rawq":
        return True, None if q else ""
    if to == "ml-hdr":
        return True, "\n  " + h + "\n"
    if to == "ml-q":
        return True, "\n" + qv + "\n\n"
    if to == "sel":
        return True, h if h else qv
    if to == "need-q":
        return (True, qv) if qv else (False, None)
    if to == "need-q-trim":
        # sprig `trim` = strings.TrimSpace
        return (True, qv.strip()) if qv.strip() else (False, None)
    raise ValueError(to)


def render_class(ok, val):
    if not ok:
        return "fails"
    if val is None:
        return "present"
    if val == "":
        return "empty"
    if val.strip() == "":
        return "blank"
    if "\n" in val.strip():
        return "multi-line"
    if val.strip() != val:
        return "padded"
    return "present"


def cond_value(on, req, hit):
    """truth value of the question `on` (see c01CondExpr) for the request"""
    if on == "hdr":
        return (req.get("hdr") or "").startswith("http")
    if on == "q":
        return (req.get("q") or "").startswith("http")
    if on == "rawq":
        return req.get("q") is not None
    if on == "path":
        return bool(hit)
    raise ValueError(on)


def derive(case):
    """(re)compute everything in the case that is a function of the request: whether / to what the `to` templates
    render, the truth value of the request-dependent conditions. Called by the generators and after every change the
    shrinker makes."""
    req = case.get("req") or {}
    hit = case.get("hit", True)
    for key in ("rule", "default"):
        d = case.get(key)
        if not d:
            continue
        for st in d.get("hand", []) + d.get("fin", []) + d.get("eh", []):
            c = st.get("cond")
            if c and c.get("on"):
                c["lit"] = cond_value(c["on"], req, hit) != bool(c.get("neg"))
        for e in d.get("eh", []):
            if e.get("kind") == "redirect" and e.get("to"):
                ok, val = render_to(e["to"], req, hit)
                e["render"] = ok
                e.pop("rendered", None)
                if ok and val is not None:
                    e["rendered"] = val
    return case


# a fixed pool of service configurations (each distinct one costs three listening services in the harness)
CFGS = [
    {},
    {},
    {},
    {"accepted": 202},
    {"accepted": 204, "authn": 418, "authz": 451},
    {"argument": 422, "authn": 407, "authz": 404, "comm": 504, "internal": 503, "norule": 410},
    {"internal": 599, "norule": 301},
    {"authn": 302, "comm": 500},
    # the operator asks for a success status on an error class: the side condition of the theorems is violated
    {"authz": 200},
    {"authn": 204, "internal": 200, "norule": 202, "accepted": 201},
]


def wchoice(rng, pairs):
    total = sum(w for _, w in pairs)
    x = rng.random() * total
    for v, w in pairs:
        x -= w
        if x < 0:
            return v
    return pairs[-1][0]


def gen_kinds(rng, main):
    n = wchoice(rng, [(1, 70), (0, 12), (2, 14), (3, 4)])
    if n == 0:
        return []
    ks = [main if rng.random() < 0.6 else rng.choice(KINDS)]
    while len(ks) < n:
        ks.append(rng.choice(KINDS))
    return ks


def gen_cond(rng, where):
    if where == "subject":
        k = wchoice(rng, [("none", 44), ("true", 8), ("false", 10), ("s1", 9), ("s2", 6), ("err", 4), ("bad", 10),
                          ("req", 9)])
    else:
        k = wchoice(rng, [("none", 30), ("true", 4), ("false", 10), ("err", 30), ("s1", 5), ("bad", 9), ("req", 12)])
    if k == "none":
        return None
    if k == "req":
        # an expression over what the client sent; `lit` is filled in by derive()
        return {"lit": None, "on": rng.choice(COND_ON), "neg": rng.random() < 0.4}
    if k == "true":
        return {"lit": True}
    if k == "false":
        return {"lit": False}
    if k in ("s1", "s2"):
        return {"sub": k}
    if k == "err":
        return {"err": rng.choice(CEL_TYPES)}
    return {"bad": True}


def gen_auth(rng, ident, p_ok):
    out = wchoice(rng, [("ok", p_ok), ("err", (100 - p_ok) * 0.85), ("panic", (100 - p_ok) * 0.15)])
    a = {"id": ident, "out": out, "fb": rng.random() < 0.35}
    if out == "ok":
        a["sub"] = rng.choice(["s1", "s1", "s2"])
    elif out == "err":
        a["kinds"] = gen_kinds(rng, rng.choice(["authentication", "authentication", "argument"]))
    else:
        a["kinds"] = gen_kinds(rng, "authentication") if rng.random() < 0.3 else []
    return a


def gen_handler(rng, ident, typ, p_ok):
    out = wchoice(rng, [("ok", p_ok), ("err", (100 - p_ok) * 0.8), ("panic", (100 - p_ok) * 0.2)])
    h = {"id": ident, "typ": typ, "cond": gen_cond(rng, "subject"), "out": out, "coe": rng.random() < 0.25}
    if out == "err":
        h["kinds"] = gen_kinds(rng, rng.choice(["authorization", "communication", "internal"]))
    elif out == "panic":
        h["kinds"] = gen_kinds(rng, "authorization") if rng.random() < 0.3 else []
    return h


def gen_eh(rng, ident):
    kind = wchoice(rng, [("default", 40), ("redirect", 35), ("www", 25)])
    e = {"id": ident, "cond": gen_cond(rng, "error"), "kind": kind}
    if kind == "www":
        e["realm"] = wchoice(rng, REALMS)
        e["rrealm"] = wchoice(rng, RULE_REALMS)
    if kind == "redirect":
        e["to"] = wchoice(rng, TO_TEMPLATES)
        e["render"] = e["to"] != "fail"   # request-dependent templates: filled in by derive()
        e["code"] = wchoice(rng, [(0, 30), (301, 15), (302, 15), (303, 10), (307, 10), (308, 5), (200, 6), (204, 3),
                                  (404, 6)])
    return e


def gen_doc(rng, prefix, is_default):
    p_ok = rng.choice([55, 75, 90, 97])
    na = wchoice(rng, [(1, 50), (2, 30), (3, 12), (0, 8)])
    nh = wchoice(rng, [(0, 20), (1, 30), (2, 25), (3, 15), (4, 10)])
    nf = wchoice(rng, [(0, 35), (1, 35), (2, 20), (3, 10)])
    ne = wchoice(rng, [(0, 25), (1, 35), (2, 25), (3, 15)])
    doc = {
        "auth": [gen_auth(rng, f"{prefix}a{i}", p_ok) for i in range(na)],
        "hand": [gen_handler(rng, f"{prefix}h{i}", rng.choice(["authorizer", "contextualizer"]), p_ok)
                 for i in range(nh)],
        "fin": [gen_handler(rng, f"{prefix}f{i}", "finalizer", p_ok) for i in range(nf)],
        "eh": [gen_eh(rng, f"{prefix}e{i}") for i in range(ne)],
    }
    if not is_default:
        doc["backend"] = rng.random() < 0.85
    return doc


def gen_case(rng):
    has_rule = rng.random() < 0.92
    has_default = rng.random() < 0.35
    cfg = dict(rng.choice(CFGS))
    if rng.random() < 0.45:
        cfg["verbose"] = True
    cfg["log"] = wchoice(rng, [("trace", 35), ("debug", 15), ("info", 20), ("warn", 10), ("disabled", 20)])
    cors = wchoice(rng, CORS_CFGS)
    if cors is not None:
        cfg["cors"] = copy.deepcopy(cors)
    return derive({
        "fam": "pipeline",
        "cfg": cfg,
        "rule": gen_doc(rng, "", False) if has_rule else None,
        "default": gen_doc(rng, "d", True) if has_default else None,
        "hit": rng.random() < 0.88,
        "upstream": rng.choice([200, 200, 201, 204, 404, 500]),
        "style": rng.randrange(4),
        "accept": None if rng.random() < 0.3 else rng.choice(ACCEPTS),
        "req": {"hdr": wchoice(rng, HDR_VALUES), "q": wchoice(rng, Q_VALUES), "origin": wchoice(rng, ORIGIN_VALUES),
                "preflight": rng.random() < P_PREFLIGHT},
    })


# ---------------------------------------------------------------------------------------------------------------
# small-scope exhaustive enumeration: every pipeline of <= 2 authenticators, <= 1 handler, <= 1 finalizer over the
# outcome classes below x every error pipeline class

AUTH_CLASSES = [
    {"out": "ok", "sub": "s1", "fb": False},
    {"out": "err", "kinds": ["authentication"], "fb": False},
    {"out": "err", "kinds": ["authentication"], "fb": True},
    {"out": "err", "kinds": ["argument"], "fb": False},
    {"out": "panic", "kinds": [], "fb": True},
]
STEP_CLASSES = [
    {"cond": None, "out": "ok", "coe": False},
    {"cond": {"lit": False}, "out": "err", "kinds": ["authorization"], "coe": False},
    {"cond": {"sub": "s1"}, "out": "err", "kinds": ["authorization"], "coe": False},
    {"cond": {"bad": True}, "out": "ok", "coe": False},
    {"cond": {"bad": True}, "out": "ok", "coe": True},
    {"cond": None, "out": "err", "kinds": ["communication"], "coe": True},
    {"cond": {"sub": "s2"}, "out": "panic", "kinds": [], "coe": False},
    {"cond": None, "out": "panic", "kinds": [], "coe": True},
    {"cond": None, "out": "err", "kinds": [], "coe": False},
]
EH_CLASSES = [
    [],
    [{"cond": None, "kind": "default"}],
    [{"cond": {"lit": False}, "kind": "default"}],
    [{"cond": {"err": "authentication_error"}, "kind": "www"}, {"cond": None, "kind": "redirect", "render": True,
                                                                  "code": 0}],
    [{"cond": None, "kind": "redirect", "render": False, "code": 301}],
    [{"cond": {"bad": True}, "kind": "default"}],
    [{"cond": {"err": "authorization_error"}, "kind": "redirect", "render": True, "code": 303},
     {"cond": None, "kind": "www"}],
    # request-dependent configurations: the `to` template reads a header; a template that demands a query parameter
    # behind a condition on the header, then a multi-line template
    [{"cond": None, "kind": "redirect", "to": "hdr", "code": 0}],
    [{"cond": {"lit": None, "on": "hdr", "neg": True}, "kind": "redirect", "to": "need-q-trim", "code": 307},
     {"cond": None, "kind": "redirect", "to": "ml-q", "code": 0}],
]
# what the client sent, cycled along the enumeration: nothing, a URL in the header, empty values, blank values, a
# multi-line query value, a blank multi-line query value
SMALL_REQS = [(None, None), ("https://login.c01.test/in", None), ("", ""), ("  ", "   "),
              (None, "https://a.c01.test/x\nX-Injected: 1"), (None, " \n \n")]


SMALL_CORS = [None, CORS_CFGS[1][0], None, CORS_CFGS[2][0], CORS_CFGS[3][0], None, CORS_CFGS[4][0]]
SMALL_ORIGINS = [None, "https://app.c01.test", "https://app.c01.test", "https://evil.c01.test", None,
                 "https://app.c01.test", "", None, "https://app.c01.test", "https://evil.c01.test", None,
                 "https://app.c01.test", "https://APP.c01.test"]


def small_scope_cases():
    cases = []
    auth_lists = [[a] for a in AUTH_CLASSES] + [[a, b] for a in AUTH_CLASSES for b in AUTH_CLASSES]
    step_lists = [[]] + [[s] for s in STEP_CLASSES]
    for al, hl, fl, el in itertools.product(auth_lists, step_lists, step_lists, EH_CLASSES):
        doc = {
            "auth": [dict(a, id=f"a{i}") for i, a in enumerate(al)],
            "hand": [dict(h, id=f"h{i}", typ="authorizer") for i, h in enumerate(hl)],
            "fin": [dict(f, id=f"f{i}", typ="finalizer") for i, f in enumerate(fl)],
            "eh": [dict(copy.deepcopy(e), id=f"e{i}") for i, e in enumerate(el)],
            "backend": True,
        }
        k = len(cases)
        # verbosity, Accept header and log level cycle through all 110 combinations along the enumeration (the error
        # pipeline index runs fastest with period 9, coprime to 2, 11 and 5, so every outcome class of a step meets
        # every combination somewhere in the enumeration); the request data changes every 110 cases
        cfg = {"log": LOG_LEVELS[(k // 22) % len(LOG_LEVELS)]}
        if k % 2:
            cfg["verbose"] = True
        hdr, q = SMALL_REQS[(k // 110) % len(SMALL_REQS)]
        # CORS configuration, Origin header and preflight requests cycle with periods 7, 13 and 17 (coprime to the
        # periods above and to each other): every outcome class of a step meets every CORS configuration
        cors = SMALL_CORS[k % len(SMALL_CORS)]
        if cors is not None:
            cfg["cors"] = copy.deepcopy(cors)
        cases.append(derive({"fam": "pipeline", "cfg": cfg, "rule": doc, "default": None,
                             "hit": True, "upstream": 200, "style": k % 4,
                             "accept": ACCEPTS[(k // 2) % len(ACCEPTS)],
                             "req": {"hdr": hdr, "q": q, "origin": SMALL_ORIGINS[k % len(SMALL_ORIGINS)],
                                     "preflight": k % 17 == 16}}))
    return cases


def nontrivial(case):
    """the outcome vector contains at least one failure (error, panic, condition that cannot be evaluated) or a
    skipped step (condition false), in the rule or the default rule"""
    for key in ("rule", "default"):
        d = case.get(key)
        if not d:
            continue
        for a in d.get("auth", []):
            if a["out"] != "ok":
                return True
        for h in d.get("hand", []) + d.get("fin", []):
            if h["out"] != "ok":
                return True
            c = h.get("cond")
            if c and (c.get("bad") or c.get("err") or c.get("lit") is False or c.get("sub")):
                return True
    return False
