"""Case generators of the `factory` family (property C14): a mechanism catalogue (with ids shared between kinds), an
operation mode, a load path (YAML / JSON rule set document, kubernetes resource), a default rule (absent / partial /
complete / malformed) and a *history* of rule definitions loaded one after the other by one rule factory.

A list-valued key (`execute`, `on_error`) is spelled in one of four ways: key absent, `null` (Python None), empty
list, list with steps.

Every step carries the same information twice: `keys`/`if`/`config` are what heimdall reads (literal YAML
values), `keys`/`cond`/`cfg` are what the Lean model reads (a condition class and the tag of the override
payload).  `step()` is the only place that builds a step, so the two views cannot drift apart."""
import itertools
import json
import os
import re

COND_EXPR = 'Request.Header("X-Skip") != "1"'
COND_LITERAL = {"expr": COND_EXPR, "empty": "", "invalid": "Request.Header(", "nonstring": 42}

# ---------------------------------------------------------------------------------------------------------------
# CEL expressions as trees.  The Lean side computes the static result type from the TREE (Model/FactoryCel.lean),
# heimdall gets the TEXT `cel_render` prints for it; the generator does not say whether an expression is acceptable.


def B(b):
    return {"b": b}


def I(n):
    return {"i": n}


def S(s):
    return {"s": s}


def V(n):
    return {"var": n}


def sel(e, *fields):
    for f in fields:
        e = {"sel": [e, f]}
    return e


def idx(e, i):
    return {"idx": [e, i]}


def lst(e):
    return {"list": e}


def mp(k, e):
    return {"map": [k, e]}


def eq(a, b):
    return {"eq": [a, b]}


def ne(a, b):
    return {"ne": [a, b]}


def and_(a, b):
    return {"and": [a, b]}


def or_(a, b):
    return {"or": [a, b]}


def not_(a):
    return {"not": a}


def ite(c, a, b):
    return {"ite": [c, a, b]}


def call(recv, fn, *args):
    return {"call": [recv, fn] + list(args)}


def fn(name, arg):
    return {"fn": [name, arg]}


def raw(text):
    return {"raw": text}


_PRIMARY = ("b", "i", "s", "list", "map", "var", "sel", "idx", "call", "fn")
_BINARY = {"eq": "==", "ne": "!=", "and": "&&", "or": "||"}


def cel_render(a):
    """the CEL text of a tree; every operand that is not a primary expression is parenthesised"""
    (k, v), = a.items()

    def prim(x):
        return cel_render(x) if next(iter(x)) in _PRIMARY else "(" + cel_render(x) + ")"
    if k == "b":
        return "true" if v else "false"
    if k == "i":
        return str(v)
    if k == "s":
        return json.dumps(v)
    if k == "list":
        return "[" + cel_render(v) + "]"
    if k == "map":
        return "{" + json.dumps(v[0]) + ": " + cel_render(v[1]) + "}"
    if k == "var":
        return v
    if k == "sel":
        return prim(v[0]) + "." + v[1]
    if k == "idx":
        return prim(v[0]) + "[" + cel_render(v[1]) + "]"
    if k in _BINARY:
        return prim(v[0]) + " " + _BINARY[k] + " " + prim(v[1])
    if k == "not":
        return "!" + prim(v)
    if k == "ite":
        return prim(v[0]) + " ? " + prim(v[1]) + " : " + prim(v[2])
    if k == "call":
        return prim(v[0]) + "." + v[1] + "(" + ", ".join(cel_render(x) for x in v[2:]) + ")"
    if k == "fn":
        return v[0] + "(" + cel_render(v[1]) + ")"
    if k == "raw":
        return v
    raise ValueError("cel_render: " + repr(a))


_SUBJECT, _PAYLOAD, _REQUEST, _OUTPUTS = V("Subject"), V("Payload"), V("Request"), V("Outputs")


def _hdr(name):
    return call(_REQUEST, "Header", S(name))


_SKIPPED = eq(_hdr("X-Skip"), S("1"))
SKIP = ne(_hdr("X-Skip"), S("1"))            # the condition of the older streams: holds unless the probe sends X-Skip: 1
_DENIED = eq(_hdr("X-Deny"), S("1"))
DENY = ne(_hdr("X-Deny"), S("1"))            # false exactly for the probe that asks to be refused (X-Deny: 1)
_QUERY = call(sel(_REQUEST, "URL"), "Query")
_ATTR_X = eq(sel(_SUBJECT, "Attributes", "x"), B(True))

# `if` conditions.  Every member of COND_ANY / COND_SUBJECT evaluates, for every probe request, to what SKIP evaluates
# to (so the probe semantics of the model needs no CEL interpreter); COND_SUBJECT needs `Subject` at run time (steps of
# `execute`), COND_ANY also works in `on_error`.  Most of them are boolean expressions over `dyn` sub-terms.
COND_ANY = [
    SKIP,
    not_(_SKIPPED),
    eq(_SKIPPED, B(False)),
    ite(_SKIPPED, B(False), B(True)),
    ne(fn("dyn", _hdr("X-Skip")), S("1")),
    and_(SKIP, call(sel(_REQUEST, "URL", "Path"), "startsWith", S("/"))),
    and_(SKIP, ne(sel(_REQUEST, "Method"), S(""))),
    or_(SKIP, eq(sel(_REQUEST, "URL", "Path"), S(""))),
    ne(idx(lst(_hdr("X-Skip")), I(0)), S("1")),
    ne(sel(mp("h", _hdr("X-Skip")), "h"), S("1")),
    and_(SKIP, eq(call(_QUERY, "size"), I(0))),
    and_(SKIP, or_(eq(sel(_OUTPUTS, "y"), B(True)), B(True))),
]
COND_SUBJECT = [
    and_(SKIP, ne(sel(_SUBJECT, "ID"), S(""))),
    and_(eq(sel(_SUBJECT, "ID"), sel(_SUBJECT, "ID")), SKIP),
    and_(SKIP, or_(_ATTR_X, B(True))),
    and_(SKIP, or_(and_(sel(_SUBJECT, "Attributes", "a"), sel(_SUBJECT, "Attributes", "b")), B(True))),
    and_(SKIP, or_(not_(sel(_SUBJECT, "Attributes", "a")), B(True))),
]
# `expressions` of the cel authorizer (Subject, Request, Outputs at run time) and of the remote authorizer (Payload):
# boolean, and true for every probe request
EXPR_BOTH = [B(True), eq(I(1), I(1)), not_(B(False)), eq(S("a"), S("a"))]
EXPR_CEL = EXPR_BOTH + [
    ne(sel(_SUBJECT, "ID"), S("")),
    eq(_hdr("X-Cred"), S("t")),
    or_(_ATTR_X, B(True)),
    or_(eq(sel(_OUTPUTS, "y"), I(1)), B(True)),
    or_(eq(idx(_OUTPUTS, S("y")), S("a")), B(True)),
]
# expressions of a cel authorizer that listen to the probe asking to be refused: each evaluates to what DENY evaluates
# to for every probe request.  A cel authorizer calls nobody; refusing that probe is how it shows WHICH catalogue entry
# it is (the error names its source).  The model recognises them by the header they read (Cel.readsHeader).
EXPR_DENY = [
    DENY,
    not_(_DENIED),
    ite(_DENIED, B(False), B(True)),
    and_(DENY, ne(sel(_SUBJECT, "ID"), S(""))),
    or_(DENY, eq(sel(_REQUEST, "Method"), S(""))),
]
EXPR_REMOTE = EXPR_BOTH + [
    or_(eq(sel(_PAYLOAD, "x"), I(1)), B(True)),
    or_(sel(_PAYLOAD, "ok"), B(True)),
]
# never acceptable, by class
CEL_NONBOOL = [
    I(1), S("x"), lst(I(1)), mp("a", I(1)), lst(B(True)), _hdr("X"), _QUERY, sel(_QUERY, "x"),
    idx(idx(_QUERY, S("x")), I(0)), _OUTPUTS, call(S("a"), "size"), fn("size", S("a")), ite(B(True), I(1), I(2)),
    call(sel(_REQUEST, "URL"), "String"),
]
CEL_DYN = [
    sel(_SUBJECT, "Attributes", "external"), sel(_SUBJECT, "Attributes", "admin"),
    idx(sel(_SUBJECT, "Attributes", "groups"), I(0)), sel(_SUBJECT, "ID"), _SUBJECT, _PAYLOAD, _REQUEST,
    sel(_PAYLOAD, "x"), idx(_PAYLOAD, I(0)), sel(idx(sel(_PAYLOAD, "x", "y"), I(1)), "z"),
    sel(_OUTPUTS, "y"), idx(_OUTPUTS, S("y")), sel(_OUTPUTS, "y", "z"),
    sel(_REQUEST, "Method"), sel(_REQUEST, "URL", "Path"), call(_REQUEST, "Body"), sel(call(_REQUEST, "Body"), "x"),
    idx(sel(_REQUEST, "ClientIPAddresses"), I(0)), fn("dyn", B(True)), fn("dyn", I(1)),
    ite(B(True), sel(_SUBJECT, "ID"), I(1)), ite(B(True), B(True), sel(_SUBJECT, "x")),
    idx(lst(sel(_SUBJECT, "a")), I(0)), sel(mp("a", _PAYLOAD), "a"),
]
CEL_SYNTAX = [raw(t) for t in ("Request.Header(", "true ||", "1 +", ")", "a b", '"abc', "Subject..ID", "== true", "   ",
                               "true &&& false", "if true")]
CEL_UNKNOWN = [
    V("Foo"), eq(sel(V("Foo"), "bar"), I(1)), eq(sel(V("subject"), "ID"), S("a")), fn("nope", I(1)),
    call(sel(_SUBJECT, "ID"), "nope"), eq(call(_REQUEST, "Nope", S("a")), S("b")), eq(I(1), S("a")),
    and_(I(1), B(True)), not_(I(1)), sel(B(True), "x"), idx(I(1), I(0)), eq(call(_REQUEST, "Header", I(1)), S("a")),
    eq(fn("size", I(1)), I(1)), call(S("a"), "startsWith", I(1)),
]
CEL_BAD = {"nonbool": CEL_NONBOOL, "dyn": CEL_DYN, "syntax": CEL_SYNTAX, "unknown": CEL_UNKNOWN}
CEL_ALL_BAD = [e for k in ("nonbool", "dyn", "syntax", "unknown") for e in CEL_BAD[k]]
# text -> tree, for every expression the generator can produce
CEL = {}
for _e in COND_ANY + COND_SUBJECT + EXPR_CEL + EXPR_DENY + EXPR_REMOTE + CEL_ALL_BAD:
    _t = cel_render(_e)
    assert CEL.get(_t, _e) == _e, "two trees for " + _t
    CEL[_t] = _e
assert cel_render(SKIP) == COND_EXPR
DENY_EXPR = cel_render(DENY)
assert DENY_EXPR == 'Request.Header("X-Deny") != "1"'     # the prototype expression of the harness' cel authorizers


def cel_case():
    """operation `cel` of the family: the static type of every expression of the table, model vs cel-go"""
    srcs = sorted(CEL)
    return {"fam": "factory", "op": "cel", "exprs": srcs, "cel": [{"src": t, "ast": CEL[t]} for t in srcs]}


# ---------------------------------------------------------------------------------------------------------------
# the names of the mechanism types heimdall's registries know, read from the tree under test: referenced as ids they
# are unknown mechanisms unless the catalogue defines such an id for that kind

def type_names():
    try:
        import vlib
        repo = vlib.REPO
    except Exception:       # noqa: BLE001
        repo = os.environ.get("VERIF_REPO", "/repo")
    res = {}
    for kind, pkg in (("authn", "authenticators"), ("authz", "authorizers"), ("ctx", "contextualizers"),
                      ("fin", "finalizers"), ("eh", "errorhandlers")):
        path = os.path.join(repo, "internal", "rules", "mechanisms", pkg, "constants.go")
        with open(path) as fh:
            names = re.findall(r'^\s*\w+\s*=\s*"([a-z0-9_]+)"', fh.read(), re.M)
        if not names:
            raise RuntimeError("no mechanism type names found in " + path)
        res[kind] = names
    return res


TYPE_NAMES = type_names()
ALL_TYPE_NAMES = sorted({n for ns in TYPE_NAMES.values() for n in ns})

# override payloads per mechanism type: tag -> literal.  Tag 0 is the empty map, tag 1 an override whose effect is
# visible in the trace, tag 2 another acceptable one, tags 8 and 9 are refused by the mechanism.
PAYLOADS = {
    "authn/generic": {0: {}, 1: {"allow_fallback_on_error": False}, 2: {"cache_ttl": "5s"},
                      8: {"no_such_field": 1}, 9: {"cache_ttl": "soon"}},
    "authn/anonymous": {0: {}, 1: {"subject": "ovr"}, 8: {"no_such_field": 1}, 9: {"subject": {"a": "b"}}},
    "authz/remote": {0: {}, 1: {"values": {"v": "ovr"}}, 2: {"cache_ttl": "0s"},
                     8: {"no_such_field": 1}, 9: {"expressions": [{"expression": "true ||"}]}},
    "authz/cel": {0: {}, 1: {"expressions": [{"expression": "true"}]},
                  2: {"expressions": [{"expression": 'Subject.ID != ""', "message": "m"}]},
                  3: {"expressions": [{"expression": 'Request.Header("X-Deny") != "1"'}]},
                  8: {"no_such_field": 1}, 9: {"expressions": [{"expression": "Subject.Attributes.admin"}]}},
    "ctx/generic": {0: {}, 1: {"values": {"v": "ovr"}}, 2: {"continue_pipeline_on_error": False},
                    8: {"no_such_field": 1}, 9: {"cache_ttl": "soon"}},
    "fin/header": {0: {}, 1: None, 8: {"no_such_field": 1}, 9: {"headers": {}}},   # tag 1 depends on the id
    "eh/redirect": {0: {}, 8: {"no_such_field": 1}, 9: {"to": "http://elsewhere.test/"}},
    "eh/default": {0: {}, 8: {"no_such_field": 1}, 9: {"to": "http://elsewhere.test/"}},
    "eh/www_authenticate": {0: {}, 8: {"no_such_field": 1}, 9: {"realm": {"a": "b"}}},
}
GOOD = {"authn/generic": [0, 1, 2], "authn/anonymous": [0, 1], "authz/remote": [0, 1, 2], "authz/cel": [0, 1, 2, 3],
        "ctx/generic": [0, 1, 2],
        "fin/header": [0, 1], "eh/redirect": [0], "eh/default": [0], "eh/www_authenticate": [0]}
# Tags from TYPED on name the VALUES of the case's `ovr` table (`ovr[tag - TYPED]`): the model decodes the value itself
# (strict decoding per mechanism type, Model/FactoryOverride.lean) instead of being told whether it is acceptable.
TYPED = 100


def decl(kind, mid, typ):
    return {"kind": kind, "id": mid, "type": typ, "accepts": GOOD[kind + "/" + typ]}


# "keto" is an authorizer, a contextualizer and a finalizer at once, "duo" an authenticator and an error handler:
# the catalogue keeps one name space per kind.  All other ids exist for one kind only.
CATALOGUE = (
    [decl("authn", i, "generic") for i in ("g1", "g2", "g3", "duo")] + [decl("authn", "anon", "anonymous")]
    + [decl("authz", i, "remote") for i in ("z1", "z2", "z3", "keto")] + [decl("authz", i, "cel") for i in ("x1", "x2")]
    + [decl("ctx", i, "generic") for i in ("c1", "c2", "c3", "keto")]
    + [decl("fin", i, "header") for i in ("f1", "f2", "f3", "keto")]
    + [decl("eh", i, "redirect") for i in ("e1", "e2", "e3", "duo")] + [decl("eh", "edef", "default")]
    + [decl("eh", i, "www_authenticate") for i in ("w1", "w2")]
)
SHARED_IDS = ["keto", "duo"]
PATHS = ["yaml", "json", "k8s"]
ABSENT = "<absent>"      # spelling marker for rule()/default_rule(): leave the key out
BY_KIND = {}
for _d in CATALOGUE:
    BY_KIND.setdefault(_d["kind"], []).append(_d)
KEY_OF = {"authn": "authenticator", "authz": "authorizer", "ctx": "contextualizer", "fin": "finalizer",
          "eh": "error_handler"}
KIND_OF = {v: k for k, v in KEY_OF.items()}
LOOKUP_ORDER = ["authenticator", "authorizer", "contextualizer", "finalizer"]


def type_of(kind, mid):
    for d in BY_KIND.get(kind, []):
        if d["id"] == mid:
            return kind + "/" + d["type"]
    return None


def payload(kind, mid, tag):
    t = type_of(kind, mid)
    if t is None:            # unknown mechanism: the payload is never looked at
        return {} if tag == 0 else {"no_such_field": 1}
    if tag not in PAYLOADS[t]:   # a tag this type has no payload for: anything it refuses
        return {"no_such_field": 1}
    p = PAYLOADS[t][tag]
    if p is None:
        p = {"headers": {"X-Fin": mid + "/{{ .Subject.ID }}/ovr"}}
    return p


def step(keys, cond="absent", cfg=None, on_error=False):
    """keys: dict key -> mechanism id (insertion order irrelevant: heimdall reads a map); cond: a condition class of
    the older streams, or a CEL tree (the step's `if` is its text, the model types the tree)"""
    if isinstance(cond, dict):
        s = {"keys": dict(keys), "cond": "cel", "if": cel_render(cond)}
        assert CEL.setdefault(s["if"], cond) == cond, "two trees for " + s["if"]
    else:
        s = {"keys": dict(keys), "cond": cond}
        if cond != "absent":
            s["if"] = COND_LITERAL[cond]
    if cfg is not None:
        # the payload is the one of the mechanism heimdall will pick: first key in its lookup order
        order = ["error_handler"] if on_error else LOOKUP_ORDER
        first = next((k for k in order if k in keys), None)
        kind = KIND_OF.get(first, "authn")
        s["cfg"] = cfg
        s["config"] = payload(kind, keys.get(first, ""), cfg)
    else:
        s["cfg"] = None
    return s


def case(mode, default, rules, path="yaml", ovr=None):
    if isinstance(rules, dict):
        rules = [rules]
    c = {"fam": "factory", "mode": mode, "path": path, "cat": CATALOGUE, "default": default, "rules": rules}
    if ovr:
        c["ovr"] = list(ovr.values if isinstance(ovr, Overrides) else ovr)
    return with_cel(c)


def _expression_texts(v):
    if isinstance(v, dict):
        for k, e in v.items():
            if k == "expression" and isinstance(e, str) and e:
                yield e
            else:
                yield from _expression_texts(e)
    elif isinstance(v, list):
        for e in v:
            yield from _expression_texts(e)


def with_cel(c):
    """the table `cel` of the case: the tree of every CEL text in use (conditions of class `cel`, `expression`
    strings of the typed override values)"""
    used = []
    owners = ([c["default"]] if c.get("default") else []) + list(c["rules"])
    for o in owners:
        for lst_ in ("execute", "on_error"):
            for st in (o.get(lst_) or []):
                if st.get("cond") == "cel" and st["if"] not in used:
                    used.append(st["if"])
    for v in c.get("ovr") or []:
        for t in _expression_texts(v):
            if t not in used:
                used.append(t)
    known = {e["src"]: e["ast"] for e in c.get("cel") or []}
    known.update(CEL)
    c.pop("cel", None)
    if used:
        c["cel"] = [{"src": t, "ast": known[t]} for t in used if t in known]
    return c


class Overrides:
    """the table of typed override values of a case: equal values share a tag, different values never do"""

    def __init__(self):
        self.values = []

    def tag(self, value):
        for i, v in enumerate(self.values):
            if canon(v) == canon(value):
                return TYPED + i
        self.values.append(value)
        return TYPED + len(self.values) - 1

    def step(self, keys, value, cond="absent", on_error=False):
        """a step whose `config` is the literal `value` (a map)"""
        s = step(keys, cond, None, on_error)
        s["cfg"] = self.tag(value)
        s["config"] = value
        return s


def canon(v):
    import json
    return json.dumps(v, sort_keys=True)


def restep(s, keys=None, cond=None, drop_cfg=False, on_error=False):
    """the step `s` with other keys / another condition / without its override (used by the shrinker)"""
    keys = s["keys"] if keys is None else keys
    cond = s.get("cond", "absent") if cond is None else cond

    def mk(cfg):
        n = step(keys, "absent" if cond == "cel" else cond, cfg, on_error)
        if cond == "cel":
            n["cond"], n["if"] = "cel", s["if"]
        return n
    if drop_cfg or s.get("cfg") is None:
        return mk(None)
    if s["cfg"] >= TYPED:
        n = mk(None)
        n["cfg"], n["config"] = s["cfg"], s["config"]
        return n
    return mk(s["cfg"])


def compact(c):
    """drop the entries of the `ovr` table no step refers to and renumber the tags; keep the CEL trees in use"""
    return with_cel(_compact_ovr(c))


def _compact_ovr(c):
    if not c.get("ovr"):
        c.pop("ovr", None)
        return c
    used = []
    owners = ([c["default"]] if c.get("default") else []) + list(c["rules"])
    for o in owners:
        for lst in ("execute", "on_error"):
            for st in (o.get(lst) or []):
                if (st.get("cfg") or 0) >= TYPED and st["cfg"] not in used:
                    used.append(st["cfg"])
    new = {t: TYPED + i for i, t in enumerate(used)}
    for o in owners:
        for lst in ("execute", "on_error"):
            for st in (o.get(lst) or []):
                if (st.get("cfg") or 0) >= TYPED:
                    st["cfg"] = new[st["cfg"]]
    c["ovr"] = [c["ovr"][t - TYPED] for t in used]
    if not c["ovr"]:
        del c["ovr"]
    return c


def rule(execute=ABSENT, on_error=ABSENT, bt=None, forward_to=False):
    """execute / on_error: ABSENT (no key), None (`null`), [] or a list of steps"""
    r = {"bt": bt, "forward_to": forward_to}
    if execute is not ABSENT:
        r["execute"] = execute
    if on_error is not ABSENT:
        r["on_error"] = on_error
    return r


def default_rule(execute=ABSENT, on_error=ABSENT, bt=None):
    d = {"bt": bt}
    if execute is not ABSENT:
        d["execute"] = execute
    if on_error is not ABSENT:
        d["on_error"] = on_error
    return d


def spell_nothing(rng, p_absent=0.6):
    r = rng.random()
    if r < p_absent:
        return ABSENT
    return None if r < p_absent + (1 - p_absent) / 2 else []


# ---------------------------------------------------------------------------------------------------------------
# random generation

def pick_tag(rng, kind, mid, p_bad):
    t = type_of(kind, mid)
    if t is None:
        return rng.choice([None, 0, 8])
    r = rng.random()
    if r < p_bad:
        return rng.choice([8, 9])
    if r < p_bad + 0.25:
        return rng.choice(GOOD[t])
    return None


def gen_stage_steps(rng, kind, n, p_defect, on_error=False):
    steps = []
    ids = [d["id"] for d in BY_KIND[kind]]
    for _ in range(n):
        mid = rng.choice(ids)
        if rng.random() < 0.12 and any(i in ids for i in SHARED_IDS):
            mid = rng.choice([i for i in SHARED_IDS if i in ids])
        if rng.random() < p_defect:
            # unknown: no such id at all, an id that exists for another kind only, the name of a mechanism TYPE (of
            # this or another kind), a catalogue id in another case / with white space around it
            mid = rng.choice(["nope", ids[0] + "x",
                              rng.choice([d["id"] for d in CATALOGUE if d["kind"] != kind and d["id"] not in ids]),
                              rng.choice(TYPE_NAMES[kind]), rng.choice(ALL_TYPE_NAMES),
                              rng.choice(respellings(rng.choice(ids)))])
        cond = "absent"
        r = rng.random()
        if r < 0.15:
            cond = "expr"
        elif r < 0.25:
            # a boolean expression, most of them over dynamically typed sub-terms
            cond = rng.choice(COND_ANY if on_error or rng.random() < 0.5 else COND_SUBJECT)
        elif r < 0.25 + p_defect:
            cond = rng.choice(["empty", "invalid", "nonstring"] + [rng.choice(CEL_BAD[k]) for k in CEL_BAD]
                              + [rng.choice(CEL_DYN)])
        cfg = pick_tag(rng, kind, mid, p_defect)
        steps.append(step({KEY_OF[kind]: mid}, cond, cfg, on_error))
    return steps


def respellings(mid):
    """ids that differ from a catalogue id in case or in white space only: different ids"""
    res = []
    for v in (mid.upper(), mid.capitalize(), " " + mid, mid + " ", mid + "\t", " " + mid + " "):
        if v != mid and v not in res:
            res.append(v)
    return res


def gen_execute(rng, stages, p_defect):
    """stages: subset of {'authn','sh','fin'} that the definition names itself"""
    ex = []
    if "authn" in stages:
        ex += gen_stage_steps(rng, "authn", rng.choice([1, 1, 2, 3]), p_defect)
    if "sh" in stages:
        for _ in range(rng.choice([1, 1, 2, 3])):
            ex += gen_stage_steps(rng, rng.choice(["authz", "ctx"]), 1, p_defect)
    if "fin" in stages:
        ex += gen_stage_steps(rng, "fin", rng.choice([1, 1, 2]), p_defect)
    r = rng.random()
    if ex and r < p_defect:                      # order defect
        rng.shuffle(ex)
    elif ex and r < 2 * p_defect:                # a step heimdall cannot classify
        ex.insert(rng.randrange(len(ex) + 1), step(rng.choice([{}, {"mutator": "m1"}, {"error_handler": "e1"}])))
    elif ex and r < 3 * p_defect:                # several reference keys in one step
        i = rng.randrange(len(ex))
        extra = rng.choice(["authenticator", "authorizer", "contextualizer", "finalizer", "error_handler"])
        keys = dict(ex[i]["keys"])
        keys.setdefault(extra, rng.choice([d["id"] for d in BY_KIND[KIND_OF[extra]]]))
        ex[i] = restep(ex[i], keys=keys)
    return ex


def gen_on_error(rng, p_defect):
    eh = gen_stage_steps(rng, "eh", rng.choice([1, 1, 2, 3]), p_defect, on_error=True)
    if rng.random() < p_defect:
        eh.insert(rng.randrange(len(eh) + 1), step(rng.choice([{}, {"authorizer": "z1"}]), on_error=True))
    return eh


def dedup(steps):
    """the configuration schema wants unique items in the default rule; keep the generator mostly inside it"""
    seen, res = set(), []
    for s in steps:
        k = repr(sorted(s.items(), key=lambda kv: kv[0]))
        if k not in seen:
            seen.add(k)
            res.append(s)
    return res


def gen_default(rng):
    r = rng.random()
    if r < 0.22:
        return None
    p_defect = 0.04 if rng.random() < 0.25 else 0.0
    stages = {"authn"} if rng.random() < 0.96 else set()
    for st in ("sh", "fin"):
        if rng.random() < 0.55:
            stages.add(st)
    ex = gen_execute(rng, stages, p_defect)
    eh = gen_on_error(rng, p_defect) if rng.random() < 0.55 else spell_nothing(rng, 0.7)
    if eh is None and rng.random() < 0.8:        # `null` is refused by the schema: keep it rare
        eh = []
    if rng.random() < 0.97:
        ex = dedup(ex)
        eh = dedup(eh) if isinstance(eh, list) else eh
    if not ex and rng.random() < 0.5:
        ex = rng.choice([ABSENT, None])
    return default_rule(ex, eh, rng.choice([None, False, True, True]))


def gen_rule(rng, has_default, mode):
    fwd = rng.random() < (0.9 if mode == "proxy" else 0.4)
    p_defect = 0.07 if rng.random() < 0.35 else 0.0
    stages = {st for st in ("authn", "sh", "fin") if rng.random() < (0.45 if has_default and st == "authn" else 0.6)}
    if not stages and rng.random() < 0.85:
        stages = {rng.choice(["authn", "sh", "fin"])}
    ex = gen_execute(rng, stages, p_defect)
    if not ex:
        ex = spell_nothing(rng, 0.4)
    eh = gen_on_error(rng, p_defect) if rng.random() < 0.45 else spell_nothing(rng, 0.5)
    return rule(ex, eh, rng.choice([None, None, True, False]), fwd)


def gen_defaults(rng, n):
    """a pool of default rules (loading a configuration is the expensive part on the Go side, so cases share them)"""
    return [gen_default(rng) for _ in range(n)]


def gen_case(rng, pool=None):
    mode = "proxy" if rng.random() < 0.35 else "decision"
    path = rng.choice(["yaml", "yaml", "json", "k8s"])
    d = rng.choice(pool) if pool else gen_default(rng)
    n = 1 if rng.random() < 0.55 else rng.choice([2, 2, 3, 4, 5])
    return case(mode, d, [gen_rule(rng, d is not None, mode) for _ in range(n)], path)


# ---------------------------------------------------------------------------------------------------------------
# small-scope exhaustive grids

def seq_steps(kinds):
    """a sequence of step kinds -> steps; the i-th step of a kind uses the i-th mechanism of that kind"""
    cnt = {}
    steps = []
    for k in kinds:
        i = cnt.get(k, 0)
        cnt[k] = i + 1
        ids = [d["id"] for d in BY_KIND[k]]
        steps.append(step({KEY_OF[k]: ids[i % len(ids)]}))
    return steps


def grid_defaults():
    """absent; authenticator only ... complete (every subset of the other three stages) x both backtracking settings;
    one default rule without authenticators"""
    res = [None]
    for sub in itertools.product([False, True], repeat=3):
        for bt in (False, True):
            ex = [step({"authenticator": "g3"})]
            if sub[0]:
                ex.append(step({"authorizer": "z3"}))
            if sub[1]:
                ex.append(step({"finalizer": "f3"}))
            res.append(default_rule(ex, [step({"error_handler": "e3"}, on_error=True)] if sub[2] else ABSENT, bt))
    res.append(default_rule([step({"authorizer": "z3"})], ABSENT, None))
    return res


def chunks(items, n):
    return [items[i:i + n] for i in range(0, len(items), n)]


def grid_orderings(maxlen, per_case=12):
    """every default rule x every sequence of step kinds up to maxlen x with/without own error handler; the rules
    of one default rule are loaded in histories of `per_case` rules by one factory"""
    cases = []
    for k, d in enumerate(grid_defaults()):
        rules = []
        for n in range(0, maxlen + 1):
            for kinds in itertools.product(["authn", "authz", "ctx", "fin"], repeat=n):
                for own_eh in (False, True):
                    rules.append(rule(seq_steps(kinds),
                                      [step({"error_handler": "e1"}, on_error=True)] if own_eh else ABSENT))
        for ch in chunks(rules, per_case):
            cases.append(case("decision", d, ch, PATHS[k % 2]))
    return cases


def grid_backtracking():
    """default rule absent / backtracking off / on / not given x own setting absent / off / on x mode x forward_to
    x a few pipeline shapes x load path"""
    cases = []
    defaults = [None] + [default_rule([step({"authenticator": "g3"})], ABSENT, bt) for bt in (None, False, True)]
    shapes = [[], ["authn"], ["authz"], ["authn", "ctx", "fin"]]
    for d, mode, path in itertools.product(defaults, ("decision", "proxy"), PATHS):
        rules = [rule(seq_steps(kinds), ABSENT, bt, fwd)
                 for bt, fwd, kinds in itertools.product((None, False, True), (False, True), shapes)]
        cases.append(case(mode, d, rules, path))
    return cases


def grid_steps():
    """every mechanism kind x every condition class x every override tag (plus an unknown id and the shared ids),
    alone and behind an authenticator, with and without a complete default rule; the same for on_error steps"""
    cases = []
    complete = default_rule([step({"authenticator": "g3"}), step({"authorizer": "z3"}), step({"finalizer": "f3"})],
                            [step({"error_handler": "e3"}, on_error=True)], True)
    conds = ["absent", "expr", "empty", "invalid", "nonstring"]
    for d in (None, complete):
        for kind in ("authn", "authz", "ctx", "fin", "eh"):
            rules = []
            ids = [BY_KIND[kind][0]["id"], "nope"] + (["anon"] if kind == "authn" else []) + \
                  (["edef", "w1"] if kind == "eh" else []) + [i for i in SHARED_IDS]
            for mid, cond, tag in itertools.product(ids, conds, [None, 0, 1, 2, 8, 9]):
                t = type_of(kind, mid)
                if tag is not None and t is not None and tag not in PAYLOADS[t]:
                    continue
                if t is None and tag not in (None, 0, 8):
                    continue
                if kind == "eh":
                    rules.append(rule([step({"authenticator": "g1"})], [step({"error_handler": mid}, cond, tag, True)]))
                else:
                    s = step({KEY_OF[kind]: mid}, cond, tag)
                    rules.append(rule([s]))
                    if kind != "authn":
                        rules.append(rule([step({"authenticator": "g1"}), s]))
            for ch in chunks(rules, 10):
                cases.append(case("decision", d, ch))
    # steps with two reference keys: every ordered pair
    for a, b in itertools.permutations(["authenticator", "authorizer", "contextualizer", "finalizer",
                                        "error_handler"], 2):
        keys = {a: BY_KIND[KIND_OF[a]][0]["id"], b: BY_KIND[KIND_OF[b]][0]["id"]}
        for d in (None, complete):
            cases.append(case("decision", d, [
                rule([step({"authenticator": "g2"}), step(keys, "expr", 1)]),
                rule([step({"authenticator": "g2"})], [step(keys, "expr", None, True)])]))
    return cases


def grid_spellings():
    """how `execute` and `on_error` are spelled (absent / null / [] / steps) in the rule and in the default rule
    x load path x default rule (absent / authenticator only / complete)"""
    cases = []
    A = [step({"authenticator": "g3"})]
    full = A + [step({"authorizer": "z3"}), step({"finalizer": "f3"})]
    E = [step({"error_handler": "e3"}, on_error=True)]
    spell_ex = [ABSENT, None, [], [step({"authorizer": "z1"})], [step({"authenticator": "g1"})]]
    spell_eh = [ABSENT, None, [], [step({"error_handler": "e1"}, on_error=True)]]
    defaults = [None, default_rule(A), default_rule(full, E, True), default_rule(full, [], False),
                default_rule(A, None), default_rule([], E), default_rule(None, E), default_rule(ABSENT, E)]
    for d, path, mode in itertools.product(defaults, PATHS, ("decision", "proxy")):
        rules = [rule(ex, eh, None, mode == "proxy") for ex, eh in itertools.product(spell_ex, spell_eh)]
        cases.append(case(mode, d, rules, path))
        # the same rules in reverse order: the history must not matter
        cases.append(case(mode, d, list(reversed(rules)), path))
    return cases


def grid_shared_ids():
    """ids shared between kinds and ids of one kind referenced for another: every ordered pair of (kind, id)
    references, the first one used (a) by the default rule, (b) by an earlier rule of the history, (c) by an
    earlier step of the same rule — the second one must get the mechanism of its own kind or be refused"""
    cases = []
    refs = [(k, i) for k in ("authz", "ctx", "fin") for i in ("keto", BY_KIND[k][0]["id"])]
    refs += [("authn", "duo"), ("authn", "g1"), ("eh", "duo"), ("eh", "e1")]
    A = step({"authenticator": "anon"})

    def as_rule(ref, with_authn=True):
        kind, mid = ref
        if kind == "eh":
            return rule([A], [step({"error_handler": mid}, on_error=True)])
        if kind == "authn":
            return rule([step({"authenticator": mid})])
        return rule(([A] if with_authn else []) + [step({KEY_OF[kind]: mid})])

    def cross(kind, mid):
        """the same id referenced for every kind"""
        return [as_rule((k, mid)) for k in ("authn", "authz", "ctx", "fin", "eh")]

    for first in refs:
        followers = cross(first[0], first[1])
        # (b) earlier rule of the history, and the reverse order
        for path in PATHS:
            cases.append(case("decision", None, [as_rule(first)] + followers, path))
            cases.append(case("decision", None, followers + [as_rule(first)], path))
        # (a) the default rule used it
        kind, mid = first
        if kind == "eh":
            d = default_rule([A], [step({"error_handler": mid}, on_error=True)])
        elif kind == "authn":
            d = default_rule([step({"authenticator": mid})])
        else:
            d = default_rule([A, step({KEY_OF[kind]: mid})])
        cases.append(case("decision", d, followers))
        # (c) earlier step of the same rule
        same = []
        for k2 in ("authz", "ctx", "fin"):
            if kind in ("authz", "ctx", "fin"):
                pair = sorted([(kind, mid), (k2, mid)], key=lambda r: ["authz", "ctx", "fin"].index(r[0]))
                same.append(rule([A] + [step({KEY_OF[k]: i}) for k, i in pair]))
                same.append(rule([A] + [step({KEY_OF[k]: i}) for k, i in reversed(pair)]))
        if same:
            cases.append(case("decision", None, same))
    return cases


# ---------------------------------------------------------------------------------------------------------------
# look-alike overrides: values that differ in type or structure but print the same under `fmt.Sprint` / `%v` / JSON
# without quotes.  The members of a family are different VALUES: each rule must be judged by its own (the decoders
# are strict, so most of the non-string members are refused), whatever the factory created before.  A family may also
# hold different spellings of the same setting ("1m" / "60s" / 60000000000) and plain invalid values.

def _fin(mid, text):
    return mid + "/" + text


def families(kind, mid):
    """[[value, ...], ...] for the mechanism `mid` of `kind` (the values mention the id where the trace shows it)"""
    t = type_of(kind, mid)
    if t == "authn/anonymous":
        return [[{"subject": "1"}, {"subject": 1}], [{"subject": "true"}, {"subject": True}],
                [{"subject": "[a b]"}, {"subject": ["a", "b"]}, {"subject": ["a b"]}],
                [{"subject": "map[a:b]"}, {"subject": {"a": "b"}}],
                [{"subject": "<nil>"}, {"subject": None}, {"subject": ""}],
                [{"subject": "a b:c"}, {"subject": "a", "b": "c"}],
                [{"subject": "-7"}, {"subject": -7}]]
    if t == "authn/generic":
        return [[{"allow_fallback_on_error": False}, {"allow_fallback_on_error": "false"}, {"allow_fallback_on_error": 0}],
                [{"allow_fallback_on_error": True}, {"allow_fallback_on_error": "true"}, {"allow_fallback_on_error": None}],
                [{"cache_ttl": "1m"}, {"cache_ttl": "1m0s"}, {"cache_ttl": "60s"}, {"cache_ttl": 60000000000}],
                [{"cache_ttl": "5"}, {"cache_ttl": 5}, {"cache_ttl": "5s"}],
                [{"cache_ttl": "true"}, {"cache_ttl": True}],
                [{"allow_fallback_on_error": False, "cache_ttl": "1h"}, {"allow_fallback_on_error": "false cache_ttl:1h"}]]
    if t in ("authz/remote", "ctx/generic"):
        fams = [[{"values": {"v": "a w:b"}}, {"values": {"v": "a", "w": "b"}}],
                [{"values": {"v": "1"}}, {"values": {"v": 1}}],
                [{"values": {"v": "true"}}, {"values": {"v": True}}],
                [{"values": "map[v:a]"}, {"values": {"v": "a"}}, {"values": ["v:a"]}],
                [{"values": {"v": "[a b]"}}, {"values": {"v": ["a", "b"]}}],
                [{"values": {"v": "map[x:y]"}}, {"values": {"v": {"x": "y"}}}],
                [{"values": {}}, {"values": None}, {"values": "map[]"}],
                [{"cache_ttl": "1m0s"}, {"cache_ttl": 60000000000}, {"cache_ttl": "1m"}],
                [{"cache_ttl": "soon"}, {"cache_ttl": ["soon"]}]]
        if t == "ctx/generic":
            fams += [[{"continue_pipeline_on_error": False}, {"continue_pipeline_on_error": "false"}],
                     [{"continue_pipeline_on_error": True, "values": {"v": "c"}},
                      {"continue_pipeline_on_error": "true values:map[v:c]"}]]
        return fams
    if t == "fin/header":
        return [[{"headers": {"X-Fin": _fin(mid, "L X-L:b")}}, {"headers": {"X-Fin": _fin(mid, "L"), "X-L": "b"}}],
                [{"headers": {"X-Fin": "1"}}, {"headers": {"X-Fin": 1}}],
                [{"headers": {"X-Fin": "true"}}, {"headers": {"X-Fin": True}}],
                [{"headers": "map[X-Fin:a]"}, {"headers": {"X-Fin": "a"}}, {"headers": ["X-Fin:a"]}],
                [{"headers": {"X-Fin": "[a b]"}}, {"headers": {"X-Fin": ["a", "b"]}}],
                [{"headers": {"X-Fin": "map[a:b]"}}, {"headers": {"X-Fin": {"a": "b"}}}],
                [{"headers": {}}, {"headers": None}, {"headers": "map[]"}],
                [{"headers": {"X-Fin": _fin(mid, "{{ .Subject.ID }}"), "X-L": "{{ .Subject.ID }} X-M:m"}},
                 {"headers": {"X-Fin": _fin(mid, "{{ .Subject.ID }}"), "X-L": "{{ .Subject.ID }}", "X-M": "m"}}]]
    if t == "eh/www_authenticate":
        return [[{"realm": "1"}, {"realm": 1}], [{"realm": "true"}, {"realm": True}],
                [{"realm": "[a b]"}, {"realm": ["a", "b"]}], [{"realm": "map[a:b]"}, {"realm": {"a": "b"}}],
                [{"realm": "<nil>"}, {"realm": None}, {"realm": ""}],
                [{"realm": "a b:c"}, {"realm": "a", "b": "c"}]]
    if t in ("eh/redirect", "eh/default"):
        return [[{"to": "1"}, {"to": 1}], [{"to": "http://elsewhere.test/"}, {"to": ["http://elsewhere.test/"]}]]
    return []


def nil_template_families(kind, mid):
    """C14-1: entries of a template map that are "" or null — accepted at load and a nil dereference at execution on
    the tree before fix C14-1, refused at load since (the model).  VERIF_C14_NIL_TEMPLATES=0 leaves the family out."""
    t = type_of(kind, mid)
    if t in ("authz/remote", "ctx/generic"):
        return [[{"values": {"v": ""}}, {"values": {"v": None}}, {"values": {"v": "<nil>"}}]]
    if t == "fin/header":
        return [[{"headers": {"X-Fin": ""}}, {"headers": {"X-Fin": None}}, {"headers": {"X-Fin": _fin(mid, "a"), "X-L": ""}}]]
    return []


import os as _os
if _os.environ.get("VERIF_C14_NIL_TEMPLATES", "1") == "1":
    _plain_families = families

    def families(kind, mid):     # noqa: F811
        return _plain_families(kind, mid) + nil_template_families(kind, mid)


LOOKALIKE_IDS = {"authn": ["anon", "g1", "g2", "duo"], "authz": ["z1", "z2", "keto"], "ctx": ["c1", "c2", "keto"],
                 "fin": ["f1", "f2", "keto"], "eh": ["w1", "w2", "e1", "edef"]}


def lookalike_rule(ov, kind, mid, value, rng=None, forward_to=False):
    """a rule that references `mid` with the rule-level config `value` and makes its effect visible in the trace"""
    r = rng.random() if rng else 1.0
    s = ov.step({KEY_OF[kind]: mid}, value, "expr" if (rng and kind not in ("authn",) and rng.random() < 0.15) else "absent",
                on_error=kind == "eh")
    anon, fin = step({"authenticator": "anon"}), step({"finalizer": "f3"})
    if kind == "eh":
        ex = [step({"authenticator": "g3"})] + ([fin] if r < 0.3 else [])
        eh = [s] + ([step({"error_handler": "e2"}, on_error=True)] if r < 0.4 else [])
        return rule(ex, eh, None, forward_to)
    if kind == "authn":
        if type_of(kind, mid) == "authn/anonymous":
            ex = [s, step({"authorizer": "z3"}), fin] if r >= 0.3 else [s, fin]
        else:
            ex = [s, step({"authenticator": "g3"})] + ([step({"contextualizer": "c3"})] if r < 0.5 else [])
    elif kind == "fin":
        ex = [anon] + ([step({"authorizer": "z3"})] if r < 0.3 else []) + [s] + ([fin] if r < 0.3 else [])
    else:
        ex = [anon, s] + ([fin] if r >= 0.3 else [])
    return rule(ex, ABSENT if (not rng or r < 0.7) else [step({"error_handler": "e2"}, on_error=True)], None, forward_to)


LOOKALIKE_DEFAULT = default_rule([step({"authenticator": "g3"}), step({"authorizer": "z3"}), step({"finalizer": "f3"})],
                                 [step({"error_handler": "e3"}, on_error=True)], True)


def gen_lookalike_case(rng):
    """one factory, 2..6 rules referencing the same one or two catalogue mechanisms, each with a member of the same
    look-alike family (members repeat, any order)"""
    ov = Overrides()
    mode = "proxy" if rng.random() < 0.2 else "decision"
    targets = []
    for _ in range(1 if rng.random() < 0.7 else 2):
        kind = rng.choice(["authn", "authn", "authz", "ctx", "fin", "fin", "eh"])
        mid = rng.choice(LOOKALIKE_IDS[kind])
        fams = families(kind, mid)
        fam = list(rng.choice(fams))
        if rng.random() < 0.25:
            fam += rng.choice(fams)          # members of another family of the same mechanism in between
        targets.append((kind, mid, fam))
    rules = []
    for _ in range(rng.choice([2, 2, 3, 3, 4, 5, 6])):
        kind, mid, fam = rng.choice(targets)
        rules.append(lookalike_rule(ov, kind, mid, rng.choice(fam), rng, mode == "proxy" or rng.random() < 0.3))
    d = None if rng.random() < 0.7 else LOOKALIKE_DEFAULT
    return case(mode, d, rules, rng.choice(PATHS), ov)


def grid_lookalikes():
    """every mechanism type x every family: every ordered pair of different members as a history of two rules, and
    the whole family forwards and backwards (then once more the first member) as one history"""
    cases = []
    n = 0
    for kind in ("authn", "authz", "ctx", "fin", "eh"):
        seen_types = {}
        for mid in LOOKALIKE_IDS[kind]:
            seen_types.setdefault(type_of(kind, mid), []).append(mid)
        for t, mids in seen_types.items():
            for fam in families(kind, mids[0]):
                for a, b in itertools.permutations(range(len(fam)), 2):
                    mid = mids[n % len(mids)]
                    n += 1
                    fm = families(kind, mid)[families(kind, mids[0]).index(fam)]
                    ov = Overrides()
                    cases.append(case("decision", None, [lookalike_rule(ov, kind, mid, fm[a]),
                                                          lookalike_rule(ov, kind, mid, fm[b])], PATHS[n % 3], ov))
                for order in (list(range(len(fam))), list(reversed(range(len(fam))))):
                    mid = mids[n % len(mids)]
                    n += 1
                    fm = families(kind, mid)[families(kind, mids[0]).index(fam)]
                    ov = Overrides()
                    rules = [lookalike_rule(ov, kind, mid, fm[i]) for i in order + order[:1]]
                    cases.append(case("decision", LOOKALIKE_DEFAULT if n % 4 == 0 else None, rules, PATHS[n % 3], ov))
    return cases


# ---------------------------------------------------------------------------------------------------------------
# unknown references, conditions and expressions

COMPLETE_DEFAULT = default_rule([step({"authenticator": "g3"}), step({"authorizer": "z3"}), step({"finalizer": "f3"})],
                                [step({"error_handler": "e3"}, on_error=True)], True)


def ref_rule(kind, mid, alone, cond="absent", cfg=None):
    """a rule whose only possible defect is the step referencing `mid` as a mechanism of `kind` (`alone`: the step is
    all the rule has, the other stages come from the default rule)"""
    if kind == "eh":
        return rule([] if alone else [step({"authenticator": "g1"})], [step({"error_handler": mid}, cond, cfg, True)])
    s = step({KEY_OF[kind]: mid}, cond, cfg)
    return rule([s] if alone or kind == "authn" else [step({"authenticator": "g1"}), s])


def unknown_ids(kind):
    """ids the catalogue does not define for `kind`: the names of all mechanism types heimdall knows (of every kind),
    catalogue ids of the other kinds, re-spellings of an own id"""
    own = [d["id"] for d in BY_KIND[kind]]
    other = []
    for k in ("authn", "authz", "ctx", "fin", "eh"):
        if k != kind:
            other += [d["id"] for d in BY_KIND[k] if d["id"] not in own][:2]
    return [n for n in ALL_TYPE_NAMES if n not in own] + other + respellings(own[0]) + respellings(own[-1])[:2]


def grid_unknown_refs():
    """every kind x every id the catalogue does not define for it (type names of every kind, ids of other kinds,
    re-spelled ids), with a complete default rule (the step alone: it would replace the inherited stage) and
    without; all load paths"""
    cases = []
    n = 0
    for d in (None, COMPLETE_DEFAULT):
        for kind in ("authn", "authz", "ctx", "fin", "eh"):
            rules = [ref_rule(kind, mid, d is not None and kind != "eh") for mid in unknown_ids(kind)]
            # one reference the catalogue does define, so that a check which refuses everything is noticed
            rules.append(ref_rule(kind, BY_KIND[kind][0]["id"], d is not None and kind != "eh"))
            for ch in chunks(rules, 10):
                n += 1
                cases.append(case("decision", d, ch, PATHS[n % 3]))
    return cases


def conds_for(kind):
    """the `if` conditions a step of `kind` can carry with known run-time value, and all that must be refused"""
    good = COND_ANY + ([] if kind == "eh" else COND_SUBJECT)
    return good + CEL_ALL_BAD


def grid_conditions():
    """every kind of step (execute steps of the four kinds, error handlers) x every expression of the table as its
    `if`, with and without default rule; conditions inside the default rule"""
    cases = []
    n = 0
    for d in (None, COMPLETE_DEFAULT):
        for kind in ("authn", "authz", "ctx", "fin", "eh"):
            mids = [x["id"] for x in BY_KIND[kind]][:3]
            rules = [ref_rule(kind, mids[k % len(mids)], d is not None and kind != "eh", e)
                     for k, e in enumerate(conds_for(kind))]
            for ch in chunks(rules, 10):
                n += 1
                cases.append(case("decision", d, ch, PATHS[n % 3]))
    # the default rule itself: one representative per class on an authorizer, a finalizer and an error handler
    probe = [rule([step({"authenticator": "g1"})]), rule([step({"contextualizer": "c1"})])]
    for e in [COND_ANY[5], COND_SUBJECT[2], CEL_NONBOOL[0], CEL_DYN[0], CEL_DYN[7], CEL_SYNTAX[1], CEL_UNKNOWN[0]]:
        for where in ("authz", "fin", "eh"):
            if where == "eh" and e in COND_SUBJECT:
                continue
            ex = [step({"authenticator": "g3"}), step({"authorizer": "z3"}, e if where == "authz" else "absent"),
                  step({"finalizer": "f3"}, e if where == "fin" else "absent")]
            eh = [step({"error_handler": "e3"}, e if where == "eh" else "absent", None, True)]
            cases.append(case("decision", default_rule(ex, eh, None), probe))
    # `uniqueItems` of the default rule's lists: steps that differ in the text of their `if` only are different steps
    # (also on authenticators, whose `if` is never read), steps with the same text are duplicates
    for a, b in ((COND_ANY[0], COND_ANY[1]), (COND_ANY[0], COND_ANY[0]), (CEL_DYN[0], CEL_SYNTAX[0])):
        cases.append(case("decision", default_rule([step({"authenticator": "g3"}), step({"finalizer": "f3"}, a),
                                                    step({"finalizer": "f3"}, b)], ABSENT, None), probe))
        cases.append(case("decision", default_rule([step({"authenticator": "g3"}, a), step({"authenticator": "g3"}, b)],
                                                   ABSENT, None), probe))
    return cases


def expression_values(typ):
    """rule-level `config` values for the `expressions` of a cel / remote authorizer: one entry per expression of the
    table (valid ones for that type's run-time context, and everything that must be refused), and malformed shapes"""
    good = EXPR_CEL + EXPR_DENY if typ == "cel" else EXPR_REMOTE
    t, d = cel_render(good[0]), cel_render(CEL_DYN[0])
    vals = [{"expressions": [{"expression": cel_render(e)}]} for e in good + CEL_ALL_BAD]
    vals += [
        {"expressions": [{"expression": t, "message": "m"}]}, {"expressions": [{"expression": t, "message": None}]},
        {"expressions": [{"expression": t, "message": 1}]}, {"expressions": [{"expression": t, "foo": 1}]},
        {"expressions": [{"expression": d, "message": "m"}]},
        {"expressions": [{"expression": t}, {"expression": cel_render(good[1])}]},
        {"expressions": [{"expression": t}, {"expression": d}]}, {"expressions": [{"expression": d}, {"expression": t}]},
        {"expressions": [{"expression": t}, {"expression": cel_render(CEL_NONBOOL[0])}]},
        {"expressions": [{"expression": ""}]}, {"expressions": [{"expression": None}]},
        {"expressions": [{"expression": 1}]}, {"expressions": [{"expression": True}]},
        {"expressions": [{"message": "m"}]}, {"expressions": [{}]}, {"expressions": []}, {"expressions": None},
        {"expressions": t}, {"expressions": [t]}, {"expressions": {"expression": t}}, {"expressions": [None]},
        {"expressions": [{"expression": t}], "cache_ttl": "1s"}, {"expressions": [{"expression": d}], "cache_ttl": "1s"},
        {"expressions": [{"expression": t}], "values": {"v": "a"}},
    ]
    return vals


EXPRESSION_IDS = {"cel": ["x1", "x2"], "remote": ["z1", "z2", "keto"]}


def expression_rule(ov, mid, value, rng=None, forward_to=False):
    r = rng.random() if rng else 1.0
    s = ov.step({"authorizer": mid}, value, rng.choice(COND_ANY + COND_SUBJECT) if rng and r < 0.15 else "absent")
    ex = [step({"authenticator": "anon"}), s] + ([step({"finalizer": "f3"})] if r >= 0.3 else [])
    return rule(ex, ABSENT, None, forward_to)


def grid_expressions():
    """cel and remote authorizer x every value of `expression_values`, as histories of 10 rules of one factory"""
    cases = []
    n = 0
    for typ in ("cel", "remote"):
        vals = expression_values(typ)
        for ch in chunks(vals, 10):
            n += 1
            ov = Overrides()
            mids = EXPRESSION_IDS[typ]
            rules = [expression_rule(ov, mids[(n + k) % len(mids)], v) for k, v in enumerate(ch)]
            cases.append(case("decision", COMPLETE_DEFAULT if n % 3 == 0 else None, rules, PATHS[n % 3], ov))
    return cases


def gen_expression_case(rng):
    """one factory, 2..5 rules overriding the `expressions` of cel / remote authorizers (any order, repetitions)"""
    ov = Overrides()
    mode = "proxy" if rng.random() < 0.2 else "decision"
    rules = []
    for _ in range(rng.choice([2, 2, 3, 4, 5])):
        typ = rng.choice(["cel", "remote"])
        vals = expression_values(typ)
        rules.append(expression_rule(ov, rng.choice(EXPRESSION_IDS[typ]), rng.choice(vals), rng,
                                     mode == "proxy" or rng.random() < 0.3))
    return case(mode, None if rng.random() < 0.7 else COMPLETE_DEFAULT, rules, rng.choice(PATHS), ov)


# ---------------------------------------------------------------------------------------------------------------
# one rule-level config, several catalogue entries: the SAME override value put over different mechanisms of one type
# (by the default rule and a rule, by two rules of a history, by two steps of one rule).  Every step must get a variant
# of the catalogue entry IT names: the dual of the look-alike families (one entry, values that print alike).  Entries
# of one type that call out are told apart by the address they call; the cel authorizers call nobody and are told apart
# by the source of the error they raise for the probe that asks to be refused.

TWINS = {"authn/generic": ("authn", ["g1", "g2", "duo"]), "authz/cel": ("authz", ["x1", "x2"]),
         "authz/remote": ("authz", ["z1", "z2", "keto"]), "ctx/generic": ("ctx", ["c1", "c2", "keto"]),
         "fin/header": ("fin", ["f1", "f2", "keto"]), "eh/www_authenticate": ("eh", ["w1", "w2"])}


def twin_values(typ):
    if typ == "authz/cel":
        one = [{"expressions": [{"expression": cel_render(e)}]} for e in EXPR_DENY + [EXPR_CEL[0], EXPR_CEL[4]]]
        return one + [{"expressions": [{"expression": cel_render(EXPR_CEL[5]), "message": "m"},
                                       {"expression": cel_render(EXPR_DENY[1])}]}]
    if typ == "authn/generic":
        return [{"allow_fallback_on_error": False}, {"cache_ttl": "5s"}]
    if typ in ("authz/remote", "ctx/generic"):
        return [{"values": {"v": "tw"}}, {"cache_ttl": "1m"}]
    if typ == "fin/header":
        return [{"headers": {"X-Fin": "tw/{{ .Subject.ID }}", "X-Tw": "t"}}]
    return [{"realm": "tw"}]


def twin_steps(ov, kind, refs, conds=()):
    """steps referencing the mechanisms `refs` = [(id, value or None)], the i-th one guarded by conds[i] if given"""
    return [(ov.step({KEY_OF[kind]: mid}, v, conds[i] if i < len(conds) else "absent", on_error=kind == "eh")
             if v is not None else step({KEY_OF[kind]: mid}, conds[i] if i < len(conds) else "absent",
                                        on_error=kind == "eh"))
            for i, (mid, v) in enumerate(refs)]


def twin_definition(kind, steps, on_error=ABSENT, with_authn=True):
    """(execute, on_error) of a definition that uses `steps` (all of one kind) and shows their effect"""
    anon, fin = step({"authenticator": "anon"}), step({"finalizer": "f3"})
    if kind == "eh":
        return [step({"authenticator": "g3"})], steps
    if kind == "authn":
        return steps + [step({"authenticator": "g3"}), step({"contextualizer": "c3"})], on_error
    if kind == "fin":
        return ([anon] if with_authn else []) + steps, on_error
    return ([anon] if with_authn else []) + steps + [fin], on_error


def twin_on_errors():
    """error pipelines under which the source of an error stays visible (none, `default` handler) or not (redirect)"""
    return [ABSENT, [step({"error_handler": "edef"}, on_error=True)], [step({"error_handler": "e2"}, on_error=True)]]


def grid_twins():
    """every type with several catalogue entries x every ordered pair of entries x every value (cel authorizers; one
    value for the types whose entries are told apart by the address they call): the first entry used (a) by the
    default rule, (b) by an earlier rule of the history, (c) by an earlier (conditional) step of the same rule"""
    cases = []
    n = 0
    for typ, (kind, mids) in TWINS.items():
        for a, b in itertools.permutations(mids, 2):
            for v in (twin_values(typ) if typ == "authz/cel" else twin_values(typ)[:1]):
                n += 1
                oe = twin_on_errors()[n % 2]
                path = PATHS[n % 3]
                # (b) two rules of one history (both orders come with the ordered pairs), then the first one again
                ov = Overrides()
                rules = [rule(*twin_definition(kind, twin_steps(ov, kind, [(m, v)]), oe)) for m in (a, b, a)]
                cases.append(case("decision", None, rules, path, ov))
                # (a) the default rule uses the first entry, a rule the second (alone: the other stages are inherited)
                ov = Overrides()
                dex, deh = twin_definition(kind, twin_steps(ov, kind, [(a, v)]), oe)
                if kind == "eh":
                    rules = [rule([step({"authenticator": "g1"})], twin_steps(ov, kind, [(b, v)])),
                             rule([step({"authenticator": "g1"})], twin_steps(ov, kind, [(b, None)]))]
                else:
                    rules = [rule(twin_steps(ov, kind, [(b, v)])), rule(twin_steps(ov, kind, [(b, None)])),
                             rule(twin_steps(ov, kind, [(a, None)]))]
                cases.append(case("decision", default_rule(dex, deh, None), rules, path, ov))
                # (c) two steps of one rule, the first one conditional (the probes with X-Skip reach the second)
                ov = Overrides()
                rules = [rule(*twin_definition(kind, twin_steps(ov, kind, [(a, v), (b, v)], [SKIP]), oe)),
                         rule(*twin_definition(kind, twin_steps(ov, kind, [(a, None), (b, v)], [SKIP]), oe))]
                cases.append(case("decision", None, rules, path, ov))
    return cases


def gen_twin_case(rng):
    """one factory, 2..5 rules putting one of two values over the entries of one type (any order, repetitions, now
    and then without override), the default rule doing the same in a third of the cases"""
    ov = Overrides()
    typ = rng.choice(sorted(TWINS) + ["authz/cel", "authz/cel"])
    kind, mids = TWINS[typ]
    vals = rng.sample(twin_values(typ), min(2, len(twin_values(typ))))
    mode = "proxy" if rng.random() < 0.15 else "decision"

    def refs():
        k = 1 if rng.random() < 0.7 else 2
        return [(rng.choice(mids), None if rng.random() < 0.15 else rng.choice(vals)) for _ in range(k)]

    def conds():
        return [rng.choice(COND_ANY)] if rng.random() < 0.3 else []
    d = None
    if rng.random() < 0.35:
        dex, deh = twin_definition(kind, dedup(twin_steps(ov, kind, refs(), conds())), rng.choice(twin_on_errors()))
        d = default_rule(dex, deh, rng.choice([None, True]))
    rules = []
    for _ in range(rng.choice([2, 2, 3, 4, 5])):
        alone = d is not None and kind != "eh" and rng.random() < 0.5
        ex, eh = twin_definition(kind, twin_steps(ov, kind, refs(), conds()), rng.choice(twin_on_errors()), not alone)
        if alone and kind in ("authz", "ctx"):
            ex = ex[:-1]                      # the finalization stage is inherited as well
        rules.append(rule(ex, eh, None, mode == "proxy" or rng.random() < 0.3))
    return case(mode, d, rules, rng.choice(PATHS), ov)


def small_scope(maxlen=4):
    return (grid_orderings(maxlen) + grid_backtracking() + grid_steps() + grid_spellings() + grid_shared_ids()
            + grid_lookalikes() + grid_unknown_refs() + grid_conditions() + grid_expressions() + grid_twins())
