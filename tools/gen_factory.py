"""Case generators of the `factory` family (property C14): a mechanism catalogue (with ids shared between kinds), an
operation mode, a load path (YAML / JSON rule set document, kubernetes resource), a default rule (absent / partial /
complete / malformed) and a *history* of rule definitions loaded one after the other by one rule factory.

A list-valued key (`execute`, `on_error`) is spelled in one of four ways: key absent, `null` (Python None), empty
list, list with steps.

Every step carries the same information twice: `keys`/`if`/`config` are what heimdall reads (literal YAML
values), `keys`/`cond`/`cfg` are what the Lean model reads (a condition class and the tag of the override
payload).  `step()` is the only place that builds a step, so the two views cannot drift apart."""
import itertools

COND_EXPR = 'Request.Header("X-Skip") != "1"'
COND_LITERAL = {"expr": COND_EXPR, "empty": "", "invalid": "Request.Header(", "nonstring": 42}

# override payloads per mechanism type: tag -> literal.  Tag 0 is the empty map, tag 1 an override whose effect is
# visible in the trace, tag 2 another acceptable one, tags 8 and 9 are refused by the mechanism.
PAYLOADS = {
    "authn/generic": {0: {}, 1: {"allow_fallback_on_error": False}, 2: {"cache_ttl": "5s"},
                      8: {"no_such_field": 1}, 9: {"cache_ttl": "soon"}},
    "authn/anonymous": {0: {}, 1: {"subject": "ovr"}, 8: {"no_such_field": 1}, 9: {"subject": {"a": "b"}}},
    "authz/remote": {0: {}, 1: {"values": {"v": "ovr"}}, 2: {"cache_ttl": "0s"},
                     8: {"no_such_field": 1}, 9: {"expressions": [{"expression": "true ||"}]}},
    "ctx/generic": {0: {}, 1: {"values": {"v": "ovr"}}, 2: {"continue_pipeline_on_error": False},
                    8: {"no_such_field": 1}, 9: {"cache_ttl": "soon"}},
    "fin/header": {0: {}, 1: None, 8: {"no_such_field": 1}, 9: {"headers": {}}},   # tag 1 depends on the id
    "eh/redirect": {0: {}, 8: {"no_such_field": 1}, 9: {"to": "http://elsewhere.test/"}},
    "eh/default": {0: {}, 8: {"no_such_field": 1}, 9: {"to": "http://elsewhere.test/"}},
}
GOOD = {"authn/generic": [0, 1, 2], "authn/anonymous": [0, 1], "authz/remote": [0, 1, 2], "ctx/generic": [0, 1, 2],
        "fin/header": [0, 1], "eh/redirect": [0], "eh/default": [0]}


def decl(kind, mid, typ):
    return {"kind": kind, "id": mid, "type": typ, "accepts": GOOD[kind + "/" + typ]}


# "keto" is an authorizer, a contextualizer and a finalizer at once, "duo" an authenticator and an error handler:
# the catalogue keeps one name space per kind.  All other ids exist for one kind only.
CATALOGUE = (
    [decl("authn", i, "generic") for i in ("g1", "g2", "g3", "duo")] + [decl("authn", "anon", "anonymous")]
    + [decl("authz", i, "remote") for i in ("z1", "z2", "z3", "keto")]
    + [decl("ctx", i, "generic") for i in ("c1", "c2", "c3", "keto")]
    + [decl("fin", i, "header") for i in ("f1", "f2", "f3", "keto")]
    + [decl("eh", i, "redirect") for i in ("e1", "e2", "e3", "duo")] + [decl("eh", "edef", "default")]
)
SHARED_IDS = ["keto", "duo"]
PATHS = ["yaml", "json", "k8s"]
ABSENT = "<absent>"      # spelling marker for rule()/default_rule(): leave the key out
BY_KIND = {}
for _d in CATALOGUE:
    BY_KIND.setdefault(_d["kind"], []).append(_d)
KEY_OF = {"authn": "authenticator", "authz": "authorizer", "ctx": "contextualizer", "fin": "finalizer",
          "eh": "error_handler"}
KIND_OF = {v: k for k, v in KEY_OF.items()}
LOOKUP_ORDER = ["authenticator", "authorizer", "contextualizer", "finalizer"]


def type_of(kind, mid):
    for d in BY_KIND.get(kind, []):
        if d["id"] == mid:
            return kind + "/" + d["type"]
    return None


def payload(kind, mid, tag):
    t = type_of(kind, mid)
    if t is None:            # unknown mechanism: the payload is never looked at
        return {} if tag == 0 else {"no_such_field": 1}
    if tag not in PAYLOADS[t]:   # a tag this type has no payload for: anything it refuses
        return {"no_such_field": 1}
    p = PAYLOADS[t][tag]
    if p is None:
        p = {"headers": {"X-Fin": mid + "/{{ .Subject.ID }}/ovr"}}
    return p


def step(keys, cond="absent", cfg=None, on_error=False):
    """keys: dict key -> mechanism id (insertion order irrelevant: heimdall reads a map)"""
    s = {"keys": dict(keys), "cond": cond}
    if cond != "absent":
        s["if"] = COND_LITERAL[cond]
    if cfg is not None:
        # the payload is the one of the mechanism heimdall will pick: first key in its lookup order
        order = ["error_handler"] if on_error else LOOKUP_ORDER
        first = next((k for k in order if k in keys), None)
        kind = KIND_OF.get(first, "authn")
        s["cfg"] = cfg
        s["config"] = payload(kind, keys.get(first, ""), cfg)
    else:
        s["cfg"] = None
    return s


def case(mode, default, rules, path="yaml"):
    if isinstance(rules, dict):
        rules = [rules]
    return {"fam": "factory", "mode": mode, "path": path, "cat": CATALOGUE, "default": default, "rules": rules}


def rule(execute=ABSENT, on_error=ABSENT, bt=None, forward_to=False):
    """execute / on_error: ABSENT (no key), None (`null`), [] or a list of steps"""
    r = {"bt": bt, "forward_to": forward_to}
    if execute is not ABSENT:
        r["execute"] = execute
    if on_error is not ABSENT:
        r["on_error"] = on_error
    return r


def default_rule(execute=ABSENT, on_error=ABSENT, bt=None):
    d = {"bt": bt}
    if execute is not ABSENT:
        d["execute"] = execute
    if on_error is not ABSENT:
        d["on_error"] = on_error
    return d


def spell_nothing(rng, p_absent=0.6):
    r = rng.random()
    if r < p_absent:
        return ABSENT
    return None if r < p_absent + (1 - p_absent) / 2 else []


# ---------------------------------------------------------------------------------------------------------------
# random generation

def pick_tag(rng, kind, mid, p_bad):
    t = type_of(kind, mid)
    if t is None:
        return rng.choice([None, 0, 8])
    r = rng.random()
    if r < p_bad:
        return rng.choice([8, 9])
    if r < p_bad + 0.25:
        return rng.choice(GOOD[t])
    return None


def gen_stage_steps(rng, kind, n, p_defect, on_error=False):
    steps = []
    ids = [d["id"] for d in BY_KIND[kind]]
    for _ in range(n):
        mid = rng.choice(ids)
        if rng.random() < 0.12 and any(i in ids for i in SHARED_IDS):
            mid = rng.choice([i for i in SHARED_IDS if i in ids])
        if rng.random() < p_defect:
            # unknown: no such id at all, or an id that exists for another kind only
            mid = rng.choice(["nope", ids[0] + "x",
                              rng.choice([d["id"] for d in CATALOGUE if d["kind"] != kind and d["id"] not in ids])])
        cond = "absent"
        r = rng.random()
        if r < 0.25:
            cond = "expr"
        elif r < 0.25 + p_defect:
            cond = rng.choice(["empty", "invalid", "nonstring"])
        cfg = pick_tag(rng, kind, mid, p_defect)
        steps.append(step({KEY_OF[kind]: mid}, cond, cfg, on_error))
    return steps


def gen_execute(rng, stages, p_defect):
    """stages: subset of {'authn','sh','fin'} that the definition names itself"""
    ex = []
    if "authn" in stages:
        ex += gen_stage_steps(rng, "authn", rng.choice([1, 1, 2, 3]), p_defect)
    if "sh" in stages:
        for _ in range(rng.choice([1, 1, 2, 3])):
            ex += gen_stage_steps(rng, rng.choice(["authz", "ctx"]), 1, p_defect)
    if "fin" in stages:
        ex += gen_stage_steps(rng, "fin", rng.choice([1, 1, 2]), p_defect)
    r = rng.random()
    if ex and r < p_defect:                      # order defect
        rng.shuffle(ex)
    elif ex and r < 2 * p_defect:                # a step heimdall cannot classify
        ex.insert(rng.randrange(len(ex) + 1), step(rng.choice([{}, {"mutator": "m1"}, {"error_handler": "e1"}])))
    elif ex and r < 3 * p_defect:                # several reference keys in one step
        i = rng.randrange(len(ex))
        extra = rng.choice(["authenticator", "authorizer", "contextualizer", "finalizer", "error_handler"])
        keys = dict(ex[i]["keys"])
        keys.setdefault(extra, rng.choice([d["id"] for d in BY_KIND[KIND_OF[extra]]]))
        ex[i] = step(keys, ex[i]["cond"], ex[i]["cfg"])
    return ex


def gen_on_error(rng, p_defect):
    eh = gen_stage_steps(rng, "eh", rng.choice([1, 1, 2, 3]), p_defect, on_error=True)
    if rng.random() < p_defect:
        eh.insert(rng.randrange(len(eh) + 1), step(rng.choice([{}, {"authorizer": "z1"}]), on_error=True))
    return eh


def dedup(steps):
    """the configuration schema wants unique items in the default rule; keep the generator mostly inside it"""
    seen, res = set(), []
    for s in steps:
        k = repr(sorted(s.items(), key=lambda kv: kv[0]))
        if k not in seen:
            seen.add(k)
            res.append(s)
    return res


def gen_default(rng):
    r = rng.random()
    if r < 0.22:
        return None
    p_defect = 0.04 if rng.random() < 0.25 else 0.0
    stages = {"authn"} if rng.random() < 0.96 else set()
    for st in ("sh", "fin"):
        if rng.random() < 0.55:
            stages.add(st)
    ex = gen_execute(rng, stages, p_defect)
    eh = gen_on_error(rng, p_defect) if rng.random() < 0.55 else spell_nothing(rng, 0.7)
    if eh is None and rng.random() < 0.8:        # `null` is refused by the schema: keep it rare
        eh = []
    if rng.random() < 0.97:
        ex = dedup(ex)
        eh = dedup(eh) if isinstance(eh, list) else eh
    if not ex and rng.random() < 0.5:
        ex = rng.choice([ABSENT, None])
    return default_rule(ex, eh, rng.choice([None, False, True, True]))


def gen_rule(rng, has_default, mode):
    fwd = rng.random() < (0.9 if mode == "proxy" else 0.4)
    p_defect = 0.07 if rng.random() < 0.35 else 0.0
    stages = {st for st in ("authn", "sh", "fin") if rng.random() < (0.45 if has_default and st == "authn" else 0.6)}
    if not stages and rng.random() < 0.85:
        stages = {rng.choice(["authn", "sh", "fin"])}
    ex = gen_execute(rng, stages, p_defect)
    if not ex:
        ex = spell_nothing(rng, 0.4)
    eh = gen_on_error(rng, p_defect) if rng.random() < 0.45 else spell_nothing(rng, 0.5)
    return rule(ex, eh, rng.choice([None, None, True, False]), fwd)


def gen_defaults(rng, n):
    """a pool of default rules (loading a configuration is the expensive part on the Go side, so cases share them)"""
    return [gen_default(rng) for _ in range(n)]


def gen_case(rng, pool=None):
    mode = "proxy" if rng.random() < 0.35 else "decision"
    path = rng.choice(["yaml", "yaml", "json", "k8s"])
    d = rng.choice(pool) if pool else gen_default(rng)
    n = 1 if rng.random() < 0.55 else rng.choice([2, 2, 3, 4, 5])
    return case(mode, d, [gen_rule(rng, d is not None, mode) for _ in range(n)], path)


# ---------------------------------------------------------------------------------------------------------------
# small-scope exhaustive grids

def seq_steps(kinds):
    """a sequence of step kinds -> steps; the i-th step of a kind uses the i-th mechanism of that kind"""
    cnt = {}
    steps = []
    for k in kinds:
        i = cnt.get(k, 0)
        cnt[k] = i + 1
        ids = [d["id"] for d in BY_KIND[k]]
        steps.append(step({KEY_OF[k]: ids[i % len(ids)]}))
    return steps


def grid_defaults():
    """absent; authenticator only ... complete (every subset of the other three stages) x both backtracking settings;
    one default rule without authenticators"""
    res = [None]
    for sub in itertools.product([False, True], repeat=3):
        for bt in (False, True):
            ex = [step({"authenticator": "g3"})]
            if sub[0]:
                ex.append(step({"authorizer": "z3"}))
            if sub[1]:
                ex.append(step({"finalizer": "f3"}))
            res.append(default_rule(ex, [step({"error_handler": "e3"}, on_error=True)] if sub[2] else ABSENT, bt))
    res.append(default_rule([step({"authorizer": "z3"})], ABSENT, None))
    return res


def chunks(items, n):
    return [items[i:i + n] for i in range(0, len(items), n)]


def grid_orderings(maxlen, per_case=12):
    """every default rule x every sequence of step kinds up to maxlen x with/without own error handler; the rules
    of one default rule are loaded in histories of `per_case` rules by one factory"""
    cases = []
    for k, d in enumerate(grid_defaults()):
        rules = []
        for n in range(0, maxlen + 1):
            for kinds in itertools.product(["authn", "authz", "ctx", "fin"], repeat=n):
                for own_eh in (False, True):
                    rules.append(rule(seq_steps(kinds),
                                      [step({"error_handler": "e1"}, on_error=True)] if own_eh else ABSENT))
        for ch in chunks(rules, per_case):
            cases.append(case("decision", d, ch, PATHS[k % 2]))
    return cases


def grid_backtracking():
    """default rule absent / backtracking off / on / not given x own setting absent / off / on x mode x forward_to
    x a few pipeline shapes x load path"""
    cases = []
    defaults = [None] + [default_rule([step({"authenticator": "g3"})], ABSENT, bt) for bt in (None, False, True)]
    shapes = [[], ["authn"], ["authz"], ["authn", "ctx", "fin"]]
    for d, mode, path in itertools.product(defaults, ("decision", "proxy"), PATHS):
        rules = [rule(seq_steps(kinds), ABSENT, bt, fwd)
                 for bt, fwd, kinds in itertools.product((None, False, True), (False, True), shapes)]
        cases.append(case(mode, d, rules, path))
    return cases


def grid_steps():
    """every mechanism kind x every condition class x every override tag (plus an unknown id and the shared ids),
    alone and behind an authenticator, with and without a complete default rule; the same for on_error steps"""
    cases = []
    complete = default_rule([step({"authenticator": "g3"}), step({"authorizer": "z3"}), step({"finalizer": "f3"})],
                            [step({"error_handler": "e3"}, on_error=True)], True)
    conds = ["absent", "expr", "empty", "invalid", "nonstring"]
    for d in (None, complete):
        for kind in ("authn", "authz", "ctx", "fin", "eh"):
            rules = []
            ids = [BY_KIND[kind][0]["id"], "nope"] + (["anon"] if kind == "authn" else []) + \
                  (["edef"] if kind == "eh" else []) + [i for i in SHARED_IDS]
            for mid, cond, tag in itertools.product(ids, conds, [None, 0, 1, 2, 8, 9]):
                t = type_of(kind, mid)
                if tag is not None and t is not None and tag not in PAYLOADS[t]:
                    continue
                if t is None and tag not in (None, 0, 8):
                    continue
                if kind == "eh":
                    rules.append(rule([step({"authenticator": "g1"})], [step({"error_handler": mid}, cond, tag, True)]))
                else:
                    s = step({KEY_OF[kind]: mid}, cond, tag)
                    rules.append(rule([s]))
                    if kind != "authn":
                        rules.append(rule([step({"authenticator": "g1"}), s]))
            for ch in chunks(rules, 10):
                cases.append(case("decision", d, ch))
    # steps with two reference keys: every ordered pair
    for a, b in itertools.permutations(["authenticator", "authorizer", "contextualizer", "finalizer",
                                        "error_handler"], 2):
        keys = {a: BY_KIND[KIND_OF[a]][0]["id"], b: BY_KIND[KIND_OF[b]][0]["id"]}
        for d in (None, complete):
            cases.append(case("decision", d, [
                rule([step({"authenticator": "g2"}), step(keys, "expr", 1)]),
                rule([step({"authenticator": "g2"})], [step(keys, "expr", None, True)])]))
    return cases


def grid_spellings():
    """how `execute` and `on_error` are spelled (absent / null / [] / steps) in the rule and in the default rule
    x load path x default rule (absent / authenticator only / complete)"""
    cases = []
    A = [step({"authenticator": "g3"})]
    full = A + [step({"authorizer": "z3"}), step({"finalizer": "f3"})]
    E = [step({"error_handler": "e3"}, on_error=True)]
    spell_ex = [ABSENT, None, [], [step({"authorizer": "z1"})], [step({"authenticator": "g1"})]]
    spell_eh = [ABSENT, None, [], [step({"error_handler": "e1"}, on_error=True)]]
    defaults = [None, default_rule(A), default_rule(full, E, True), default_rule(full, [], False),
                default_rule(A, None), default_rule([], E), default_rule(None, E), default_rule(ABSENT, E)]
    for d, path, mode in itertools.product(defaults, PATHS, ("decision", "proxy")):
        rules = [rule(ex, eh, None, mode == "proxy") for ex, eh in itertools.product(spell_ex, spell_eh)]
        cases.append(case(mode, d, rules, path))
        # the same rules in reverse order: the history must not matter
        cases.append(case(mode, d, list(reversed(rules)), path))
    return cases


def grid_shared_ids():
    """ids shared between kinds and ids of one kind referenced for another: every ordered pair of (kind, id)
    references, the first one used (a) by the default rule, (b) by an earlier rule of the history, (c) by an
    earlier step of the same rule — the second one must get the mechanism of its own kind or be refused"""
    cases = []
    refs = [(k, i) for k in ("authz", "ctx", "fin") for i in ("keto", BY_KIND[k][0]["id"])]
    refs += [("authn", "duo"), ("authn", "g1"), ("eh", "duo"), ("eh", "e1")]
    A = step({"authenticator": "anon"})

    def as_rule(ref, with_authn=True):
        kind, mid = ref
        if kind == "eh":
            return rule([A], [step({"error_handler": mid}, on_error=True)])
        if kind == "authn":
            return rule([step({"authenticator": mid})])
        return rule(([A] if with_authn else []) + [step({KEY_OF[kind]: mid})])

    def cross(kind, mid):
        """the same id referenced for every kind"""
        return [as_rule((k, mid)) for k in ("authn", "authz", "ctx", "fin", "eh")]

    for first in refs:
        followers = cross(first[0], first[1])
        # (b) earlier rule of the history, and the reverse order
        for path in PATHS:
            cases.append(case("decision", None, [as_rule(first)] + followers, path))
            cases.append(case("decision", None, followers + [as_rule(first)], path))
        # (a) the default rule used it
        kind, mid = first
        if kind == "eh":
            d = default_rule([A], [step({"error_handler": mid}, on_error=True)])
        elif kind == "authn":
            d = default_rule([step({"authenticator": mid})])
        else:
            d = default_rule([A, step({KEY_OF[kind]: mid})])
        cases.append(case("decision", d, followers))
        # (c) earlier step of the same rule
        same = []
        for k2 in ("authz", "ctx", "fin"):
            if kind in ("authz", "ctx", "fin"):
                pair = sorted([(kind, mid), (k2, mid)], key=lambda r: ["authz", "ctx", "fin"].index(r[0]))
                same.append(rule([A] + [step({KEY_OF[k]: i}) for k, i in pair]))
                same.append(rule([A] + [step({KEY_OF[k]: i}) for k, i in reversed(pair)]))
        if same:
            cases.append(case("decision", None, same))
    return cases


def small_scope(maxlen=4):
    return (grid_orderings(maxlen) + grid_backtracking() + grid_steps() + grid_spellings() + grid_shared_ids())
