#!/usr/bin/env python3
"""Write seeded/README.md and benign/README.md: one line per stored change (from the meta.json files)."""
import json
import os
import re

ROOT = os.path.dirname(os.path.dirname(os.path.abspath(__file__)))


def one_line(s, n=230):
    s = re.sub(r"\s+", " ", str(s)).strip()
    return s if len(s) <= n else s[: n - 1] + "…"


def main():
    rows = []
    for d in sorted(os.listdir(os.path.join(ROOT, "seeded"))):
        p = os.path.join(ROOT, "seeded", d, "meta.json")
        if not os.path.exists(p):
            continue
        m = json.load(open(p))
        cb = m.get("caught_by") or []
        if isinstance(cb, str):
            cb = [cb]
        rows.append((d, m.get("round", 1), one_line(m.get("what", "")), "; ".join(one_line(c, 200) for c in cb)))
    with open(os.path.join(ROOT, "seeded", "README.md"), "w") as fh:
        fh.write("# Seeded breaking changes\n\nWritten by sub-agents that saw only the property text; each compiles, passes the "
                 "existing tests and fails its own demonstration (`demo_test.go`); confirmed with `tools/seed_eval.py`. "
                 "Never committed to /repo. `tools/seed_all.py` re-runs all of them.\n\n"
                 "| seed | round | change | caught by |\n|---|---|---|---|\n")
        for r in rows:
            fh.write("| %s | %s | %s | %s |\n" % tuple(str(x).replace("|", "\\|") for x in r))
    print("seeded:", len(rows))
    bdir = os.path.join(ROOT, "benign")
    if os.path.isdir(bdir):
        rows = []
        for d in sorted(os.listdir(bdir)):
            p = os.path.join(bdir, d, "meta.json")
            if not os.path.exists(p):
                continue
            m = json.load(open(p))
            rows.append((d, one_line(m.get("kind", ""), 60), one_line(m.get("what", "")), one_line(m.get("result", "not evaluated"), 200)))
        with open(os.path.join(bdir, "README.md"), "w") as fh:
            fh.write("# Behaviour-preserving changes (false-alarm tests)\n\nWritten by sub-agents that saw only the property "
                     "text; each compiles and passes the existing tests. `tools/benign_eval.py <dir> <IDs>` applies one in a "
                     "scratch worktree and runs the checks: the expected outcome is exit 0. `no-failing-input-found` "
                     "means that only a tie to the source text broke (allowed by the brief, loosened where it loses "
                     "nothing).\n\n| change | kind | what | result |\n|---|---|---|---|\n")
            for r in rows:
                fh.write("| %s | %s | %s | %s |\n" % tuple(str(x).replace("|", "\\|") for x in r))
        print("benign:", len(rows))


if __name__ == "__main__":
    main()
