"""C09 side of the tie by translated source: trustedProxySet.Contains is translated from the current source on every run
(extract/go2lean, cmd/trusted, Gen/TrustedSrc.lean) and proved to be `trusted` of the model - some entry contains the
peer - for sets of any size (Props/C09Src.lean). Shared machinery: tools/go2lean_tie.py; called from tools/props/c09.py."""
import go2lean_tie as tie

TIE = tie.Tie(
    cmd="trusted", gen_module="HeimdallModel.Gen.TrustedSrc", stub_namespace="Heimdall.Fwd.Src",
    what="the membership test of the trusted proxy set",
    trusted="Go -> Lean translator extract/go2lean (go/ast, fails closed outside its subset; regenerates "
            "Gen/TrustedSrc.lean from the whole body of trustedProxySet.Contains on every run): trusted to keep the meaning "
            "of the statements it translates; an entry of the set is opaque, its Contains(ip) an uninterpreted boolean")
PROP = tie.Prop("HeimdallModel.Props.C09Src", "Heimdall.Props.C09", always=("HeimdallModel.Gen.TrustedSrc",))

ASSUMPTION = (
    "translated source (Gen/TrustedSrc.lean): only the loop of trustedProxySet.Contains is translated; how the set is "
    "built from the configured strings (net.ParseCIDR / net.ParseIP, skipped entries) and which address is tested "
    "(net.ParseIP(httpx.IPFromHostPort(RemoteAddr))) is the hand-written model Model/NetAddr.lean, tied by the "
    "correspondence run")


def step(R):
    res = tie.step(R, TIE, PROP)
    R.lean_src = res
    R.assumptions.append(ASSUMPTION)
    return res


def report(R, concrete_found):
    try:
        res = getattr(R, "lean_src", None)
        if res is None or res["ok"]:
            return
        if res["translate_error"]:
            R.violation("trustedProxySet.Contains can no longer be translated to Lean (extract/go2lean fails closed; the "
                        "theorems c09_src_* of Props/C09Src.lean say nothing about this code): " + res["translate_error"],
                        {"translator": "extract/go2lean cmd/trusted", "error": res["translate_error"],
                         "kind": "src-untranslatable"}, no_input=not concrete_found)
            return
        R.violation("theorems of Props/C09Src.lean no longer check: " + tie.named(res) + " (the translated loop of "
                    "trustedProxySet.Contains is no longer `some entry contains the peer`)",
                    {"lean_log": res["log"], "failed": res["failed"], "theorems": res["failed_theorems"],
                     "kind": "src-vs-model"}, no_input=not concrete_found)
    finally:
        tie.restore(TIE)
