"""Shared machinery of the /verif checks: Go overlay harness, Lean build/audit, line protocol, evidence, verdicts."""
import atexit
import fcntl
import hashlib
import json
import os
import random
import re
import shutil
import subprocess
import sys
import tempfile
import time

VERIF = os.path.dirname(os.path.dirname(os.path.abspath(__file__)))
REPO = os.environ.get("VERIF_REPO", "/repo")
LEAN = os.path.join(VERIF, "lean")
HARNESS = os.path.join(VERIF, "harness")
ALLOWED_AXIOMS = {"propext", "Classical.choice", "Quot.sound"}
FORBIDDEN = re.compile(r"\bsorry\b|\badmit\b|^axiom\s|native_decide|bv_decide|implemented_by|\bunsafe\s|maxHeartbeats\s+0\b")


def go_env():
    env = dict(os.environ)
    env.update({"GOFLAGS": "-mod=mod", "GOPROXY": "off", "GOSUMDB": "off", "GOTOOLCHAIN": "local",
                "GOMEMLIMIT": "6GiB"})
    return env


# ---------------------------------------------------------------------------------------------------------------
# Go side: overlay + harness binary

def make_overlay(tmp, only=None):
    """harness/main/*.go -> /repo/internal/zzverif/harness/*.go ;
    harness/inject/<pkg path with '__' for '/'>/<f>.go -> /repo/<pkg path>/zz_verif_<f>.go
    only = (main file names, [(inject dir, file)]) restricts the overlay to these files"""
    repl = {}
    for f in sorted(os.listdir(os.path.join(HARNESS, "main"))):
        if f.endswith(".go") and (only is None or f in only[0]):
            repl[os.path.join(REPO, "internal/zzverif/harness", f)] = os.path.join(HARNESS, "main", f)
    zz = os.path.join(HARNESS, "zzsync")
    if os.path.isdir(zz):
        for f in sorted(os.listdir(zz)):
            if f.endswith(".go"):
                repl[os.path.join(REPO, "internal/zzverif/zzsync", f)] = os.path.join(zz, f)
    inj = os.path.join(HARNESS, "inject")
    if os.path.isdir(inj):
        for d in sorted(os.listdir(inj)):
            pkg = d.replace("__", "/")
            for f in sorted(os.listdir(os.path.join(inj, d))):
                if f.endswith(".go") and (only is None or (d, f) in only[1]):
                    repl[os.path.join(REPO, pkg, "zz_verif_" + f)] = os.path.join(inj, d, f)
    path = os.path.join(tmp, "overlay.json")
    with open(path, "w") as fh:
        json.dump({"Replace": repl}, fh)
    return path


ZZSYNC_IMPORT = 'zzsync "github.com/dadrus/heimdall/internal/zzverif/zzsync"'


def _add_import(code, imp):
    """add an import line to Go source (block or single-line import form)"""
    m = re.search(r"^import \($", code, re.M)
    if m:
        return code[:m.end()] + "\n\t" + imp + code[m.end():]
    m = re.search(r"^package \w+.*$", code, re.M)
    return code[:m.end()] + "\n\nimport " + imp + code[m.end():]


def jitter_copy(tmp, relpath):
    """a copy of /repo/<relpath> in which sync.Mutex / sync.RWMutex are replaced by the jitter-adding zzsync types
    (other parts of package sync stay as they are); returns an overlay entry {repo path: copy}, or {} if the file
    declares no such mutex"""
    src = os.path.join(REPO, relpath)
    with open(src) as fh:
        code = fh.read()
    if not re.search(r"\bsync\.(RW)?Mutex\b", code):
        return {}
    code = re.sub(r"\bsync\.Mutex\b", "zzsync.Mutex", code)
    code = re.sub(r"\bsync\.RWMutex\b", "zzsync.RWMutex", code)
    if not re.search(r"(?<![\w.])sync\.\w", code):
        code = re.sub(r'^\s*"sync"\s*\n', "", code, flags=re.M)
        code = re.sub(r'^import "sync"\s*\n', "", code, flags=re.M)
    code = _add_import(code, ZZSYNC_IMPORT)
    dst = os.path.join(tmp, "jitter_" + relpath.replace("/", "__"))
    with open(dst, "w") as fh:
        fh.write(code)
    return {src: dst}


def yield_copy(tmp, relpath, funcs):
    """a copy of /repo/<relpath> with a scheduling point (zzsync.Yield) at the start of the named functions / methods;
    returns an overlay entry, or {} if none of them is found"""
    src = os.path.join(REPO, relpath)
    with open(src) as fh:
        code = fh.read()
    pat = re.compile(r"^func (\([^)]*\) )?(%s)\([^{]*\{[ \t]*\n" % "|".join(map(re.escape, funcs)), re.M)
    code, n = pat.subn(lambda m: m.group(0) + "\tzzsync.Yield()\n", code)
    if n == 0:
        return {}
    code = _add_import(code, ZZSYNC_IMPORT)
    dst = os.path.join(tmp, "yield_" + relpath.replace("/", "__"))
    with open(dst, "w") as fh:
        fh.write(code)
    return {src: dst}


def build_harness(tmp, extra_overlay=None, tags=None, race=False, only=None, pid=None):
    """Build the harness from /repo's current working tree. Returns (path, log).
    The harness is one binary for all families. If it does not build and `pid` is given, the build is repeated with
    the files the families of that check need (tools/harness_groups.py): a file of another family that no longer
    compiles against the tree (a white-box helper naming a private field, say) is no reason to fail this check."""
    if only is None and pid is not None:
        exe, log = build_harness(tmp, extra_overlay, tags, race)
        if exe is not None:
            return exe, log
        import harness_groups
        exe2, log2 = build_harness(tmp, extra_overlay, tags, race, only=harness_groups.files_for(pid))
        if exe2 is not None:
            return exe2, "full harness does not build (files of other families), reduced harness used:\n" + log[-1500:]
        exe3, log3 = build_harness(tmp, extra_overlay, tags, race, only=harness_groups.files_for(pid, optional=False))
        if exe3 is not None:
            return exe3, ("full harness does not build, reduced harness without optional white-box helpers used:\n"
                          + log2[-1500:])
        return None, log2
    ov = make_overlay(tmp, only)
    if extra_overlay:
        with open(ov) as fh:
            o = json.load(fh)
        o["Replace"].update(extra_overlay)
        with open(ov, "w") as fh:
            json.dump(o, fh)
    exe = os.path.join(tmp, "harness")
    cmd = ["go", "build", "-overlay", ov, "-o", exe]
    if race:
        cmd.append("-race")
    if tags:
        cmd += ["-tags", tags]
    cmd += ["./internal/zzverif/harness"]
    p = subprocess.run(cmd, cwd=REPO, env=go_env(), capture_output=True, text=True, timeout=1500)
    if p.returncode != 0:
        return None, p.stdout + p.stderr
    return exe, p.stdout + p.stderr


def _run_stream(cmd, lines, timeout, cwd=None, env=None):
    data = "".join(l + "\n" for l in lines)
    try:
        p = subprocess.run(cmd, input=data, capture_output=True, text=True, timeout=timeout, cwd=cwd, env=env)
        out, err, rc = p.stdout, p.stderr, p.returncode
    except subprocess.TimeoutExpired as e:
        out = e.stdout.decode() if isinstance(e.stdout, bytes) else (e.stdout or "")
        err = "timeout"
        rc = -9
    res = []
    for l in out.split("\n"):      # not splitlines(): U+2028, U+0085, VT, FF inside a JSON string are no line ends
        l = l.strip(" \t\r")
        if not l:
            continue
        try:
            res.append(json.loads(l))
        except Exception:
            res.append({"unparsable": l[:500]})
    return res, err, rc


def run_cases(cmd, cases, timeout=600, cwd=None, env=None, chunk=None):
    """Feed cases (dicts) as JSON lines to cmd, one result per case. A process that dies on a case yields
    {"crash": stderr-tail} for that case and is restarted for the remaining ones."""
    results = []
    i = 0
    lines = [json.dumps(c, separators=(",", ":")) for c in cases]
    guard = 0
    while i < len(lines):
        out, err, rc = _run_stream(cmd, lines[i:], timeout, cwd, env)
        results.extend(out[: len(lines) - i])
        i += len(out)
        if i < len(lines):
            results.append({"crash": (err or "")[-2000:], "rc": rc})
            i += 1
            guard += 1
            if guard > 50:
                while i < len(lines):
                    results.append({"crash": "too many crashes, not run"})
                    i += 1
    return results


# ---------------------------------------------------------------------------------------------------------------
# Lean side

class LeanLock:
    """exclusive lock on the Lean project (re-entrant within one process)"""
    depth = 0
    fh = None

    def __enter__(self):
        if LeanLock.depth == 0:
            os.makedirs(os.path.join(LEAN, ".lake"), exist_ok=True)
            LeanLock.fh = open(os.path.join(LEAN, ".lake", "check.lock"), "w")
            fcntl.flock(LeanLock.fh, fcntl.LOCK_EX)
        LeanLock.depth += 1
        return self

    def __exit__(self, *a):
        LeanLock.depth -= 1
        if LeanLock.depth == 0:
            fcntl.flock(LeanLock.fh, fcntl.LOCK_UN)
            LeanLock.fh.close()
            LeanLock.fh = None


def lake(args, timeout=3000):
    p = subprocess.run(["lake"] + args, cwd=LEAN, capture_output=True, text=True, timeout=timeout)
    return p.returncode, p.stdout + p.stderr


def strip_comments(src):
    # remove /- ... -/ (nested) and -- ... comments
    out = []
    i = 0
    depth = 0
    n = len(src)
    while i < n:
        if src.startswith("/-", i):
            depth += 1
            i += 2
        elif depth and src.startswith("-/", i):
            depth -= 1
            i += 2
        elif depth:
            if src[i] == "\n":
                out.append("\n")
            i += 1
        elif src.startswith("--", i):
            while i < n and src[i] != "\n":
                i += 1
        else:
            out.append(src[i])
            i += 1
    return "".join(out)


def lean_sources():
    res = []
    for root, _, files in os.walk(LEAN):
        if "/.lake" in root:
            continue
        for f in files:
            if f.endswith(".lean"):
                res.append(os.path.join(root, f))
    return sorted(res)


def forbidden_scan():
    hits = []
    for f in lean_sources():
        with open(f) as fh:
            src = strip_comments(fh.read())
        for ln, line in enumerate(src.splitlines(), 1):
            if FORBIDDEN.search(line):
                hits.append(f"{os.path.relpath(f, VERIF)}:{ln}: {line.strip()[:120]}")
    return hits


THM_RE = re.compile(r"^\s*(?:@\[[^\]]*\]\s*)?(?:private\s+|protected\s+)?theorem\s+([^\s:({\[]+)", re.M)
EX_RE = re.compile(r"^\s*example\b", re.M)


def prop_theorems(pid):
    path = os.path.join(LEAN, "HeimdallModel", "Props", pid + ".lean")
    with open(path) as fh:
        src = strip_comments(fh.read())
    return THM_RE.findall(src), len(EX_RE.findall(src))


def lean_check(pid, gen_modules=(), clean=False, leanchecker=False, extra=()):
    """Build Props.<pid> (re-checking every theorem it depends on), audit axioms of every property theorem.
    Returns dict(ok, obligations, discharged, axioms, log, failed)."""
    res = {"ok": False, "obligations": 0, "discharged": 0, "axioms": {}, "log": "", "failed": []}
    mod = f"HeimdallModel.Props.{pid}"
    if extra:
        # further property modules audited together with Props/<pid>.lean
        res = lean_check(pid, clean=clean, leanchecker=leanchecker)
        for e in extra:
            r2 = lean_check(e, leanchecker=leanchecker)
            res["obligations"] += r2["obligations"]
            res["discharged"] += r2["discharged"]
            res["axioms"].update(r2["axioms"])
            res["log"] += r2["log"]
            if not r2["ok"]:
                res["ok"] = False
                res["failed"] = list(res["failed"]) + list(r2["failed"])
                res["discharged"] = 0
        return res
    with LeanLock():
        if clean:
            lake(["clean"])
        subprocess.run([sys.executable, os.path.join(VERIF, "tools", "gen_root.py")], check=True)
        rc, log = lake(["build", mod, "driver"])
        res["log"] = log[-6000:]
        thms, nex = prop_theorems(pid)
        res["obligations"] = len(thms) + nex
        # also when a theorem module failed: the driver (which imports no theorem) may have been linked all the same, and
        # the searches that follow run it after the lock is released
        _keep_driver_copy()
        if rc != 0:
            res["failed"] = sorted(set(re.findall(r"error: ([^\n]+)", log)))[:20]
            failed_thms = [t for t in thms if re.search(r"\b" + re.escape(t) + r"\b", log)]
            res["failed_theorems"] = failed_thms
            return res
        audit = os.path.join(LEAN, ".lake", f"audit_{pid}.lean")
        with open(audit, "w") as fh:
            fh.write(f"import {mod}\nopen Heimdall.Props.{pid}\n")
            for t in thms:
                fh.write(f"#print axioms {t}\n")
        p = subprocess.run(["lake", "env", "lean", audit], cwd=LEAN, capture_output=True, text=True, timeout=900)
        alog = p.stdout + p.stderr
        if p.returncode != 0:
            res["failed"] = ["axiom audit failed: " + alog[-1500:]]
            return res
        if leanchecker:
            p = subprocess.run(["lake", "env", "leanchecker", mod], cwd=LEAN, capture_output=True, text=True,
                               timeout=3000)
            res["leanchecker"] = "ok" if p.returncode == 0 else (p.stdout + p.stderr)[-1500:]
            if p.returncode != 0:
                res["failed"] = ["leanchecker: " + res["leanchecker"]]
                return res
    bad = []
    for m in re.finditer(r"'([^']+)' (depends on axioms: \[([^\]]*)\]|does not depend on any axioms)", alog):
        name = m.group(1).split(".")[-1]
        axs = [a.strip() for a in (m.group(3) or "").replace("\n", " ").split(",") if a.strip()]
        res["axioms"][name] = axs
        if not set(axs) <= ALLOWED_AXIOMS:
            bad.append(f"{name}: {axs}")
    missing = [t for t in thms if t.split(".")[-1] not in res["axioms"]]
    if bad or missing:
        res["failed"] = [f"disallowed axioms: {bad}", f"not audited: {missing}"]
        return res
    hits = forbidden_scan()
    if hits:
        res["failed"] = ["forbidden tokens: " + "; ".join(hits[:10])]
        return res
    res["ok"] = True
    res["discharged"] = res["obligations"]
    return res


_DRIVER_COPY = None


def _keep_driver_copy():
    """Called with the Lean lock held, right after `lake build … driver`: checks running side by side against
    different trees re-link the shared binary after the lock is released, so every check process runs its own copy."""
    global _DRIVER_COPY
    src = os.path.join(LEAN, ".lake", "build", "bin", "driver")
    try:
        if _DRIVER_COPY is None:
            d = tempfile.mkdtemp(prefix="verif-driver-")
            atexit.register(shutil.rmtree, d, True)
            _DRIVER_COPY = os.path.join(d, "driver")
        tmp = _DRIVER_COPY + ".new"
        shutil.copy2(src, tmp)
        os.replace(tmp, _DRIVER_COPY)
    except OSError:
        _DRIVER_COPY = None


def driver_cmd():
    if _DRIVER_COPY is not None and os.path.exists(_DRIVER_COPY):
        return [_DRIVER_COPY]
    return [os.path.join(LEAN, ".lake", "build", "bin", "driver")]


# ---------------------------------------------------------------------------------------------------------------
# verdicts, evidence, known findings

def known_findings():
    path = os.path.join(VERIF, "known_findings.json")
    if not os.path.exists(path):
        return {"findings": [], "fixed": []}
    with open(path) as fh:
        return json.load(fh)


def out_root():
    """evidence and replays of runs against a scratch copy of the repository (VERIF_REPO) are kept apart"""
    return VERIF if os.path.realpath(REPO) == "/repo" else os.path.join(tempfile.gettempdir(), "verif-alt-" + os.path.basename(REPO))


def write_replay(pid, seed, payload):
    d = os.path.join(out_root(), "replays")
    os.makedirs(d, exist_ok=True)
    path = os.path.join(d, f"{pid}-{seed}.json")
    with open(path, "w") as fh:
        json.dump(payload, fh, indent=1, default=str)
    return path


def write_evidence(pid, tier, seed, coverage, assumptions, wall, violations):
    d = os.path.join(out_root(), "evidence")
    os.makedirs(d, exist_ok=True)
    ev = {"property_id": pid, "tier": tier, "seed": seed, "level": "proof", "coverage": coverage,
          "assumptions": assumptions, "wall_s": round(wall, 2), "violations": violations}
    with open(os.path.join(d, pid + ".json"), "w") as fh:
        json.dump(ev, fh, indent=1, default=str)


def canon(x):
    return json.dumps(x, sort_keys=True, separators=(",", ":"))


def case_hash(c):
    return hashlib.sha1(canon(c).encode()).hexdigest()[:12]


def load_corpus(pid):
    d = os.path.join(VERIF, "corpus", pid)
    res = []
    if os.path.isdir(d):
        for f in sorted(os.listdir(d)):
            if f.endswith(".json"):
                with open(os.path.join(d, f)) as fh:
                    res.append(json.load(fh))
    return res


class Run:
    """State of one check run."""

    def __init__(self, pid, tier, seed):
        self.pid, self.tier, self.seed = pid, tier, seed
        self.t0 = time.time()
        self.rng = random.Random(seed * 1000003 + int(hashlib.sha1(pid.encode()).hexdigest()[:6], 16))
        self.tmp = tempfile.mkdtemp(prefix=f"verif-{pid}-")
        self.violations = []      # (what, replay payload)
        self.known_hits = {}      # finding id -> count
        self.coverage = {}
        self.assumptions = []

    def cleanup(self):
        shutil.rmtree(self.tmp, ignore_errors=True)

    def violation(self, what, payload, no_input=False):
        self.violations.append((what, payload, no_input))

    def finish(self):
        wall = time.time() - self.t0
        kf = known_findings()
        for f in kf.get("findings", []):
            if f["property"] == self.pid and self.known_hits.get(f["id"], 0) > 0:
                print(f"KNOWN-FINDING: property={self.pid} {f['what']} (seen {self.known_hits[f['id']]}x this run)")
        rc = 0
        if self.violations:
            rc = 1
            what, payload, no_input = self.violations[0]
            payload = dict(payload)
            payload["what"] = what
            payload["all_violations"] = [w for w, _, _ in self.violations][:50]
            path = write_replay(self.pid, self.seed, payload)
            for w, _, _ in self.violations[:10]:
                print(f"  violation: {w}")
            line = f"VIOLATION property={self.pid} replay={path}"
            if all(n for _, _, n in self.violations):
                line += " no-failing-input-found"
            print(line)
        self.coverage.setdefault("disagreements_checked", len(self.violations))
        write_evidence(self.pid, self.tier, self.seed, self.coverage, self.assumptions, wall, len(self.violations))
        self.cleanup()
        print(f"{self.pid} {self.tier} seed={self.seed}: {'FAIL' if rc else 'ok'} in {wall:.1f}s")
        return rc


# ---------------------------------------------------------------------------------------------------------------
# common steps

TRUSTED_BASE = [
    "Lean 4.33.0 kernel (thorough tier: re-checked by leanchecker); axioms limited to propext, Classical.choice, Quot.sound",
    "correspondence check (tools/*.py generators and differ, harness/main/*.go executor, Driver/*.lean executor): "
    "differential testing, validates the model against /repo's working tree on the generated cases only",
    "Go toolchain, runtime and the third-party libraries heimdall links",
]


def res_of(x):
    return x["res"] if isinstance(x, dict) and "res" in x else x


def step_lean(R, pid, thorough_extra=True, extra=()):
    """Theorems of Props/<pid>.lean (and of the `extra` property modules). Returns True when all obligations are
    discharged."""
    lc = lean_check(pid, clean=False, leanchecker=(R.tier == "thorough" and thorough_extra), extra=extra)
    R.coverage.update({
        "obligations": max(lc["obligations"], 1), "discharged": lc["discharged"],
        "checker_cmd": f"cd /verif/lean && lake build HeimdallModel.Props.{pid} && lake env lean .lake/audit_{pid}.lean"
                       + (" && lake env leanchecker HeimdallModel.Props." + pid if R.tier == "thorough" else ""),
        "trusted_base": list(TRUSTED_BASE), "axioms": lc["axioms"],
        "theorems": sorted(lc["axioms"].keys()),
    })
    if "leanchecker" in lc:
        R.coverage["leanchecker"] = lc["leanchecker"]
    R.lean = lc
    return lc["ok"]


def loopback_timewait():
    """number of TCP sockets in TIME-WAIT (each can hold an ephemeral loopback port for a minute)"""
    try:
        n = 0
        for f in ("/proc/net/tcp", "/proc/net/tcp6"):
            with open(f) as fh:
                next(fh)
                for line in fh:
                    if line.split()[3] == "06":
                        n += 1
        return n
    except (OSError, IndexError, StopIteration):
        return 0


def wait_for_ports(limit=12000, max_wait=90):
    """The families open many short loopback connections. When checks run side by side (or right after each other)
    the ephemeral port range of the host can run out, which would show up as connection errors that have nothing to
    do with the code under test. Wait until the backlog of TIME-WAIT sockets has drained."""
    t0 = time.time()
    while loopback_timewait() > limit and time.time() - t0 < max_wait:
        time.sleep(2)
    return round(time.time() - t0, 1)


def step_harness(R):
    waited = wait_for_ports()
    if waited > 1:
        R.coverage["waited_for_loopback_ports_s"] = waited
    exe, log = build_harness(R.tmp, pid=R.pid)
    if exe is None:
        R.harness_log = log
    elif log.startswith("full harness does not build"):
        R.coverage["reduced_harness"] = log[:1200]
    return exe


def ddmin(items, fails):
    """classic delta debugging over a list; fails(list) -> bool"""
    n = 2
    cur = list(items)
    while len(cur) >= 2:
        size = max(1, len(cur) // n)
        chunks = [cur[i:i + size] for i in range(0, len(cur), size)]
        reduced = False
        for i in range(len(chunks)):
            cand = [x for j, ch in enumerate(chunks) if j != i for x in ch]
            if cand and fails(cand):
                cur = cand
                n = max(n - 1, 2)
                reduced = True
                break
        if not reduced:
            if n >= len(cur):
                break
            n = min(len(cur), n * 2)
    return cur
