#!/usr/bin/env python3
"""Re-evaluate every seeded defect under /verif/seeded against the checks recorded as catching it (final QA).
usage: tools/seed_all.py [<seed name> ...]"""
import json
import os
import re
import subprocess
import sys

V = os.path.dirname(os.path.dirname(os.path.abspath(__file__)))
names = sys.argv[1:] or sorted(os.listdir(os.path.join(V, "seeded")))
bad = 0
for n in names:
    d = os.path.join(V, "seeded", n)
    meta = json.load(open(os.path.join(d, "meta.json")))
    ids = sorted({m for c in meta.get("caught_by", []) for m in re.findall(r"C\d\d", c)}) or [meta["property"]]
    p = subprocess.run([sys.executable, os.path.join(V, "tools", "seed_eval.py"), d] + ids, capture_output=True, text=True)
    try:
        r = json.loads(p.stdout)
    except Exception:
        print(n, "EVAL ERROR", p.stdout[-500:], p.stderr[-500:])
        bad += 1
        continue
    ok = r.get("demo_passes_unpatched") and r.get("demo_fails_patched") and r.get("builds") and not r.get("existing_test_failures")
    caught = [k for k, v in r["checks"].items() if v["exit"] != 0]
    print(n, "valid" if ok else "INVALID", "caught by", caught, "missed by", [k for k in ids if k not in caught])
    if not ok or not caught:
        bad += 1
sys.exit(1 if bad else 0)
