"""Generators for the families signer / signerconc (C16): key store files, jwt finalizer configurations, claims
templates with their expected renderings, operation sequences.

What the generator tells the model about a key store file (`raw_of`) is the part of the tie that stands for X.509:
which certificate chain `FindChain` finds for a key, whether `ValidateChain` accepts it and whether the end-entity
certificate may be used for digital signatures.  The stores are built so that these are decided by construction
(distinct subject names, at most one level of CA, expiry in 2002 for the invalid ones).

Time: a certificate block (leaf or CA) with "expires_ms" runs out that many milliseconds after the start of the case.
The model is told its validity period (`cert_validity` of the case) and judges the chain at the instant of each load
itself (Model/SignerTime.lean); `chain_valid` / `sign_usable` are then the verdicts apart from that period."""
import copy
import json

POOL_QUICK = [("rsa2048", 0), ("rsa2048", 1), ("rsa3072", 0), ("rsa4096", 0), ("p256", 0), ("p256", 1), ("p384", 0),
              ("p384", 1), ("p521", 0), ("p521", 1)]
POOL_THOROUGH = POOL_QUICK + [("rsa2048", 2), ("rsa3072", 1), ("rsa4096", 1), ("p256", 2), ("p384", 2), ("p521", 2)]
UNSUPPORTED = [("rsa1024", 0), ("p224", 0)]

XKIDS = ["k1", "k2", "sig-2024", "heimdall", "a/b c"]
# further ids of a key that is listed more than once in a store (the name a key had before a renaming and the new
# one; bundles concatenated from several sources)
ALIAS_XKIDS = ["signer-2023", "signer-2024", "signer-2025", "old", "current"]
SKIS = ["ab01", "ab02", "00ff10", "c0ffee"]
SUBJECTS = ["alice", "bob", "svc:robot-7", "user@example.com", "", "0", "Bob"]
ISSUERS = ["", "issuer-a", "https://heimdall.example.com", "heimdall"]
RESERVED = ["sub", "iss", "iat", "nbf", "exp", "jti"]
OTHER_NAMES = ["aud", "scope", "foo", "roles", "email", "Sub", "EXP", "x"]
TTLS = [None, None, 2_000_000_000, 1_500_000_000, 1_000_000_001, 10_000_000_000, 3_600_000_000_000,
        90_250_000_000, 1_999_999_999]
BAD_TTLS = [1_000_000_000, 500_000_000]
HEADERS = [None, None, None, {"name": "X-Token", "scheme": "JWT"}, {"name": "X-Id-Token", "scheme": ""},
           {"name": "Authorization", "scheme": "Token v1"}]


def is_rsa(t):
    return t.startswith("rsa")


# ---------------------------------------------------------------------------------------------------------------
# key store files

class Ids:
    """running numbers for certificates, unique within a case"""

    def __init__(self):
        self.cid = 0

    def next(self):
        self.cid += 1
        return self.cid


SHARED_P = 0.14   # share of the generated stores that list one of their keys more than once


def gen_store(rng, keys, ids, password="", allow_bad=True, min_entries=1, want_kid=""):
    """keys: the case's key table [(type, n)]; returns a store specification {"blocks": [...]} or {"raw": ...}.

    Shared keys: in about one store out of seven one key is listed again (once or twice, anywhere in the file) under
    further `X-Key-ID`s — every listing is an entry of its own with its own id, all of them share the key material and
    the certificate chain found for it.  `want_kid`: the key id the finalizer that is going to load the store is
    configured with; one of the further listings gets it, so that the store loads with the active key reached through
    an id that is not the first one of its key."""
    r = rng.random()
    if allow_bad and r < 0.03:
        return {"raw": rng.choice(["empty", "garbage", "unsupported"])}
    n = rng.choice([1, 1, 2, 2, 2, 3, 4])
    n = max(min(n, len(keys)), min_entries)
    pids = rng.sample(range(len(keys)), min(n, len(keys)))
    if allow_bad and rng.random() < 0.03 and pids:
        pids.append(pids[0])  # the same key twice
    entries = [(pid, None) for pid in pids]
    if pids and rng.random() < SHARED_P:
        again = rng.choice(pids)
        names = rng.sample(ALIAS_XKIDS, rng.choice([1, 1, 2]))
        if want_kid:
            names[-1] = want_kid
        for name in names:
            # mostly after the first listing (the id in use is then not the first one of its key), anywhere else too
            at = entries.index((again, None))
            pos = rng.randrange(at + 1, len(entries) + 1) if rng.random() < 0.75 else rng.randrange(len(entries) + 1)
            entries.insert(pos, (again, name))
    blocks = []
    tail = []
    used_ca = {}
    for pid, alias in entries:
        t = keys[pid][0]
        fmts = ["pkcs8", "pkcs8", "pkcs1" if is_rsa(t) else "sec1"]
        if password:
            fmts.append("enc")
        kb = {"t": "key", "k": pid, "fmt": rng.choice(fmts), "xkid": ""}
        if alias is not None:
            # a further listing of a key of this store: its own id, no certificate of its own
            kb["xkid"] = alias
            blocks.append(kb)
            continue
        x = rng.random()
        if x < 0.35:
            kb["xkid"] = rng.choice(XKIDS)
        elif x < 0.4 and allow_bad:
            kb["xkid"] = XKIDS[0]  # likely duplicates
        cert = None
        c = rng.random()
        if c < 0.45:
            cert = {"t": "cert", "k": pid, "cid": ids.next(), "ski": rng.choice(SKIS + ["", ""]),
                    "usage": "enc" if (allow_bad and rng.random() < 0.12) else "sig"}
            if allow_bad and rng.random() < 0.05:
                cert["expired"] = True
            if rng.random() < 0.4:
                ca = rng.choice([1, 2])
                cert["ca"] = ca
                if ca not in used_ca and rng.random() < 0.85:
                    used_ca[ca] = {"t": "ca", "ca": ca, "cid": 900 + ca}   # one certificate per CA and case
        place = rng.random()
        if cert is None:
            blocks.append(kb)
        elif place < 0.5:
            blocks += [kb, cert]
        elif place < 0.75:
            blocks += [cert, kb]
        else:
            blocks.append(kb)
            tail.append(cert)
    blocks += tail
    for ca in used_ca.values():
        blocks.insert(rng.randrange(len(blocks) + 1), ca)
    return {"blocks": blocks}


def raw_of(store):
    """what the model is told about a store file: None = the file cannot be parsed into a key store at all, else
    the key blocks in file order with chain, chain_valid, sign_usable"""
    if "raw" in store and store["raw"]:
        return None if store["raw"] == "unsupported" else []
    blocks = store["blocks"]
    cas = {b["ca"]: b for b in blocks if b["t"] == "ca"}
    res = []
    for b in blocks:
        if b["t"] != "key":
            continue
        leaf = next((c for c in blocks if c["t"] == "cert" and c["k"] == b["k"]), None)
        chain, valid, usable = [], True, True
        if leaf is not None:
            chain = [{"cid": leaf["cid"], "ski": leaf.get("ski", "")}]
            if leaf.get("ca") is not None and leaf["ca"] in cas:
                chain.append({"cid": cas[leaf["ca"]]["cid"], "ski": ""})
            valid = not leaf.get("expired", False)
            usable = leaf.get("usage", "sig") == "sig" and valid
        res.append({"xkid": b.get("xkid", ""), "k": b["k"], "chain": chain, "chain_valid": valid,
                    "sign_usable": usable})
    return res


def loadable_without_key_id(store):
    """for stores generated with allow_bad=False: loads iff it has an entry and no key id occurs twice"""
    raw = raw_of(store)
    if not raw:
        return False
    kids = []
    for e in raw:
        if not e["chain_valid"]:
            return False
        kid = e["xkid"] or (e["chain"][0]["ski"] if e["chain"] and e["chain"][0]["ski"] else "auto:%d" % e["k"])
        kids.append(kid)
    first = raw[0]
    return len(set(kids)) == len(kids) and (not first["chain"] or first["sign_usable"])


def kids_of(store):
    raw = raw_of(store) or []
    return [e["xkid"] or (e["chain"][0]["ski"] if e["chain"] and e["chain"][0]["ski"] else "auto:%d" % e["k"])
            for e in raw]


def shared_ids(store):
    """the explicit ids of the keys that the store lists more than once, in file order ([] for most stores)"""
    keys = [b for b in store.get("blocks", []) if b["t"] == "key"]
    count = {}
    for b in keys:
        count[b["k"]] = count.get(b["k"], 0) + 1
    return [b["xkid"] for b in keys if count[b["k"]] > 1 and b.get("xkid")]


def kid_candidates(store):
    """key ids that are likely to exist in the store (explicit ones and certificate key identifiers)"""
    res = []
    for b in store.get("blocks", []):
        if b["t"] == "key" and b.get("xkid"):
            res.append(b["xkid"])
        if b["t"] == "cert" and b.get("ski"):
            res.append(b["ski"])
    return res


# ---------------------------------------------------------------------------------------------------------------
# claims templates: text for the real template engine and the members it renders to

def lit_value(rng, depth=0):
    r = rng.random()
    if r < 0.25:
        return rng.choice([0, 1, 42, -7, 1700000000, 9999999999, 1.5])
    if r < 0.5:
        return rng.choice(["evil", "admin", "", "x y", "https://a.example/b"])
    if r < 0.6:
        return rng.choice([True, False, None])
    if r < 0.8 and depth < 2:
        return [lit_value(rng, depth + 1) for _ in range(rng.choice([0, 1, 2]))]
    if depth < 2:
        return {rng.choice(OTHER_NAMES + RESERVED): lit_value(rng, depth + 1) for _ in range(rng.choice([0, 1, 2]))}
    return "deep"


def gen_template(rng, reserved_p=0.5):
    """returns {"text": template source, "members": [(name, ("lit", v) | ("subject",) | ("attr", a) | ("out", o))]}
    or a template whose rendering is not a JSON object"""
    r = rng.random()
    if r < 0.04:
        return {"text": "[1, 2]", "members": None}
    if r < 0.07:
        return {"text": "this is not json", "members": None}
    if r < 0.09:
        return {"text": "{{ fail \"boom\" }}", "members": None}
    n = rng.choice([0, 1, 2, 2, 3, 3, 4, 6])
    members = []
    for _ in range(n):
        name = rng.choice(RESERVED) if rng.random() < reserved_p else rng.choice(OTHER_NAMES)
        k = rng.random()
        if k < 0.55:
            members.append((name, ("lit", lit_value(rng))))
        elif k < 0.75:
            members.append((name, ("subject",)))
        elif k < 0.9:
            members.append((name, ("attr", rng.choice(["groups", "age", "email"]))))
        else:
            members.append((name, ("out", rng.choice(["authz", "n"]))))
    parts = []
    for name, v in members:
        if v[0] == "lit":
            val = json.dumps(v[1])
        elif v[0] == "subject":
            val = "{{ quote .Subject.ID }}"
        elif v[0] == "attr":
            val = "{{ toJson .Subject.Attributes.%s }}" % v[1]
        else:
            val = "{{ .Outputs.%s | toJson }}" % v[1]
        parts.append("%s: %s" % (json.dumps(name), val))
    sep = rng.choice([", ", ",\n  "])
    return {"text": "{" + sep.join(parts) + "}", "members": members}


def gen_templates(rng, n, reserved_p=0.5):
    """n templates with pairwise different texts (the cache key covers the hash of the template text; the model
    identifies a template by its index)"""
    res, texts = [], set()
    while len(res) < n:
        t = gen_template(rng, reserved_p)
        if t["text"] not in texts:
            texts.add(t["text"])
            res.append(t)
    return res


def render(tpl, sub, attrs, outputs):
    """the members (document order, repeated names kept) the template renders to for this subject, None if the
    rendering is not a JSON object"""
    if tpl["members"] is None:
        return None
    res = []
    for name, v in tpl["members"]:
        if v[0] == "lit":
            res.append([name, v[1]])
        elif v[0] == "subject":
            res.append([name, sub])
        elif v[0] == "attr":
            res.append([name, attrs[v[1]]])
        else:
            res.append([name, outputs[v[1]]])
    return res


def gen_subject(rng):
    sub = rng.choice(SUBJECTS)
    attrs = {"groups": rng.choice([[], ["admin"], ["a", "b"]]), "age": rng.choice([0, 33, 7]),
             "email": rng.choice(["a@example.com", ""])}
    outputs = {"authz": rng.choice([{"ok": True}, {"ok": False, "why": "x"}]), "n": rng.choice([1, 2, 3])}
    return sub, attrs, outputs


# ---------------------------------------------------------------------------------------------------------------
# cases

def pick_keys(rng, pool, allow_bad):
    n = rng.choice([2, 3, 3, 4, 5])
    keys = rng.sample(pool, min(n, len(pool)))
    if allow_bad and rng.random() < 0.04:
        keys.append(rng.choice(UNSUPPORTED))
    return [list(k) for k in keys]


def gen_holder(rng, idx, keys, ids, templates, allow_bad=True):
    password = rng.choice(["", "", "s3cr3t"])
    store = gen_store(rng, keys, ids, password, allow_bad)
    key_id = ""
    r = rng.random()
    cands = kid_candidates(store)
    shared = shared_ids(store)
    if shared and rng.random() < 0.75:
        # a key listed under several ids: the finalizer is configured with one of them, mostly a later one
        key_id = rng.choice(shared[1:] + shared)
    elif r < 0.3 and cands:
        key_id = rng.choice(cands)
    elif r < 0.34 and allow_bad:
        key_id = "missing"
    h = {"id": "jwt%d" % idx, "key_id": key_id, "name": rng.choice(ISSUERS), "password": password,
         "ttl_ns": rng.choice(TTLS), "tpl": None, "claims_tpl": None, "header": rng.choice(HEADERS),
         "store": store, "raw": raw_of(store)}
    if allow_bad and rng.random() < 0.03:
        h["ttl_ns"] = rng.choice(BAD_TTLS)
    if rng.random() < 0.75:
        t = rng.randrange(len(templates))
        h["tpl"] = t
        h["claims_tpl"] = templates[t]["text"]
    return h


def gen_override(rng, templates, ttls=None):
    ov = {"ttl_ns": None, "tpl": None, "claims_tpl": None}
    if rng.random() < 0.6:
        ov["ttl_ns"] = rng.choice(ttls or ([t for t in TTLS if t] + ([BAD_TTLS[0]] if rng.random() < 0.1 else [])))
    if rng.random() < 0.6:
        t = rng.randrange(len(templates))
        ov["tpl"] = t
        ov["claims_tpl"] = templates[t]["text"]
    return ov


def gen_sign(rng, nholders, templates, holders, subjects=None, variants=None):
    """subjects / variants: small pools of (subject id, attributes, outputs) and of rule-level overrides to draw
    from, so that the same subject meets the same and other finalizer instances again (cases with a token cache)"""
    if subjects and rng.random() < 0.85:
        sub, attrs, outputs = copy.deepcopy(rng.choice(subjects))
    else:
        sub, attrs, outputs = gen_subject(rng)
    op = {"op": "sign", "h": rng.randrange(nholders), "sub": sub, "attrs": attrs, "outputs": outputs, "ov": None}
    if rng.random() < 0.03:
        op["sub"] = None
    if variants is not None:
        op["ov"] = copy.deepcopy(rng.choice(variants))
    elif rng.random() < 0.3:
        op["ov"] = gen_override(rng, templates)
    set_renders(op, templates, holders)
    return op


def set_renders(op, templates, holders):
    renders = {}
    for t in {holders[op["h"]]["tpl"], (op["ov"] or {}).get("tpl")}:
        if t is not None:
            renders[str(t)] = (render(templates[t], op["sub"], op["attrs"], op["outputs"])
                               if op["sub"] is not None else None)
    op["renders"] = renders


CACHED_TTLS = [None, 10_000_000_000, 3_600_000_000_000, 90_250_000_000, 600_000_000_000, 30_000_000_000]
CACHE_MAX_MS = 2000   # a case with a cache and no ticks must be over within this time (else it is repeated) ...
# ... and every TTL of such a case has a cache lifetime (TTL - 5 s) that is not positive or at least twice as long
assert all(t is None or t <= 5_000_000_000 or t - 5_000_000_000 >= 2 * CACHE_MAX_MS * 10**6 for t in TTLS + CACHED_TTLS)


def gen_signer_case(rng, pool, cache=None):
    """cache: None = decide here; True: the finalizers run with the process-wide in-memory cache in the request
    context, subjects and rule-level variants are drawn from small pools so that cache entries are met again"""
    if cache is None:
        cache = rng.random() < 0.5
    allow_bad = rng.random() < 0.6
    keys = pick_keys(rng, pool, allow_bad)
    ids = Ids()
    templates = gen_templates(rng, rng.choice([1, 2, 3]))
    nh = rng.choice([1, 1, 1, 2, 2, 3])
    holders = [gen_holder(rng, i, keys, ids, templates, allow_bad) for i in range(nh)]
    if nh > 1 and rng.random() < (0.5 if cache else 0.3):
        # a second finalizer on a copy of the first one's key store (same keys, same ids)
        holders[1]["store"] = copy.deepcopy(holders[0]["store"])
        holders[1]["raw"] = raw_of(holders[1]["store"])
        holders[1]["password"] = holders[0]["password"]
        holders[1]["key_id"] = holders[0]["key_id"]
        if cache and rng.random() < 0.6:
            # ... and the same issuer name: the two signers have the same hash
            holders[1]["name"] = holders[0]["name"]
            if rng.random() < 0.5:
                for f in ("ttl_ns", "tpl", "claims_tpl"):
                    holders[1][f] = holders[0][f]
    subjects = variants = None
    if cache:
        for h in holders:
            if rng.random() < 0.7:
                h["ttl_ns"] = rng.choice(CACHED_TTLS)   # mostly TTLs above the cache leeway: tokens are stored
        subjects = [gen_subject(rng) for _ in range(rng.choice([1, 2, 2, 3]))]
        if rng.random() < 0.5:
            # same subject id, other attributes / outputs: another cache entry
            s0 = subjects[0]
            subjects.append((s0[0], dict(s0[1], age=s0[1]["age"] + 1), s0[2]) if rng.random() < 0.5 else
                            (s0[0], s0[1], dict(s0[2], n=s0[2]["n"] + 1)))
        # the prototype, a variant that differs from it in the TTL only (they must not share tokens), others
        variants = [None, None, {"ttl_ns": rng.choice(CACHED_TTLS[1:]), "tpl": None, "claims_tpl": None}] + \
                   [gen_override(rng, templates) for _ in range(rng.choice([0, 1, 2]))]
        if rng.random() < 0.4:
            # an override that spells out the prototype's own TTL: same cache entries as the prototype
            h0 = holders[0]
            variants.append({"ttl_ns": h0["ttl_ns"] if h0["ttl_ns"] else 300_000_000_000, "tpl": None,
                             "claims_tpl": None})
    ops = []
    for _ in range(rng.choice([3, 4, 5, 6, 8, 10]) + (2 if cache else 0)):
        r = rng.random()
        if r < (0.7 if cache else 0.6):
            earlier = [o for o in ops if o["op"] == "sign"]
            if cache and earlier and rng.random() < 0.35:
                ops.append(copy.deepcopy(rng.choice(earlier)))   # the same execution again: served from the cache?
                ops[-1].pop("inside", None)
            else:
                ops.append(gen_sign(rng, nh, templates, holders, subjects, variants))
            if cache and ops[-1]["sub"] is not None and rng.random() < 0.12:
                # the key store of the executing finalizer is reloaded while Execute runs (after the cache key has
                # been calculated, before the signer is asked); often followed by a reload that brings the key back
                h = ops[-1]["h"]
                store = gen_store(rng, keys, ids, holders[h]["password"], allow_bad, want_kid=holders[h]["key_id"])
                ops[-1]["inside"] = {"store": store, "raw": raw_of(store)}
                if rng.random() < 0.6:
                    back = [holders[h]["store"]] + [o["store"] for o in ops[:-1] if o["op"] == "reload" and o["h"] == h]
                    store = copy.deepcopy(rng.choice(back))
                    ops.append({"op": "reload", "h": h, "store": store, "raw": raw_of(store)})
                    ops.append(copy.deepcopy(ops[-2]))
                    ops[-1].pop("inside", None)
        elif r < (0.8 if cache else 0.78):
            ops.append({"op": "jwks"})
        else:
            h = rng.randrange(nh)
            if cache and rng.random() < 0.4:
                # reload of an unchanged / earlier store: the active key stays or comes back
                earlier = [holders[h]["store"]] + [o["store"] for o in ops if o["op"] == "reload" and o["h"] == h]
                store = copy.deepcopy(rng.choice(earlier))
            else:
                store = gen_store(rng, keys, ids, holders[h]["password"], allow_bad, want_kid=holders[h]["key_id"])
            ops.append({"op": "reload", "h": h, "store": store, "raw": raw_of(store)})
    if not any(o["op"] == "jwks" for o in ops):
        ops.append({"op": "jwks"})
    case = {"fam": "signer", "keys": [{"t": t, "n": n} for t, n in keys], "holders": holders, "ops": ops}
    if cache:
        case["cache"] = {"tick_ms": 0, "max_ms": CACHE_MAX_MS}
    return case


TICK_MS = 100


def tick_ttl(m, tick_ms=TICK_MS):
    """a TTL whose cache lifetime (TTL - 5 s) is m ticks and a half: an entry stored in tick a is alive in tick a + m
    and gone in tick a + m + 1, wherever inside the first 2/5 of their ticks the two operations happen"""
    return 5_000_000_000 + m * tick_ms * 10**6 + tick_ms * 10**6 // 2


def gen_timed_cache_case(rng, pool, tick_ms=TICK_MS):
    """token cache on the wall clock: one or two finalizers (fast keys), prototype and variants with cache lifetimes
    of 0.5 / 1.5 / 2.5 ticks (and never cached / cached for long), the same subjects again inside and outside the
    lifetime, reloads in between"""
    ec = [k for k in pool if not is_rsa(k[0])]
    keys = [list(k) for k in rng.sample(ec, 3)]
    ids = Ids()
    templates = gen_templates(rng, 2, reserved_p=0.3)
    short = [tick_ttl(m, tick_ms) for m in (0, 1, 1, 2, 2)]
    other = [2_000_000_000, 5_000_000_000, None, 3_600_000_000_000]
    nh = rng.choice([1, 1, 2])
    holders = []
    for i in range(nh):
        while True:
            h = gen_holder(rng, i, keys, ids, templates, allow_bad=False)
            if loadable_without_key_id(h["store"]):
                break
        h["key_id"] = ""
        h["ttl_ns"] = rng.choice(short + short + other)
        holders.append(h)
    if nh == 2 and rng.random() < 0.6:
        holders[1].update(store=copy.deepcopy(holders[0]["store"]), raw=raw_of(holders[0]["store"]),
                          password=holders[0]["password"], name=holders[0]["name"])
    subjects = [gen_subject(rng) for _ in range(2)]
    variants = [None, None, {"ttl_ns": rng.choice(short), "tpl": None, "claims_tpl": None},
                gen_override(rng, templates, short + other[:2])]
    ops = []
    tick = 0
    while tick < 9 and len(ops) < 10:
        if ops and rng.random() < 0.15:
            h = rng.randrange(nh)
            store = copy.deepcopy(holders[h]["store"]) if rng.random() < 0.5 else \
                gen_store(rng, keys, ids, holders[h]["password"], allow_bad=False)
            ops.append({"op": "reload", "h": h, "store": store, "raw": raw_of(store)})
            tick += 1
            continue
        op = gen_sign(rng, nh, templates, holders, subjects, variants)
        if ops and rng.random() < 0.5:
            # the previous execution again (same instance, same subject): inside or outside the lifetime
            prev = next((o for o in reversed(ops) if o["op"] == "sign"), None)
            if prev is not None:
                op = copy.deepcopy(prev)
        if op["sub"] is None:
            op["sub"] = subjects[0][0]
            set_renders(op, templates, holders)
        op["at"] = tick
        ops.append(op)
        tick += rng.choice([0, 1, 1, 1, 2, 3])
    ops.append({"op": "jwks"})
    return {"fam": "signer", "keys": [{"t": t, "n": n} for t, n in keys], "holders": holders, "ops": ops,
            "cache": {"tick_ms": tick_ms, "max_ms": 0}}


EXPIRES_MS = 3000        # certificates of a case with "expiry_clock" run out this long after its start ...
AFTER_EXPIRY_MS = 3100   # ... and what is to happen after that instant is not started before this one
# (X.509 instants are whole seconds: the real NotAfter lies in the last second before EXPIRES_MS. The harness checks for
# every operation that it ran on the side of the real instant the model has it on and repeats the case otherwise.)


def cert_validity(stores):
    """[[cid, notBefore, notAfter]] in milliseconds since the start of the case for every certificate of the stores
    that runs out while the case runs (all others are valid throughout)"""
    rows = {}
    for st in stores:
        for b in st.get("blocks", []):
            if b["t"] in ("cert", "ca") and b.get("expires_ms"):
                rows[b["cid"]] = [b["cid"], -3_600_000, b["expires_ms"]]
    return [rows[k] for k in sorted(rows)]


def gen_expiry_case(rng, pool, kind, cache=None):
    """The signing certificate (kind "leaf") or the CA that issued it (kind "ca") runs out while heimdall is up: tokens
    and the key set before and after that instant, a reload of the unchanged store after it (refused: the certificate
    is judged at load time), then possibly the renewed certificate for the same key, or another key."""
    if cache is None:
        cache = rng.random() < 0.5
    ec = [k for k in pool if not is_rsa(k[0])]
    keys = [list(k) for k in rng.sample(ec, 3)]
    ids = Ids()
    templates = gen_templates(rng, 1, reserved_p=0.3)
    while templates[0]["members"] is None:
        templates = gen_templates(rng, 1, reserved_p=0.3)
    xkid = rng.choice(["", "", "k1", "sig-2024"])
    ski = rng.choice(SKIS + [""])
    fmt = rng.choice(["pkcs8", "sec1"])

    def store_of(expiring, other_first=False):
        leaf = {"t": "cert", "k": 0, "cid": ids.next(), "ski": ski, "usage": "sig"}
        blocks = [{"t": "key", "k": 0, "fmt": fmt, "xkid": xkid}, leaf]
        if kind == "ca":
            leaf["ca"] = 1
            ca = {"t": "ca", "ca": 1, "cid": 901}
            if expiring:
                ca["expires_ms"] = EXPIRES_MS
            else:
                leaf["ca"], ca = 2, {"t": "ca", "ca": 2, "cid": 902}    # issued anew by another, long-lived CA
            blocks.insert(rng.randrange(len(blocks) + 1), ca)
        elif expiring:
            leaf["expires_ms"] = EXPIRES_MS
        if with_other:
            blocks.append({"t": "key", "k": 1, "fmt": "pkcs8", "xkid": "other"})
        return {"blocks": blocks}

    with_other = rng.random() < 0.5
    store = store_of(True)
    renewed = store_of(False)
    another = {"blocks": [{"t": "key", "k": 2, "fmt": "pkcs8", "xkid": "next"}]}
    h = {"id": "jwt0", "key_id": "", "name": rng.choice(ISSUERS), "password": "",
         "ttl_ns": 600_000_000_000 if cache else rng.choice([None, 2_000_000_000, 90_250_000_000, 600_000_000_000]),
         "tpl": rng.choice([None, 0]), "claims_tpl": None, "header": rng.choice(HEADERS), "store": store,
         "raw": raw_of(store)}
    if h["tpl"] is not None:
        h["claims_tpl"] = templates[0]["text"]
    subjects = [gen_subject(rng) for _ in range(2)]
    while subjects[1][0] == subjects[0][0]:
        subjects[1] = gen_subject(rng)

    def sign(who, at):
        sub, attrs, outputs = copy.deepcopy(subjects[who])
        op = {"op": "sign", "h": 0, "sub": sub, "attrs": attrs, "outputs": outputs, "ov": None, "at_ms": at}
        set_renders(op, templates, [h])
        return op

    def reload(st, at):
        st = copy.deepcopy(st)
        return {"op": "reload", "h": 0, "store": st, "raw": raw_of(st), "at_ms": at}

    a = AFTER_EXPIRY_MS
    ops = [sign(0, 0), {"op": "jwks", "at_ms": 0}]
    if rng.random() < 0.5:
        ops.append(reload(store, 0))          # while the certificate is valid the unchanged store loads again
    # after the expiry: the same subject again (with a cache: the token of before), another one, the key set
    ops += [sign(0, a), sign(1, a), {"op": "jwks", "at_ms": a}]
    # the store with the same certificates is refused now (a further key makes visible whether it was): nothing changes
    late = copy.deepcopy(store)
    late["blocks"].append({"t": "key", "k": 2, "fmt": "pkcs8", "xkid": "late"})
    ops += [reload(late, a), sign(rng.choice([0, 1]), a), {"op": "jwks", "at_ms": a}]
    r = rng.random()
    if r < 0.4:
        ops += [reload(renewed, a), sign(0, a), {"op": "jwks", "at_ms": a}]
    elif r < 0.6:
        ops += [reload(another, a), sign(0, a), {"op": "jwks", "at_ms": a}]
    case = {"fam": "signer", "keys": [{"t": t, "n": n} for t, n in keys], "holders": [h], "ops": ops,
            "expiry_clock": True, "cert_validity": cert_validity([store, renewed])}
    if cache:
        # every TTL of the case is 10 minutes: whatever is stored stays for the whole case, no deadline
        case["cache"] = {"tick_ms": 0, "max_ms": 0}
    return case


def gen_conc_case(rng, pool):
    keys = pick_keys(rng, pool, False)
    while len(keys) < 4:
        extra = [list(k) for k in pool if list(k) not in keys]
        keys.append(rng.choice(extra))
    ids = Ids()
    templates = [gen_template(rng, reserved_p=0.6) for _ in range(2)]
    nh = rng.choice([1, 1, 2])
    holders = []
    versions = []
    for i in range(nh):
        h = gen_holder(rng, i, keys, ids, templates, allow_bad=False)
        while not loadable_without_key_id(h["store"]):
            h = gen_holder(rng, i, keys, ids, templates, allow_bad=False)
        h["key_id"] = ""
        h["ttl_ns"] = rng.choice([None, 2_000_000_000, 1_500_000_000])
        vs = [h["store"]]
        for _ in range(rng.choice([2, 3, 4])):
            if rng.random() < 0.12:
                vs.append({"raw": rng.choice(["garbage", "unsupported"])})
            else:
                vs.append(gen_store(rng, keys, ids, h["password"], allow_bad=False))
        holders.append(h)
        versions.append(vs)
    signers = []
    for _ in range(rng.choice([2, 3])):
        signers.append([gen_sign(rng, nh, templates, holders) for _ in range(rng.choice([4, 6, 8]))])
        for op in signers[-1]:
            op["ov"] = None if rng.random() < 0.7 else op["ov"]
            if op["sub"] is None:
                op["sub"] = "alice"
            op["renders"] = {str(t): render(templates[t], op["sub"], op["attrs"], op["outputs"])
                             for t in {holders[op["h"]]["tpl"], (op["ov"] or {}).get("tpl")} if t is not None}
    readers = [{"n": rng.choice([4, 6])} for _ in range(rng.choice([1, 2]))]
    reloaders = []
    for h in range(nh):
        seq = [{"op": "reload", "h": h, "v": v, "store": versions[h][v], "raw": raw_of(versions[h][v])}
               for v in range(1, len(versions[h]))]
        if rng.random() < 0.4 and len(seq) >= 2:
            cut = rng.randrange(1, len(seq))
            reloaders += [seq[:cut], seq[cut:]]   # two goroutines reloading the same holder
        else:
            reloaders.append(seq)
    final = []
    for h in range(nh):
        good = [v for v in range(len(versions[h])) if loadable_without_key_id(versions[h][v])]
        v = rng.choice(good)
        final.append({"op": "reload", "h": h, "v": v, "store": versions[h][v], "raw": raw_of(versions[h][v])})
    for h in range(nh):
        final.append(gen_sign(rng, nh, templates, holders))
        final[-1]["h"] = h
        final[-1]["ov"] = None
        if final[-1]["sub"] is None:
            final[-1]["sub"] = "bob"
        final[-1]["renders"] = {str(holders[h]["tpl"]): render(templates[holders[h]["tpl"]], final[-1]["sub"],
                                                               final[-1]["attrs"], final[-1]["outputs"])} \
            if holders[h]["tpl"] is not None else {}
    final.append({"op": "jwks"})
    return {"fam": "signerconc", "keys": [{"t": t, "n": n} for t, n in keys], "holders": holders,
            "versions": versions, "signers": signers, "readers": readers, "reloaders": reloaders, "final": final,
            "seed": rng.randrange(1 << 30)}


def gen_watch_case(rng, pool):
    """one finalizer registered with the real file watcher; its key store file is rewritten in place"""
    keys = pick_keys(rng, pool, False)
    ids = Ids()
    templates = [gen_template(rng, reserved_p=0.6)]
    while True:
        h = gen_holder(rng, 0, keys, ids, templates, allow_bad=False)
        if loadable_without_key_id(h["store"]):
            break
    h["key_id"] = ""
    while True:
        nxt = gen_store(rng, keys, ids, h["password"], allow_bad=False)
        if loadable_without_key_id(nxt) and kids_of(nxt) != kids_of(h["store"]):
            break
    def obs():
        s = gen_sign(rng, 1, templates, [h])
        s["ov"] = None
        if s["sub"] is None:
            s["sub"] = "alice"
        s["renders"] = {str(h["tpl"]): render(templates[h["tpl"]], s["sub"], s["attrs"], s["outputs"])} \
            if h["tpl"] is not None else {}
        return [s, {"op": "jwks"}]
    return {"fam": "signerwatch", "keys": [{"t": t, "n": n} for t, n in keys], "holders": [h], "before": obs(),
            "next": nxt, "next_raw": raw_of(nxt), "after": obs(), "wait_ms": 4000}


def grid_cases():
    """deterministic sweeps: every supported key type x PEM encoding x certificate option as a one-entry store, and
    every subset of the reserved claim names set by a template (value kinds rotating)"""
    cases = []
    types = ["rsa2048", "rsa3072", "rsa4096", "p256", "p384", "p521"]
    for ti, t in enumerate(types):
        for fmt in ["pkcs8", "pkcs1" if is_rsa(t) else "sec1", "enc"]:
            for copt in ["none", "self_ski", "self_noski", "ca"]:
                blocks = [{"t": "key", "k": 0, "fmt": fmt, "xkid": ""}]
                if copt == "self_ski":
                    blocks.append({"t": "cert", "k": 0, "cid": 1, "ski": "ab0%d" % ti, "usage": "sig"})
                elif copt == "self_noski":
                    blocks.append({"t": "cert", "k": 0, "cid": 1, "ski": "", "usage": "sig"})
                elif copt == "ca":
                    blocks = [{"t": "cert", "k": 0, "cid": 1, "ski": "", "usage": "sig", "ca": 1}] + blocks + \
                             [{"t": "ca", "ca": 1, "cid": 901}]
                store = {"blocks": blocks}
                h = {"id": "jwt0", "key_id": "", "name": "", "password": "pw" if fmt == "enc" else "", "ttl_ns": None,
                     "tpl": None, "claims_tpl": None, "header": None, "store": store, "raw": raw_of(store)}
                cases.append({"fam": "signer", "keys": [{"t": t, "n": 0}], "holders": [h],
                              "ops": [{"op": "sign", "h": 0, "sub": "alice", "attrs": {}, "outputs": {}, "ov": None,
                                       "renders": {}}, {"op": "jwks"}]})
    # what the key store says about every key kind the Go standard library can generate: support and algorithm
    kinds8 = types + ["rsa1024", "p224"]
    cases.append({"fam": "signer", "keys": [{"t": t, "n": 0} for t in kinds8], "holders": [],
                  "ops": [{"op": "alg", "k": k} for k in range(len(kinds8))]})
    kinds = ["evil", 1, None, {"sub": "nested"}, [1, 2], True, 1.5, ""]
    store = {"blocks": [{"t": "key", "k": 0, "fmt": "pkcs8", "xkid": "grid"}]}
    for mask in range(64):
        members = [[RESERVED[b], kinds[(mask + b) % len(kinds)]] for b in range(6) if mask >> b & 1]
        members.append(["aud", "api"])
        text = "{" + ", ".join("%s: %s" % (json.dumps(n), json.dumps(v)) for n, v in members) + "}"
        h = {"id": "jwt0", "key_id": "grid", "name": "grid-issuer", "password": "", "ttl_ns": 7_000_000_000, "tpl": 0,
             "claims_tpl": text, "header": None, "store": store, "raw": raw_of(store)}
        cases.append({"fam": "signer", "keys": [{"t": "p256", "n": 0}], "holders": [h],
                      "ops": [{"op": "sign", "h": 0, "sub": "subject-%d" % mask, "attrs": {}, "outputs": {}, "ov": None,
                               "renders": {"0": members}}]})
    return cases + shared_key_grid()


def shared_key_grid():
    """deterministic sweep: key stores that list one key under several ids (adjacent listings, another key in between,
    the first listing without X-Key-ID so that its id is computed / taken from the certificate), the finalizer
    configured with each of the ids in turn and with none; one token and one read of the key set each"""
    layouts = [
        [(0, "signer-2023"), (0, "signer-2024")],
        [(0, "signer-2023"), (1, "other"), (0, "signer-2024")],
        [(1, "other"), (0, ""), (0, "signer-2024"), (0, "signer-2025")],
    ]
    cases = []
    for t in ["p256", "rsa2048"]:
        for li, layout in enumerate(layouts):
            for with_cert in ([False, True] if li == 2 else [False]):
                blocks = [{"t": "key", "k": k, "fmt": "pkcs8", "xkid": x} for k, x in layout]
                if with_cert:
                    blocks.append({"t": "cert", "k": 0, "cid": 1, "ski": "ab07", "usage": "sig"})
                store = {"blocks": blocks}
                for key_id in [""] + [x for _, x in layout if x] + (["ab07"] if with_cert else []):
                    h = {"id": "jwt0", "key_id": key_id, "name": "shared", "password": "", "ttl_ns": None, "tpl": None,
                         "claims_tpl": None, "header": None, "store": store, "raw": raw_of(store)}
                    cases.append({"fam": "signer", "keys": [{"t": t, "n": 0}, {"t": "p384", "n": 0}], "holders": [h],
                                  "ops": [{"op": "sign", "h": 0, "sub": "alice", "attrs": {}, "outputs": {}, "ov": None,
                                           "renders": {}}, {"op": "jwks"}]})
    return cases
