#!/bin/sh
# usage: evalbenign.sh <dir> <checks...>
d=$1; shift
python3 /verif/tools/benign_eval.py $d "$@" 2>&1 | python3 -c "
import sys,json
try:
    d=json.load(sys.stdin)
except Exception as e:
    print('EVAL ERROR', e); sys.exit(0)
flags={k:d[k] for k in d if k not in ('checks','change')}
ok=flags.get('patch_applies') and flags.get('builds') and not flags.get('existing_test_failures')
print('STALE (patch no longer applies to HEAD)' if flags.get('stale') else 'valid' if ok else 'INVALID '+str(flags))
for k,v in d['checks'].items(): print('   ',k,'ALARM' if v['exit'] else 'quiet', (' | '.join(v['lines'])[:400] if v['lines'] else ''))"
