"""C11: relate the field lists the extractor found (ordered hash writes, labelled with the Go expression written) to the
*inputs* of the key functions by behaviour instead of by text.

The extractor knows the structure of a key function from the calls it makes (`hashx.WriteString`, `WriteStrings`,
`WriteStringMap`, a raw 8-byte integer, a constant, a conditional write); how the programmer names or packages the values
(parameters, a struct carrying two of them, locals) is irrelevant for the key. So the labels are bound here: the real
function is evaluated for two probe configurations in which every input has a distinctive value, and the assignment
label -> input is searched for which SHA-256 of the bytes the field list writes equals the real key for both probes. The
labels of the generated module are then replaced by the names of the inputs (`payload`, `values`, `subject`, ...), which is
what `Spec/CacheDeps.lean` and the environments of the correspondence run talk about.

A function for which no assignment reproduces the real keys stays as extracted (its obligations fail, the run reports a
broken tie without a failing input) and is excluded from the model comparison."""
import hashlib
import itertools
import re
import struct

FIELD_RE = re.compile(r'^\s*(\.\w+.*?)(?:,)?\s*$')


def _unq(s):
    return s.replace('\\"', '"').replace("\\\\", "\\")


def _q(s):
    return '"' + s.replace("\\", "\\\\").replace('"', '\\"') + '"'


def _bytes_lit(s):
    s = s.strip()[1:-1].strip()
    return bytes(int(x) for x in s.split(",")) if s else b""


STR = r'"((?:[^"\\]|\\.)*)"'


def parse_field(t):
    t = t.strip().rstrip(",").strip()
    m = re.match(r"^\.opt " + STR + r" \((.*)\)$", t)
    if m:
        return {"k": "opt", "c": _unq(m.group(1)), "f": parse_field(m.group(2))}
    m = re.match(r"^\.fixed (\d+) " + STR + "$", t)
    if m:
        return {"k": "fixed", "n": int(m.group(1)), "s": _unq(m.group(2))}
    m = re.match(r"^\.joined (\[[^\]]*\]) " + STR + "$", t)
    if m:
        return {"k": "joined", "sep": _bytes_lit(m.group(1)), "s": _unq(m.group(2))}
    m = re.match(r"^\.tag (\[[^\]]*\])$", t)
    if m:
        return {"k": "tag", "b": _bytes_lit(m.group(1))}
    m = re.match(r"^\.(raw|u64|lp|lpList|mapRaw|lpMap) " + STR + "$", t)
    if m:
        return {"k": m.group(1), "s": _unq(m.group(2))}
    raise ValueError("cannot parse field: " + t)


def parse_gen(text):
    """{function name: [field]} of a generated module"""
    fns = {}
    for m in re.finditer(r"^def (\w+) : List Field := \[\n(.*?)\]\n\n", text, re.S | re.M):
        fields = []
        for line in m.group(2).split("\n"):
            line = line.strip()
            if line:
                fields.append(parse_field(line))
        fns[m.group(1)] = fields
    return fns


def le64(n):
    return struct.pack("<Q", n % (1 << 64))


def lp(b):
    return le64(len(b)) + b


def encode_field(f, env):
    k = f["k"]
    if k in ("raw", "fixed"):
        return env["str"].get(f["s"], b"")
    if k == "u64":
        return le64(env["num"].get(f["s"], 0))
    if k == "lp":
        return lp(env["str"].get(f["s"], b""))
    if k == "joined":
        return f["sep"].join(env["lst"].get(f["s"], []))
    if k == "lpList":
        l = env["lst"].get(f["s"], [])
        return le64(len(l)) + b"".join(lp(x) for x in l)
    if k == "mapRaw":
        return b"".join(a + b for a, b in env["map"].get(f["s"], []))
    if k == "lpMap":
        m = sorted(env["map"].get(f["s"], []), key=lambda kv: kv[0])
        return le64(len(m)) + b"".join(lp(a) + lp(b) for a, b in m)
    if k == "tag":
        return lp(f["b"])
    if k == "opt":
        return encode_field(f["f"], env) if env["has"].get(f["c"], False) else b""
    raise ValueError(k)


def resolve(env, fns):
    """driver-format environment (hex strings, nested `sub`) -> bytes; nested digests through the (bound) lists `fns`"""
    r = {"str": {k: bytes.fromhex(v) for k, v in (env.get("str") or {}).items()},
         "num": dict(env.get("num") or {}),
         "lst": {k: [bytes.fromhex(x) for x in v] for k, v in (env.get("lst") or {}).items()},
         "map": {k: [(bytes.fromhex(a), bytes.fromhex(b)) for a, b in v] for k, v in (env.get("map") or {}).items()},
         "has": dict(env.get("has") or {})}
    for label, spec in (env.get("sub") or {}).items():
        if spec["fn"] not in fns:
            return None
        inner = resolve(spec.get("env") or {}, fns)
        if inner is None:
            return None
        r["str"][label] = hashlib.sha256(b"".join(encode_field(f, inner) for f in fns[spec["fn"]])).digest()
    return r


CLASS = {"raw": "str", "fixed": "str", "lp": "str", "u64": "num", "joined": "lst", "lpList": "lst", "mapRaw": "map",
         "lpMap": "map"}


def slots(fields):
    """(class, raw label) of every label that has to be bound; an optional field is one slot of class `opt`"""
    out = []
    for f in fields:
        if f["k"] == "tag":
            continue
        if f["k"] == "opt":
            s = ("opt", (f["c"], f["f"].get("s")))
        else:
            s = (CLASS[f["k"]], f["s"])
        if s not in out:
            out.append(s)
    return out


def rename(f, mp):
    if f["k"] == "tag":
        return f
    if f["k"] == "opt":
        name = mp[("opt", (f["c"], f["f"].get("s")))]
        return dict(f, c=name + "?", f=dict(f["f"], s=name))
    return dict(f, s=mp[(CLASS[f["k"]], f["s"])])


def bind(fields, probes, limit=200000):
    """probes: [(resolved semantic environment, real key bytes)]. Returns the fields with semantic labels, or None."""
    sl = slots(fields)
    cands = {"str": sorted(probes[0][0]["str"]), "num": sorted(probes[0][0]["num"]), "lst": sorted(probes[0][0]["lst"]),
             "map": sorted(probes[0][0]["map"]),
             "opt": sorted(k[:-1] for k in probes[0][0]["has"] if k.endswith("?"))}
    per_class = {}
    for cls in cands:
        mine = [s for s in sl if s[0] == cls]
        if len(mine) > len(cands[cls]):
            return None
        per_class[cls] = (mine, list(itertools.permutations(cands[cls], len(mine))))
    total = 1
    for mine, perms in per_class.values():
        total *= max(1, len(perms))
    if total > limit:
        return None
    classes = [c for c in per_class if per_class[c][0]]
    for combo in itertools.product(*[per_class[c][1] for c in classes]):
        mp = {}
        for c, perm in zip(classes, combo):
            for s, name in zip(per_class[c][0], perm):
                mp[s] = name
        cand = [rename(f, mp) for f in fields]
        if all(hashlib.sha256(b"".join(encode_field(f, env) for f in cand)).digest() == key for env, key in probes):
            return cand
    return None


def lean_field(f):
    k = f["k"]
    if k == "opt":
        return ".opt %s (%s)" % (_q(f["c"]), lean_field(f["f"]))
    if k == "fixed":
        return ".fixed %d %s" % (f["n"], _q(f["s"]))
    if k == "joined":
        return ".joined [%s] %s" % (", ".join(str(b) for b in f["sep"]), _q(f["s"]))
    if k == "tag":
        return ".tag [%s]" % ", ".join(str(b) for b in f["b"])
    return ".%s %s" % (k, _q(f["s"]))


def rewrite(text, bound):
    """the generated module with the field lists of the bound functions replaced"""
    def repl(m):
        name = m.group(1)
        if name not in bound:
            return m.group(0)
        head = m.group(0).split(":= [\n")[0]
        return head + ":= [\n  " + ",\n  ".join(lean_field(f) for f in bound[name]) + "]\n\n"
    return re.sub(r"^def (\w+) : List Field := \[\n(.*?)\]\n\n", repl, text, flags=re.S | re.M)
