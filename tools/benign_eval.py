#!/usr/bin/env python3
"""Evaluate a behaviour-preserving change (false-alarm test): tools/benign_eval.py <dir with patch.diff> <ID> [<ID> ...]
Scratch worktree of /repo HEAD, patch applies and builds, existing tests of the touched packages pass, then the given
checks run against the patched worktree; every check is expected to exit 0. A check that reports
`no-failing-input-found` only lost its tie (allowed by design, but worth loosening where that loses nothing); a check
that reports a concrete failing input on such a change is wrong."""
import json
import os
import subprocess
import sys

sys.path.insert(0, os.path.dirname(os.path.abspath(__file__)))
import vlib  # noqa: E402
from seed_eval import sh  # noqa: E402


def main():
    seed = os.path.abspath(sys.argv[1])
    ids = sys.argv[2:]
    tier = os.environ.get("VERIF_TIER", "quick")
    wt = "/tmp/wt_benign_" + os.path.basename(os.path.dirname(seed)) + "_" + os.path.basename(seed)
    env = vlib.go_env()
    sh(f"git -C /repo worktree remove --force {wt}")
    sh(f"git -C /repo worktree add -f {wt} HEAD")
    res = {"change": seed}
    try:
        rc, out = sh(f"git apply {seed}/patch.diff", cwd=wt)
        if rc != 0:
            # the tree has moved on since the patch was written (fix commits): try a three-way merge
            rc, out = sh(f"git apply -3 {seed}/patch.diff", cwd=wt)
            res["patch_applied_three_way"] = rc == 0
            if rc != 0:
                # stale: written against a tree that fix commits have changed since
                res["patch_applies"] = False
                res["stale"] = True
                res["checks"] = {}
                print(json.dumps(res, indent=1))
                return
        res["patch_applies"] = rc == 0
        rc, out = sh("go build ./...", cwd=wt, env=env)
        res["builds"] = rc == 0
        touched = sorted({os.path.dirname(l[6:]) for l in open(os.path.join(seed, "patch.diff")) if l.startswith("+++ b/")})
        pk = " ".join("./" + t + "/..." for t in touched)
        rcb, outb = sh(f"go test -count=1 {pk} ./internal/rules/ 2>&1 | grep '^--- FAIL'", cwd=wt, env=env)
        res["existing_test_failures"] = [l for l in outb.splitlines() if "without_read_permissions" not in l and
                                         "TestProviderLifecycle " not in l and "NotReadable" not in l and "can't_read" not in l
                                         and "TestKoanfFromYaml" not in l and "TestCreateKeyStoreFromPEMFile" not in l
                                         and "TestNewListener" not in l]
        res["checks"] = {}
        e2 = dict(os.environ, VERIF_REPO=wt)
        for pid in ids:
            rc, out = sh(f"python3 {vlib.VERIF}/tools/check.py {pid} --tier {tier}", cwd=vlib.VERIF, env=e2)
            lines = [l for l in out.splitlines() if l.startswith("VIOLATION") or l.startswith("  violation")]
            res["checks"][pid] = {"exit": rc, "lines": [l[:400] for l in lines[:4]]}
    finally:
        sh(f"git -C /repo worktree remove --force {wt}")
        sh(f"git -C {vlib.VERIF} checkout -- lean/HeimdallModel/Gen")
    print(json.dumps(res, indent=1))


if __name__ == "__main__":
    main()
