"""Generator of `mech` cases (C17): a mechanism catalogue, then creations of rule-level variants in random order,
executions and concurrent executions. `SERVER` / `KEYSTORE` are placeholders the Go harness replaces by its loopback
test server and its key store file. All values are spelled canonically (durations as `<n>s` / `<n>m`). Besides the
ordinary override fragments every overridable key has a zero-valued fragment (`""`, `[]`, `{}`, `0s`, `false`: ZERO)
and every type a few fragments whose *values* its decoder / validator rejects (BAD; such operations carry
`invalid: true`, the model takes the rejection as given and the run checks that nothing was changed by the failed
attempt).  Two families of histories on one factory come on top: look-alike overrides (LOOKALIKE: configs that print
alike but differ in type / structure) and named templates (NT_SITES: template texts that declare and use
`define` / `block` / `template` with the same name defined differently in prototype, overrides and other mechanisms),
each with a grid (`lookalike_grid`, `named_grid`) for the targeted search.  A third family varies what the HTTP client
of an endpoint is built from (`retry`, `http_cache.enabled`, `http_cache.default_ttl`: CLIENT_SETTINGS) over several
mechanisms of one process that talk to the same host, and observes the requests the endpoint receives
(`gen_client_case`, `client_grid`)."""

SRV = "http://SERVER"


def pick(rng, xs):
    return xs[rng.randrange(len(xs))]


def maybe(rng, p=0.5):
    return rng.random() < p


def subset(rng, d, p=0.5, at_least=0):
    keys = [k for k in d if maybe(rng, p)]
    while len(keys) < at_least:
        k = pick(rng, list(d))
        if k not in keys:
            keys.append(k)
    return {k: d[k] for k in d if k in keys}


# ---------------------------------------------------------------------------------------------------------------
# catalogue entries per type: (config, list of override fragments, request generator)

def jwt_req(rng):
    return {"jwt": {"sub": pick(rng, ["alice", "bob"]), "aud": pick(rng, [["a1"], ["a2"], ["a1", "a2"]]),
                    "scp": pick(rng, [["s1"], ["s1", "s2"], ["x"]])}}


def tok_req(rng):
    return {"token": "tok|aud=%s|scope=%s|sub=%s" % (pick(rng, ["a1", "a2", "a1,a2"]), pick(rng, ["s1", "s1 s2", "x"]),
                                                      pick(rng, ["carol", "dave"]))}


def plain_req(rng):
    r = {"method": pick(rng, ["GET", "POST"]), "path": pick(rng, ["/x", "/y/z?q=1"])}
    h = {}
    if maybe(rng):
        h["X-A"] = pick(rng, ["1", "2"])
    if maybe(rng):
        h["X-User"] = pick(rng, ["u7", "u8"])
    if maybe(rng, 0.3):
        h["Authorization"] = pick(rng, ["tok1", "Bearer tok2"])
    if h:
        r["headers"] = h
    if maybe(rng, 0.3):
        r["cookies"] = {"c1": pick(rng, ["v1", "v2"]), "sid": "s9"}
    if maybe(rng, 0.3):
        r["sub"] = {"id": pick(rng, ["u1", "u2"]), "attrs": {"role": pick(rng, ["admin", "guest"])}}
    return r


def basic_req(rng):
    return {"basic": pick(rng, ["u1:p1", "u2:p1", "u1:p2", "u2:p2", "zz:zz"])}


ASSERTION_OVERRIDES = [
    {"issuers": ["iss1"]}, {"issuers": [SRV]}, {"issuers": ["other"]}, {"audience": ["a1"]}, {"audience": ["a2"]},
    {"scopes": ["s1"]}, {"scopes": {"matching_strategy": "wildcard", "values": ["s*"]}},
    {"allowed_algorithms": ["ES256"]}, {"allowed_algorithms": ["PS256"]}, {"validity_leeway": "5s"},
]


def token_authn_overrides(rng):
    ov = {}
    if maybe(rng, 0.7):
        a = {}
        for frag in [pick(rng, ASSERTION_OVERRIDES) for _ in range(rng.choice([1, 1, 2, 3]))]:
            a.update(frag)
        ov["assertions"] = a
    if maybe(rng, 0.4):
        ov["cache_ttl"] = pick(rng, ["0s", "30s", "7m"])
    if maybe(rng, 0.3):
        ov["allow_fallback_on_error"] = pick(rng, [True, False])
    if not ov:
        ov["cache_ttl"] = "9s"
    return ov


# zero-valued fragments per (kind, type): the rule sets the key, to the zero value of its type
ASSERT_ZERO = [{"assertions": {"issuers": []}}, {"assertions": {"audience": []}}, {"assertions": {"allowed_algorithms": []}},
               {"assertions": {"validity_leeway": "0s"}}, {"assertions": {"scopes": []}}, {"cache_ttl": "0s"},
               {"allow_fallback_on_error": False}]
ZERO = {
    ("authenticator", "anonymous"): [{"subject": ""}],
    ("authenticator", "basic_auth"): [{"user_id": ""}, {"password": ""}, {"user_id": "u2", "password": ""},
                                      {"allow_fallback_on_error": False}],
    ("authenticator", "generic"): [{"cache_ttl": "0s"}, {"allow_fallback_on_error": False}],
    ("authenticator", "jwt"): ASSERT_ZERO,
    ("authenticator", "oauth2_introspection"): ASSERT_ZERO,
    ("authorizer", "remote"): [{"payload": ""}, {"expressions": []}, {"forward_response_headers_to_upstream": []},
                               {"values": {}}, {"cache_ttl": "0s"}],
    ("contextualizer", "generic"): [{"payload": ""}, {"forward_headers": []}, {"forward_cookies": []}, {"values": {}},
                                    {"cache_ttl": "0s"}, {"continue_pipeline_on_error": False}],
    ("finalizer", "jwt"): [{"claims": ""}],
    ("finalizer", "oauth2_client_credentials"): [{"scopes": []}, {"cache_ttl": "0s"},
                                                 {"header": {"name": "X-Other", "scheme": ""}}],
    ("error_handler", "www_authenticate"): [{"realm": ""}],
}
# fragments with a value the type's decoder / validator rejects (also zero values that are no legal setting)
BAD_TTL = [{"cache_ttl": "abc"}]
BAD_ASSERT = BAD_TTL + [{"assertions": {"scopes": {"matching_strategy": "nope", "values": ["a"]}}},
                        {"assertions": {"issuers": "iss1"}}]
BAD = {
    ("authenticator", "anonymous"): [{"subject": ["a"]}],
    ("authenticator", "basic_auth"): [{"allow_fallback_on_error": "maybe"}],
    ("authenticator", "generic"): BAD_TTL,
    ("authenticator", "jwt"): BAD_ASSERT,
    ("authenticator", "oauth2_introspection"): BAD_ASSERT,
    ("authorizer", "cel"): [{"expressions": [{"expression": "bad("}]}, {"expressions": []},
                            {"expressions": [{"expression": "1 + 1"}]}],
    ("authorizer", "remote"): BAD_TTL + [{"payload": "{{ bad"}, {"values": {"a": "{{ bad"}},
                                         {"expressions": [{"expression": "bad("}]}, {"payload": "fine", "expressions": [{"expression": "1 +"}]},
                                         {"forward_response_headers_to_upstream": "X-A"}],
    ("contextualizer", "generic"): BAD_TTL + [{"payload": "{{ bad"}, {"values": {"a": "{{ bad"}}, {"forward_headers": "X-A"},
                                              {"forward_cookies": ["c1"], "cache_ttl": "1 hour"}],
    ("finalizer", "header"): [{"headers": {}}, {"headers": {"X-A": "{{ bad"}}],
    ("finalizer", "cookie"): [{"cookies": {}}, {"cookies": {"a": "{{ bad"}}],
    ("finalizer", "jwt"): [{"ttl": "0s"}, {"ttl": "1s"}, {"claims": "{{ bad"}, {"ttl": "abc"}],
    ("finalizer", "oauth2_client_credentials"): BAD_TTL + [{"header": {"name": ""}}, {"header": {"scheme": "Own"}},
                                                           {"scopes": "s1"}],
}


def gen_entry(rng, kind, typ, idx):
    """returns (entry, override generator, request generator)"""
    mid = "%s%d" % (typ[:3], idx)
    e = {"kind": kind, "type": typ, "id": mid, "config": {}}
    cfg = e["config"]
    ovg = lambda r: {"bogus": 1}
    reqg = plain_req
    if kind == "authenticator":
        if typ == "anonymous":
            if maybe(rng):
                cfg["subject"] = "guest"
            ovg = lambda r: {"subject": pick(r, ["anon2", "nobody"])}
        elif typ == "basic_auth":
            cfg.update({"user_id": "u1", "password": "p1"})
            if maybe(rng, 0.3):
                cfg["allow_fallback_on_error"] = True
            ovg = lambda r: subset(r, {"user_id": "u2", "password": "p2", "allow_fallback_on_error": pick(r, [True, False])},
                                   0.5, 1)
            reqg = basic_req
        elif typ == "generic":
            ep = {"url": SRV + "/echo", "method": pick(rng, ["GET", "POST"])}
            if maybe(rng):
                ep["headers"] = {"X-K": pick(rng, ["k1", "k2"])}
            cfg.update({"identity_info_endpoint": ep, "subject": {"id": "sub"},
                        "authentication_data_source": [pick(rng, [{"header": "Authorization"}, {"cookie": "sid"},
                                                                  {"header": "X-User"}])]})
            if maybe(rng):
                cfg["forward_headers"] = ["X-A"]
            if maybe(rng, 0.3):
                cfg["forward_cookies"] = ["c1"]
            if maybe(rng, 0.4):
                cfg["payload"] = "ad={{ .AuthenticationData }}"
            if maybe(rng, 0.4):
                cfg["cache_ttl"] = pick(rng, ["10s", "0s"])
            ovg = lambda r: subset(r, {"cache_ttl": pick(r, ["0s", "20s"]), "allow_fallback_on_error": pick(r, [True, False])},
                                   0.5, 1)
        elif typ == "jwt":
            if maybe(rng):
                cfg["jwks_endpoint"] = {"url": SRV + "/jwks"}
                cfg["assertions"] = {"issuers": [SRV]}
            else:
                cfg["metadata_endpoint"] = {"url": SRV + "/.well-known/oauth-authorization-server"}
                if maybe(rng, 0.3):
                    cfg["metadata_endpoint"]["headers"] = {"X-M": "m1"}
                if maybe(rng):
                    cfg["assertions"] = {}
            if "assertions" in cfg and maybe(rng):
                cfg["assertions"]["audience"] = ["a1"]
            if "assertions" in cfg and not cfg["assertions"]:
                del cfg["assertions"]
            if maybe(rng, 0.3):
                cfg["cache_ttl"] = pick(rng, ["5m", "0s"])
            if maybe(rng, 0.2):
                cfg["jwt_source"] = [{"header": "Authorization", "scheme": "Bearer"}]
            ovg = token_authn_overrides
            reqg = jwt_req
        elif typ == "oauth2_introspection":
            if maybe(rng):
                cfg["introspection_endpoint"] = {"url": SRV + "/introspect?iss=iss1"}
                cfg["assertions"] = {"issuers": ["iss1"]}
            else:
                cfg["metadata_endpoint"] = {"url": SRV + "/.well-known/oauth-authorization-server"}
                if maybe(rng):
                    cfg["assertions"] = {"audience": ["a1"]}
            if maybe(rng, 0.3):
                cfg["cache_ttl"] = pick(rng, ["5m", "0s"])
            ovg = token_authn_overrides
            reqg = tok_req
        else:  # unauthorized
            ovg = lambda r: pick(r, [{"whatever": 1}, {"subject": "x"}])
    elif kind == "authorizer":
        if typ == "cel":
            cfg["expressions"] = [{"expression": "Subject.ID == 'u1'"}]
            ovg = lambda r: {"expressions": [pick(r, [{"expression": "Request.Method == 'GET'", "message": "only GET"},
                                                        {"expression": "Subject.Attributes.role == 'admin'"},
                                                        {"expression": "true"}])]}
        elif typ == "remote":
            cfg.update({"endpoint": {"url": SRV + "/echo", "method": "POST"}, "payload": "{{ .Subject.ID }}:{{ .Values.a }}",
                        "values": {"a": "x"}})
            if maybe(rng):
                cfg["values"]["b"] = "{{ .Request.Method }}"
            if maybe(rng):
                cfg["expressions"] = [{"expression": "Payload.method == 'POST'"}]
            if maybe(rng, 0.4):
                cfg["forward_response_headers_to_upstream"] = ["X-Echo"]
            if maybe(rng, 0.3):
                cfg["cache_ttl"] = "5s"
            ovg = lambda r: subset(r, {
                "payload": "p2:{{ .Values.a }}:{{ .Values.c }}", "values": pick(r, [{"a": "y"}, {"c": "w"}, {"a": "y", "c": "w"}]),
                "expressions": [{"expression": pick(r, ["Payload.path == '/echo'", "Payload.body == 'nope'"])}],
                "forward_response_headers_to_upstream": ["Content-Type"],
                "cache_ttl": pick(r, ["0s", "8s"])}, 0.35, 1)
        else:  # allow, deny
            ovg = lambda r: {"whatever": 1}
    elif kind == "contextualizer":
        cfg["endpoint"] = {"url": SRV + "/echo", "method": pick(rng, ["GET", "POST"])}
        if maybe(rng):
            cfg["payload"] = "{{ .Subject.ID }}/{{ .Values.a }}"
            cfg["values"] = {"a": "x"}
        elif maybe(rng):
            cfg["values"] = {"a": "x", "b": "y"}
        if maybe(rng):
            cfg["forward_headers"] = ["X-A"]
        if maybe(rng, 0.3):
            cfg["forward_cookies"] = ["c1"]
        if maybe(rng, 0.3):
            cfg["cache_ttl"] = pick(rng, ["0s", "4s"])
        if maybe(rng, 0.3):
            cfg["continue_pipeline_on_error"] = True
        ovg = lambda r: subset(r, {
            "payload": "q:{{ .Values.a }}{{ .Values.c }}", "values": pick(r, [{"a": "y"}, {"c": "w"}, {"b": "z", "c": "w"}]),
            "forward_headers": ["X-User"], "forward_cookies": ["sid"], "cache_ttl": pick(r, ["0s", "6s"]),
            "continue_pipeline_on_error": pick(r, [True, False])}, 0.3, 1)
    elif kind == "finalizer":
        if typ == "header":
            cfg["headers"] = {"X-User": "{{ .Subject.ID }}"}
            ovg = lambda r: {"headers": pick(r, [{"X-Role": "{{ .Subject.Attributes.role }}"},
                                                  {"X-User": "other", "X-M": "{{ .Request.Method }}"}])}
        elif typ == "cookie":
            cfg["cookies"] = {"user": "{{ .Subject.ID }}"}
            ovg = lambda r: {"cookies": pick(r, [{"role": "{{ .Subject.Attributes.role }}"}, {"user": "other"}])}
        elif typ == "jwt":
            cfg["signer"] = {"key_store": {"path": "KEYSTORE"}}
            if maybe(rng):
                cfg["signer"]["name"] = "issuer-x"
            if maybe(rng):
                cfg["ttl"] = "5m"
            if maybe(rng):
                cfg["claims"] = '{"role": {{ quote .Subject.Attributes.role }} }'
            if maybe(rng, 0.4):
                cfg["header"] = {"name": "X-Token", "scheme": "Tok"}
            ovg = lambda r: subset(r, {"ttl": pick(r, ["10m", "90s"]), "claims": '{"x": {{ quote .Subject.ID }} }'}, 0.5, 1)
        elif typ == "oauth2_client_credentials":
            cfg.update({"token_url": SRV + "/token", "client_id": "cid", "client_secret": "sec"})
            if maybe(rng):
                cfg["scopes"] = ["s1"]
            if maybe(rng, 0.3):
                cfg["cache_ttl"] = "0s"
            if maybe(rng, 0.4):
                cfg["header"] = {"name": "X-Up", "scheme": "Sch"}
            if maybe(rng, 0.3):
                cfg["auth_method"] = pick(rng, ["basic_auth", "request_body"])
            ovg = lambda r: subset(r, {"scopes": ["s2", "s3"], "cache_ttl": pick(r, ["0s", "10s"]),
                                       "header": pick(r, [{"name": "X-Other"}, {"name": "X-Other", "scheme": "Own"}])},
                                   0.45, 0)
        else:  # noop
            ovg = lambda r: {"whatever": 1}
    else:  # error handlers
        if typ == "redirect":
            cfg["to"] = "http://login.test/?origin={{ .Request.URL | urlenc }}"
            if maybe(rng):
                cfg["code"] = 303
            ovg = lambda r: {"to": "http://other.test"}
        elif typ == "www_authenticate":
            if maybe(rng):
                cfg["realm"] = "R1"
            ovg = lambda r: {"realm": pick(r, ["R2", "R3"])}
        else:
            ovg = lambda r: {"whatever": 1}
    return e, ovg, reqg


TYPES = [
    ("authenticator", "anonymous"), ("authenticator", "basic_auth"), ("authenticator", "generic"), ("authenticator", "jwt"),
    ("authenticator", "oauth2_introspection"), ("authenticator", "unauthorized"),
    ("authorizer", "allow"), ("authorizer", "cel"), ("authorizer", "deny"), ("authorizer", "remote"),
    ("contextualizer", "generic"),
    ("finalizer", "cookie"), ("finalizer", "header"), ("finalizer", "jwt"), ("finalizer", "noop"),
    ("finalizer", "oauth2_client_credentials"),
    ("error_handler", "default"), ("error_handler", "redirect"), ("error_handler", "www_authenticate"),
]
# types with something to override / something shared are chosen more often
WEIGHTS = [2, 3, 4, 7, 6, 1, 1, 3, 1, 6, 6, 2, 2, 4, 1, 5, 1, 1, 2]


def gen_override(rng, entry, ovg):
    """(config, invalid)"""
    key = (entry["kind"], entry["type"])
    q = rng.random()
    if q < 0.13:
        return None, False
    if q < 0.19:
        return {}, False
    if q < 0.25:
        return dict(ovg(rng), bogus=1), False
    if q < 0.40 and key in ZERO:
        return copy_of(pick(rng, ZERO[key])), False
    if q < 0.50 and key in BAD:
        return copy_of(pick(rng, BAD[key])), True
    return ovg(rng), False


def copy_of(x):
    import copy
    return copy.deepcopy(x)


def gen_case(rng, n_ops=None, par=True):
    n_mech = rng.choice([2, 3, 3, 4])
    entries, ovgs, reqgs = [], [], []
    for i in range(n_mech):
        kind, typ = rng.choices(TYPES, WEIGHTS)[0]
        e, ovg, reqg = gen_entry(rng, kind, typ, i)
        entries.append(e)
        ovgs.append(ovg)
        reqgs.append(reqg)
    ops, owner = [], []  # owner[h] = index of the catalogue entry handle h belongs to (None: failed create)
    n_ops = n_ops or rng.choice([6, 8, 10, 12])
    for _ in range(n_ops):
        r = rng.random()
        live = [h for h, o in enumerate(owner) if o is not None]
        if r < 0.45 or not live:
            m = rng.randrange(n_mech)
            e = entries[m]
            conf, invalid = gen_override(rng, e, ovgs[m])
            op = {"op": "create", "kind": e["kind"], "id": e["id"], "config": conf}
            if invalid:
                op["invalid"] = True
            if rng.random() < 0.04:
                op["id"] = "missing"
                owner.append(None)
            else:
                # may still fail (bogus key, invalid value); the harness and the model agree on which, and an
                # execution of a handle that does not exist is skipped on both sides
                owner.append(None if invalid else m)
            ops.append(op)
        elif r < 0.85 or not par:
            h = pick(rng, live)
            ops.append({"op": "exec", "h": h, "req": reqgs[owner[h]](rng)})
        else:
            hs = sorted(set(pick(rng, live) for _ in range(rng.choice([1, 2, 3]))))
            reqs = [reqgs[owner[h]](rng) for h in hs]
            creates = []
            for _ in range(rng.choice([0, 1, 2, 3])):
                m = owner[pick(rng, hs)]
                conf, invalid = gen_override(rng, entries[m], ovgs[m])
                cr = {"kind": entries[m]["kind"], "id": entries[m]["id"], "config": conf}
                if invalid:
                    cr["invalid"] = True
                creates.append(cr)
                owner.append(None if invalid else m)   # the objects created during the batch are handed out after it
            ops.append({"op": "par", "hs": hs, "reqs": reqs, "n": rng.choice([4, 6, 8]), "rounds": rng.choice([1, 2]),
                        "creates": creates, "cold": False, "cache": maybe(rng, 0.3)})
    return {"fam": "mech", "catalogue": entries, "ops": ops}


GO_TYPES = {
    "anonymousAuthenticator": ("authenticator", "anonymous"), "basicAuthAuthenticator": ("authenticator", "basic_auth"),
    "genericAuthenticator": ("authenticator", "generic"), "jwtAuthenticator": ("authenticator", "jwt"),
    "oauth2IntrospectionAuthenticator": ("authenticator", "oauth2_introspection"),
    "unauthorizedAuthenticator": ("authenticator", "unauthorized"), "allowAuthorizer": ("authorizer", "allow"),
    "celAuthorizer": ("authorizer", "cel"), "denyAuthorizer": ("authorizer", "deny"),
    "remoteAuthorizer": ("authorizer", "remote"), "genericContextualizer": ("contextualizer", "generic"),
    "defaultErrorHandler": ("error_handler", "default"), "redirectErrorHandler": ("error_handler", "redirect"),
    "wwwAuthenticateErrorHandler": ("error_handler", "www_authenticate"), "cookieFinalizer": ("finalizer", "cookie"),
    "headerFinalizer": ("finalizer", "header"), "jwtFinalizer": ("finalizer", "jwt"), "noopFinalizer": ("finalizer", "noop"),
    "oauth2ClientCredentialsFinalizer": ("finalizer", "oauth2_client_credentials"),
}


# ---------------------------------------------------------------------------------------------------------------
# look-alike overrides: rule-level configs that differ in type or structure but print the same under `%v` /
# `fmt.Sprint` / JSON without quotes ("1" vs 1, "[a b]" vs ["a", "b"] vs ["a b"], {k: "v k2:v2"} vs {k: v, k2: v2},
# "<nil>" vs null), and spellings of one setting ("1m0s" vs 60000000000).  A family is a list of (config, invalid);
# `invalid` = the type's decoder refuses the value (strict decoding), whatever was created before.  One factory sees
# several members of a family for the same catalogue entry, in any order: every variant has to be the catalogue entry
# overlaid with ITS OWN config.

def _fam(*members):
    return [(m, False) if not isinstance(m, tuple) else m for m in members]


def _bad(conf):
    return (conf, True)


_ASSERT_LOOKALIKE = [
    _fam({"assertions": {"issuers": ["iss1 other"]}}, {"assertions": {"issuers": ["iss1", "other"]}},
         _bad({"assertions": {"issuers": "[iss1 other]"}})),
    _fam({"assertions": {"audience": ["a1 a2"]}}, {"assertions": {"audience": ["a1", "a2"]}}),
    _fam({"assertions": {"scopes": ["s1 s2"]}}, {"assertions": {"scopes": ["s1", "s2"]}}),
    _fam({"cache_ttl": "1m0s"}, {"cache_ttl": 60000000000}, {"cache_ttl": "60s"}),
    _fam({"allow_fallback_on_error": True}, _bad({"allow_fallback_on_error": "true"})),
    _fam({"assertions": {"validity_leeway": "5s"}}, {"assertions": {"validity_leeway": 5000000000}},
         _bad({"assertions": {"validity_leeway": "5"}})),
]
_VALUES_LOOKALIKE = [
    _fam({"values": {"a": "y c:w"}}, {"values": {"a": "y", "c": "w"}}),
    _fam({"values": {"a": "1"}}, _bad({"values": {"a": 1}})),
    _fam({"values": {"a": "[y w]"}}, _bad({"values": {"a": ["y", "w"]}})),
    _fam({"values": {"a": "map[c:w]"}}, _bad({"values": {"a": {"c": "w"}}})),
    _fam({"values": {"a": "y"}}, _bad({"values": "map[a:y]"})),
    _fam({"payload": "1"}, _bad({"payload": 1})),
    _fam({"payload": "true"}, _bad({"payload": True})),
    _fam({"cache_ttl": "1m0s"}, {"cache_ttl": 60000000000}),
]
LOOKALIKE = {
    ("authenticator", "anonymous"): [
        _fam({"subject": "1"}, _bad({"subject": 1})), _fam({"subject": "true"}, _bad({"subject": True})),
        _fam({"subject": "[a b]"}, _bad({"subject": ["a", "b"]}), _bad({"subject": ["a b"]})),
        _fam({"subject": "map[a:b]"}, _bad({"subject": {"a": "b"}})),
        _fam({"subject": "<nil>"}, {"subject": None}),
        _fam({"subject": "a b:c"}, _bad({"subject": "a", "b": "c"}))],
    ("authenticator", "basic_auth"): [
        _fam({"user_id": "7"}, _bad({"user_id": 7})), _fam({"password": "true"}, _bad({"password": True})),
        _fam({"user_id": "u2 password:p2"}, {"user_id": "u2", "password": "p2"}),
        _fam({"allow_fallback_on_error": True}, _bad({"allow_fallback_on_error": "true"}))],
    ("authenticator", "generic"): [
        _fam({"cache_ttl": "1m0s"}, {"cache_ttl": 60000000000}, {"cache_ttl": "60s"}),
        _fam({"cache_ttl": 5}, _bad({"cache_ttl": "5"})),
        _fam({"allow_fallback_on_error": False}, _bad({"allow_fallback_on_error": "false"}))],
    ("authenticator", "jwt"): _ASSERT_LOOKALIKE,
    ("authenticator", "oauth2_introspection"): _ASSERT_LOOKALIKE,
    ("authorizer", "remote"): _VALUES_LOOKALIKE + [
        _fam({"forward_response_headers_to_upstream": ["X-Echo Content-Type"]},
             {"forward_response_headers_to_upstream": ["X-Echo", "Content-Type"]},
             _bad({"forward_response_headers_to_upstream": "[X-Echo Content-Type]"}))],
    ("contextualizer", "generic"): _VALUES_LOOKALIKE + [
        _fam({"forward_headers": ["X-A X-User"]}, {"forward_headers": ["X-A", "X-User"]},
             _bad({"forward_headers": "[X-A X-User]"})),
        _fam({"forward_cookies": ["c1 sid"]}, {"forward_cookies": ["c1", "sid"]}),
        _fam({"continue_pipeline_on_error": False}, _bad({"continue_pipeline_on_error": "false"}))],
    ("finalizer", "header"): [
        _fam({"headers": {"X-Scope": "read X-Tenant:acme"}}, {"headers": {"X-Scope": "read", "X-Tenant": "acme"}}),
        _fam({"headers": {"X-A": "1"}}, _bad({"headers": {"X-A": 1}})),
        _fam({"headers": {"X-A": "[a b]"}}, _bad({"headers": {"X-A": ["a", "b"]}})),
        _fam({"headers": {"X-A": "a"}}, _bad({"headers": "map[X-A:a]"})),
        _fam({"headers": {"X-A": "{{ .Subject.ID }} X-B:b"}}, {"headers": {"X-A": "{{ .Subject.ID }}", "X-B": "b"}})],
    ("finalizer", "cookie"): [
        _fam({"cookies": {"a": "1", "b": "2"}}, {"cookies": {"a": "1 b:2"}}),
        _fam({"cookies": {"a": "1"}}, _bad({"cookies": {"a": 1}})),
        _fam({"cookies": {"a": "true"}}, _bad({"cookies": {"a": True}}))],
    ("finalizer", "jwt"): [
        _fam({"ttl": "10m0s"}, {"ttl": 600000000000}, {"ttl": "600s"}),
        _fam({"claims": "7"}, _bad({"claims": 7})),
        _fam({"claims": '{"x": "y"}'}, _bad({"claims": {"x": "y"}}))],
    ("finalizer", "oauth2_client_credentials"): [
        _fam({"scopes": ["s2 s3"]}, {"scopes": ["s2", "s3"]}, _bad({"scopes": "[s2 s3]"})),
        _fam({"header": {"name": "X-Other scheme:Own"}}, {"header": {"name": "X-Other", "scheme": "Own"}}),
        _fam({"cache_ttl": "10s"}, {"cache_ttl": 10000000000})],
    ("error_handler", "www_authenticate"): [
        _fam({"realm": "1"}, _bad({"realm": 1})), _fam({"realm": "[a b]"}, _bad({"realm": ["a", "b"]})),
        _fam({"realm": "<nil>"}, {"realm": None}), _fam({"realm": "true"}, _bad({"realm": True}))],
    ("error_handler", "redirect"): [_fam(_bad({"to": "1"}), _bad({"to": 1}))],
}
LOOKALIKE_WEIGHTS = {("authenticator", "anonymous"): 3, ("finalizer", "header"): 3, ("finalizer", "cookie"): 2,
                     ("authorizer", "remote"): 2, ("contextualizer", "generic"): 2, ("error_handler", "redirect"): 1}


def lookalike_ops(entry, members, reqg, rng, execs=1):
    """creations of the members (one after the other), then executions of every variant handed out"""
    ops = []
    for conf, invalid in members:
        op = {"op": "create", "kind": entry["kind"], "id": entry["id"], "config": copy_of(conf)}
        if invalid:
            op["invalid"] = True
        ops.append(op)
    for h, (conf, invalid) in enumerate(members):
        if not invalid:
            for _ in range(execs):
                ops.append({"op": "exec", "h": h, "req": reqg(rng)})
    return ops


def gen_lookalike_case(rng):
    """one catalogue entry, 2..5 creations with members of one look-alike family (any order, repetitions), sometimes
    with a member of another family or the prototype in between; every variant handed out is executed"""
    keys = list(LOOKALIKE)
    kind, typ = rng.choices(keys, [LOOKALIKE_WEIGHTS.get(k, 2) for k in keys])[0]
    e, ovg, reqg = gen_entry(rng, kind, typ, 0)
    fams = LOOKALIKE[(kind, typ)]
    fam = list(pick(rng, fams))
    members = [pick(rng, fam) for _ in range(rng.choice([2, 2, 3, 3, 4, 5]))]
    if len({repr(m) for m in members}) == 1 and len(fam) > 1:
        members[-1] = pick(rng, [m for m in fam if repr(m) != repr(members[0])])
    if maybe(rng, 0.3):
        members.insert(rng.randrange(len(members) + 1), pick(rng, pick(rng, fams)))
    if maybe(rng, 0.2):
        members.insert(rng.randrange(len(members) + 1), (ovg(rng), False))
    return {"fam": "mech", "catalogue": [e], "ops": lookalike_ops(e, members, reqg, rng, rng.choice([1, 1, 2]))}


def lookalike_grid(rng):
    """every type x every family x every ordered pair of different members (and the whole family forwards and
    backwards): the histories tried when the static footprint reports state shared by the creations of one factory"""
    cases = []
    for (kind, typ), fams in LOOKALIKE.items():
        for fam in fams:
            seqs = [[fam[a], fam[b]] for a in range(len(fam)) for b in range(len(fam)) if a != b]
            seqs += [list(fam) + [fam[0]], list(reversed(fam)) + [fam[-1]]]
            for members in seqs:
                e, _, reqg = gen_entry(rng, kind, typ, 0)
                cases.append({"fam": "mech", "catalogue": [e], "ops": lookalike_ops(e, members, reqg, rng)})
    return cases


# ---------------------------------------------------------------------------------------------------------------
# named templates: template texts that DECLARE and USE named templates (`{{ define "x" }}…{{ end }}`,
# `{{ block "x" . }}…{{ end }}`, `{{ template "x" . }}`).  text/template keeps them per template set; heimdall builds a
# set per template, so a name means what the template's own text says.  The histories below give the SAME name
# different definitions in the catalogue prototype, in rule-level overrides and in different mechanisms of one
# process, create them in both orders and execute every earlier object after every creation: each object has to
# render its own text (prototype overlaid with its own override) every time.

NT_NAMES = ["scope", "nt", "who"]
NT_MARKERS = ["read", "admin", "orders", "payments", "m5", "m6", "m7"]
NT_FORMS = ["define", "define", "block", "nested", "nodot", "use"]


def named_text(name, marker, field=None, form="define"):
    """a template text of the named-template fragment; `marker` tells the definitions of one name apart"""
    body = marker + ("-{{ .%s }}" % field if field and form != "nodot" else "")
    if form == "define":
        return '{{ define "%s" }}%s{{ end }}pre-{{ template "%s" . }}-post' % (name, body, name)
    if form == "block":
        return 'pre-{{ block "%s" . }}%s{{ end }}-post' % (name, body)
    if form == "nested":
        return ('{{ define "%s" }}%s:{{ template "%s-in" . }}{{ end }}{{ define "%s-in" }}in-%s{{ end }}pre-{{ template "%s" . }}-post'
                % (name, body, name, name, marker, name))
    if form == "nodot":
        return '{{define "%s"}}%s{{end}}pre-{{template "%s"}}-post' % (name, body, name)
    if form == "use":   # uses a name it does not define: alone, the execution fails
        return 'pre-{{ template "%s" . }}-post' % name
    raise ValueError(form)


def _set(cfg, path, value):
    for k in path[:-1]:
        cfg = cfg.setdefault(k, {})
    cfg[path[-1]] = value


def _claims(t):
    return '{"nt": "' + t + '"}'


def _ident(t):
    return t


# (kind, type) -> sites: (name, path of the key, overridable on the rule level, field the text may use, wrapper,
#                         settings the catalogue entry needs for the rendering to show in the answer)
NT_SITES = {
    ("finalizer", "header"): [("headers", ["headers", "X-NT"], True, "Subject.ID", _ident, {})],
    ("finalizer", "cookie"): [("cookies", ["cookies", "nt"], True, "Subject.ID", _ident, {})],
    ("finalizer", "jwt"): [("claims", ["claims"], True, "Subject.ID", _claims, {})],
    ("contextualizer", "generic"): [
        ("payload", ["payload"], True, "Subject.ID", _ident, {}),
        ("values", ["values", "a"], True, "Request.Method", _ident, {"payload": "v={{ .Values.a }};"}),
        ("endpoint-header", ["endpoint", "headers", "X-NT"], False, "Subject.ID", _ident, {})],
    ("authorizer", "remote"): [
        ("payload", ["payload"], True, "Subject.ID", _ident, {}),
        ("values", ["values", "a"], True, "Request.Method", _ident, {"payload": "v={{ .Values.a }};"}),
        ("endpoint-header", ["endpoint", "headers", "X-NT"], False, "Subject.ID", _ident, {})],
    ("authenticator", "generic"): [
        ("payload", ["payload"], False, None, _ident, {}),
        ("endpoint-header", ["identity_info_endpoint", "headers", "X-NT"], False, None, _ident, {})],
    ("error_handler", "redirect"): [("to", ["to"], False, "Request.Method", lambda t: "http://login.test/" + t, {})],
}
NT_WEIGHTS = {("finalizer", "header"): 3, ("contextualizer", "generic"): 4, ("authorizer", "remote"): 3,
              ("finalizer", "jwt"): 2, ("finalizer", "cookie"): 2, ("authenticator", "generic"): 1,
              ("error_handler", "redirect"): 1}


def named_entry(rng, kind, typ, idx, site, text):
    """a catalogue entry of the type whose template at `site` is `text` (None: the entry as generated), and a request
    under which the execution gets as far as rendering"""
    e, _, _ = gen_entry(rng, kind, typ, idx)
    cfg = e["config"]
    _, path, _, _, wrap, needs = site
    if (kind, typ) in (("contextualizer", "generic"), ("authorizer", "remote")):
        # nothing that ends the execution before / hides what was rendered
        cfg.pop("expressions", None)
        cfg["endpoint"]["method"] = "POST"
    if text is not None:
        for k, v in needs.items():
            cfg[k] = v
        if path[0] in ("headers", "cookies"):
            # one entry only: a finalizer that fails half-way has set the entries rendered before (map order)
            cfg[path[0]] = {}
        _set(cfg, path, wrap(text))
    req = {"method": "GET", "path": "/x", "headers": {"Authorization": "tok1", "X-User": "u7", "X-A": "1"},
           "cookies": {"sid": "s9", "c1": "v1"}, "sub": {"id": "u2", "attrs": {"role": "admin"}}}
    return e, req


def named_override(site, text):
    _, path, _, _, wrap, needs = site
    conf = {}
    for k, v in needs.items():
        if k != path[0]:
            conf[k] = v
    _set(conf, path, wrap(text))
    return conf


def named_ops(plan, reqs):
    """plan: creations [(entry, config or None, invalid)]; after every creation each object handed out so far is
    executed (always with the same request per catalogue entry)"""
    ops, live = [], []
    for h, (e, conf, invalid) in enumerate(plan):
        op = {"op": "create", "kind": e["kind"], "id": e["id"], "config": copy_of(conf)}
        if invalid:
            op["invalid"] = True
        ops.append(op)
        if not invalid:
            live.append((h, e))
        for hh, ee in live:
            ops.append({"op": "exec", "h": hh, "req": copy_of(reqs[ee["id"]])})
    return ops


def gen_named_case(rng):
    """one or two catalogue entries with template sites, the SAME template name defined differently in the catalogue
    prototype(s) and in 1-3 rule-level overrides (where the site can be overridden), created in a random order;
    after each creation every earlier object is executed again"""
    keys = list(NT_SITES)
    name = pick(rng, NT_NAMES)
    markers = list(NT_MARKERS)
    rng.shuffle(markers)
    entries, reqs, plan = [], {}, []
    n_entries = rng.choice([1, 1, 2])
    for idx in range(n_entries):
        kind, typ = rng.choices(keys, [NT_WEIGHTS[k] for k in keys])[0]
        site = pick(rng, NT_SITES[(kind, typ)])
        form = pick(rng, NT_FORMS)
        in_cat = maybe(rng, 0.75) or not site[2]
        text = named_text(name, markers.pop(), site[3], form) if in_cat else None
        e, req = named_entry(rng, kind, typ, idx, site, text)
        entries.append(e)
        reqs[e["id"]] = req
        plan.append((e, None, False))
        if site[2]:
            for _ in range(rng.choice([1, 2, 2, 3]) if n_entries == 1 else rng.choice([0, 1, 2])):
                q = rng.random()
                if q < 0.08:   # the same name twice in one text: refused by the parser
                    t = named_text(name, "dup", None, "define") + '{{ define "%s" }}again{{ end }}' % name
                    plan.append((e, named_override(site, t), True))
                else:
                    plan.append((e, named_override(site, named_text(name, markers.pop(), site[3], pick(rng, NT_FORMS))),
                                 False))
    rng.shuffle(plan)
    return {"fam": "mech", "catalogue": entries, "ops": named_ops(plan, reqs)}


def named_grid(rng):
    """every site x form x history shape: prototype then override, override then prototype, two overrides in both
    orders (sites a rule can override); two mechanisms of one process in both orders (all sites) - the histories
    tried when the extractor reports new package-level state in the packages templates are built from"""
    cases = []
    for (kind, typ), sites in NT_SITES.items():
        for site in sites:
            for form in ["define", "block", "nested", "nodot", "use"]:
                def text(marker, f=form):
                    return named_text("scope", marker, site[3], f)
                shapes = []
                e0, req = named_entry(rng, kind, typ, 0, site, text("read"))
                if site[2]:
                    o1 = named_override(site, text("admin", "define" if form == "use" else form))
                    o2 = named_override(site, text("orders"))
                    shapes += [([e0], [(e0, None, False), (e0, o1, False)]), ([e0], [(e0, o1, False), (e0, None, False)]),
                               ([e0], [(e0, o1, False), (e0, o2, False)]), ([e0], [(e0, o2, False), (e0, o1, False)])]
                e1, _ = named_entry(rng, kind, typ, 1, site, text("payments", "define" if form == "use" else form))
                shapes += [([e0, e1], [(e0, None, False), (e1, None, False)]),
                           ([e1, e0], [(e1, None, False), (e0, None, False)])]
                for cat, plan in shapes:
                    cases.append({"fam": "mech", "catalogue": copy_of(cat),
                                  "ops": named_ops(plan, {e["id"]: req for e in cat})})
    return cases


# ---------------------------------------------------------------------------------------------------------------
# endpoint clients: what `Endpoint.CreateClient` builds the HTTP client of a request from - `retry`,
# `http_cache.enabled`, `http_cache.default_ttl` - differs between the mechanisms of one process that talk to the SAME
# host.  Their endpoints are `SERVER/count/<id>` (answers like `/echo`, the same every time, without freshness
# information, and counts the requests it receives) or `SERVER/count/busy/<id>` (503 to everything).  Every object is
# executed several times, always with the same request per catalogue entry and with a cache of its own, interleaved
# with the executions of the others: the requests its endpoint receives have to be those its OWN settings mean -
# a response reused for as long as ITS `default_ttl` says (not at all without one), a request repeated iff ITS
# endpoint has `retry` - whatever was executed before.

CLIENT_TYPES = [("contextualizer", "generic"), ("authorizer", "remote"), ("authenticator", "generic")]
HTTP_CACHE = [None, {"enabled": True}, {"enabled": True, "default_ttl": "1h"}, {"enabled": True, "default_ttl": "30m"},
              {"enabled": True, "default_ttl": "0s"}, {"enabled": False, "default_ttl": "1h"}, {"enabled": False}]
RETRY = [None, {"give_up_after": "5ms", "max_delay": "1ms"}, {"give_up_after": "4ms", "max_delay": "2ms"}]
CLIENT_SETTINGS = [(hc, rt) for hc in HTTP_CACHE for rt in RETRY[:2]]
CLIENT_OVERRIDES = {
    ("contextualizer", "generic"): [{"cache_ttl": "1h"}, {"cache_ttl": "0s"}, {"continue_pipeline_on_error": True},
                                    {"values": {"c": "w"}}, {"payload": "q"}, {}],
    ("authorizer", "remote"): [{"cache_ttl": "1h"}, {"cache_ttl": "0s"}, {"values": {"c": "w"}}, {"payload": "q"},
                               {"forward_response_headers_to_upstream": ["Content-Type"]}, {}],
    ("authenticator", "generic"): [{"cache_ttl": "1h"}, {"cache_ttl": "0s"}, {"allow_fallback_on_error": True}, {}],
}
CLIENT_REQ = {"method": "GET", "path": "/x", "headers": {"Authorization": "tok1", "X-User": "u7", "X-A": "1"},
              "cookies": {"sid": "s9", "c1": "v1"}, "sub": {"id": "u2", "attrs": {"role": "admin"}}}


def client_entry(rng, kind, typ, idx, http_cache, retry, method="GET", busy=False, cache_ttl="0s", payload=False):
    """a catalogue entry of the type whose endpoint is an observed one with the given client settings"""
    e, _, _ = gen_entry(rng, kind, typ, idx)
    cfg = e["config"]
    key = "identity_info_endpoint" if kind == "authenticator" else "endpoint"
    ep = cfg[key]
    ep["url"] = SRV + ("/count/busy/" if busy else "/count/") + e["id"]
    ep["method"] = method
    ep.pop("http_cache", None)
    ep.pop("retry", None)
    if http_cache is not None:
        ep["http_cache"] = copy_of(http_cache)
    if retry is not None:
        ep["retry"] = copy_of(retry)
    cfg["cache_ttl"] = cache_ttl
    cfg.pop("expressions", None)          # nothing that decides on the response: the traffic is what is observed
    if not payload:
        cfg.pop("payload", None)
        if (kind, typ) == ("authorizer", "remote"):
            ep.setdefault("headers", {"X-K": "k1"})     # a remote authorizer needs a payload or endpoint headers
    elif "payload" not in cfg:
        cfg["payload"] = "p"
    return e


def client_ops(plan, execs):
    """plan: creations [(entry, config or None)]; execs: handles in the order they are executed"""
    ops = [{"op": "create", "kind": e["kind"], "id": e["id"], "config": copy_of(conf)} for e, conf in plan]
    ops += [{"op": "exec", "h": h, "req": copy_of(CLIENT_REQ)} for h in execs]
    return ops


def gen_client_case(rng):
    """2-3 mechanisms talking to the same host with different client settings, some rule-level variants, every
    object executed 2-3 times in a random interleaving"""
    n = rng.choice([2, 2, 3])
    busy_case = maybe(rng, 0.2)
    entries, plan = [], []
    # settings that differ in one respect only are the interesting neighbours: draw from a small pool per case
    pool = [pick(rng, HTTP_CACHE) for _ in range(2)]
    if pool[0] == pool[1]:
        pool[1] = pick(rng, [h for h in HTTP_CACHE if h != pool[0]])
    rpool = [pick(rng, RETRY), pick(rng, RETRY)] if busy_case or maybe(rng, 0.3) else [pick(rng, RETRY)] * 2
    for idx in range(n):
        kind, typ = pick(rng, CLIENT_TYPES) if idx == 0 or maybe(rng, 0.4) else (entries[0]["kind"], entries[0]["type"])
        e = client_entry(rng, kind, typ, idx, pool[idx % 2] if idx < 2 or maybe(rng) else pick(rng, HTTP_CACHE),
                         rpool[idx % 2], method="GET" if maybe(rng, 0.85) else "POST", busy=busy_case and maybe(rng, 0.7),
                         cache_ttl="0s" if maybe(rng, 0.8) else "1h", payload=maybe(rng, 0.15))
        entries.append(e)
        plan.append((e, None))
        if maybe(rng, 0.35):
            plan.append((e, pick(rng, CLIENT_OVERRIDES[(kind, typ)])))
    rng.shuffle(plan)
    execs = [h for h in range(len(plan)) for _ in range(rng.choice([2, 2, 3]))]
    rng.shuffle(execs)
    return {"fam": "mech", "catalogue": entries, "ops": client_ops(plan, execs)}


def client_grid(rng):
    """every type x every ordered pair of different client settings (two mechanisms of one process, the first one
    executed first, then the second one twice, then the first one again), on an endpoint that answers and - where the
    pair differs in `retry` - on one that does not; plus pairs of mechanisms of different types.  The histories tried
    when the footprint reports state written on the request path or new package-level state"""
    cases = []

    def pair(t0, t1, s0, s1, busy):
        e0 = client_entry(rng, t0[0], t0[1], 0, s0[0], s0[1], busy=busy)
        e1 = client_entry(rng, t1[0], t1[1], 1, s1[0], s1[1], busy=busy)
        cases.append({"fam": "mech", "catalogue": [e0, e1],
                      "ops": client_ops([(e0, None), (e1, None)], [0, 1, 1, 0, 0])})

    for t in CLIENT_TYPES:
        for s0 in CLIENT_SETTINGS:
            for s1 in CLIENT_SETTINGS:
                if s0 == s1:
                    continue
                if s0[1] == s1[1]:
                    pair(t, t, s0, s1, False)
                elif s0[0] == s1[0] and s0[0] in (None, {"enabled": True, "default_ttl": "1h"}):
                    pair(t, t, s0, s1, True)
    mixed = [(CLIENT_TYPES[0], CLIENT_TYPES[1]), (CLIENT_TYPES[1], CLIENT_TYPES[2]), (CLIENT_TYPES[2], CLIENT_TYPES[0])]
    for t0, t1 in mixed:
        for hc0, hc1 in [(HTTP_CACHE[2], HTTP_CACHE[1]), (HTTP_CACHE[1], HTTP_CACHE[2]), (HTTP_CACHE[2], HTTP_CACHE[4]),
                         (HTTP_CACHE[0], HTTP_CACHE[2]), (HTTP_CACHE[2], HTTP_CACHE[0])]:
            pair(t0, t1, (hc0, None), (hc1, None), False)
        pair(t0, t1, (None, RETRY[1]), (None, None), True)
        pair(t0, t1, (None, None), (None, RETRY[1]), True)
    return cases


def gen_cold_case(rng, types=None):
    """the very first uses of a prototype and of its variants happen concurrently"""
    kind, typ = pick(rng, types or [("authenticator", "jwt"), ("authenticator", "oauth2_introspection"),
                                    ("authorizer", "remote"), ("contextualizer", "generic"), ("finalizer", "jwt"),
                                    ("finalizer", "oauth2_client_credentials"), ("authenticator", "generic")])
    e, ovg, reqg = gen_entry(rng, kind, typ, 0)
    creates = [{"kind": kind, "id": e["id"], "config": ovg(rng)} for _ in range(rng.choice([2, 3, 4]))]
    ops = [{"op": "create", "kind": kind, "id": e["id"], "config": None},
           {"op": "create", "kind": kind, "id": e["id"], "config": ovg(rng)},
           {"op": "create", "kind": kind, "id": e["id"], "config": ovg(rng)},
           {"op": "par", "hs": [0, 1, 2], "reqs": [reqg(rng) for _ in range(3)], "n": 9, "rounds": 2,
            "creates": creates, "cold": True, "cache": maybe(rng)},
           {"op": "exec", "h": 0, "req": reqg(rng)},
           # the variants created while the others were executed for the first time
           {"op": "exec", "h": 3, "req": reqg(rng)},
           {"op": "exec", "h": 2 + len(creates), "req": reqg(rng)}]
    return {"fam": "mech", "catalogue": [e], "ops": ops}
