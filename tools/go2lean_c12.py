"""C12 side of the tie by translated source: the classification switches of the two error translators
((*interceptor).intercept, (*errorHandler).HandleError) are translated from the current source on every run
(extract/go2lean, cmd/errswitch, Gen/ErrSwitchSrc.lean) and proved to take, for every error value, the branch the model's
`classify switchCases` names (Props/C12Src.lean). Shared machinery: tools/go2lean_tie.py; called from tools/props/c12.py."""
import go2lean_tie as tie

TIE = tie.Tie(
    cmd="errswitch", gen_module="HeimdallModel.Gen.ErrSwitchSrc", stub_namespace="Heimdall.ErrMap.Src",
    what="the classification switches of the error translators",
    trusted="Go -> Lean translator extract/go2lean (go/ast, fails closed outside its subset; regenerates "
            "Gen/ErrSwitchSrc.lean from the whole bodies of (*interceptor).intercept and (*errorHandler).HandleError on "
            "every run): trusted to keep the meaning of the statements it translates; its tables (cmd/errswitch/main.go) "
            "say that errors.Is(err, <sentinel>) are predicates of an opaque error value, that the response builders / "
            "writers of the options, the redirect response and the wrapped gRPC handler are parameters, and that log "
            "statements, accesscontext.SetError and errors.As are dropped")
PROP = tie.Prop("HeimdallModel.Props.C12Src", "Heimdall.Props.C12", always=("HeimdallModel.Model.ErrMapSrc",))

ASSUMPTION = (
    "translated source (Gen/ErrSwitchSrc.lean): an error value is opaque, errors.Is against the heimdall sentinels and "
    "&heimdall.RedirectError{} are predicates which Model/ErrMapSrc.lean fills in with Err.is / Err.isRedirect of the "
    "model's error trees (how the real errors.Is walks wrappers, joins and errorchains is the measured part of the "
    "tie); what a response builder / writer produces for its class is not looked at here (statuses, bodies and gRPC "
    "codes are the measured tables of Gen/ErrMapGen.lean)")

SEARCH = r"""
import HeimdallModel.Model.ErrMapSrc
open Heimdall Heimdall.ErrMap Heimdall.ErrMap.SrcTie

def leaves : List Err :=
  [.kind .argument, .kind .authentication, .kind .authorization, .kind .communication, .kind .timeout,
   .kind .configuration, .kind .internal, .kind .noRule, .redirect 302 "x", .foreign, .ctxDone .canceled,
   .ctxDone .deadlineExceeded]

def trees : List Err :=
  leaves ++ leaves.map .wrap ++ (leaves.flatMap fun a => leaves.flatMap fun b => [.chain [a, b], .join [a, b]])

partial def showErr : Err → String
  | .kind k => "kind " ++ toString (repr k)
  | .redirect c t => s!"redirect {c} {t}"
  | .foreign => "foreign"
  | .ctxDone c => "ctx " ++ toString (repr c)
  | .wrap e => "wrap(" ++ showErr e ++ ")"
  | .join es => "join[" ++ ", ".intercalate (es.map showErr) ++ "]"
  | .chain es => "chain[" ++ ", ".intercalate (es.map showErr) ++ "]"

def showRes : Go.Res (List Action) Unit Unit → String
  | .done _ l => toString (repr l)
  | .panic _ l => "panic after " ++ toString (repr l)

def main : IO Unit := do
  let mut n := 0
  for e in trees do
    let want := classify switchCases (.respond .internal) e
    let h := httpSrc (some e)
    let g := grpcSrc none (some e)
    let hOk := match h with | .done _ [a] => a == want | _ => false
    let gOk := match g with | .done (some a, none) _ => a == want | _ => false
    if (!hOk || !gOk) && n < 20 then
      n := n + 1
      let gs := match g with | .done (a, _) _ => toString (repr a) | .panic _ _ => "panic"
      IO.println s!"\{\"err\": \"{showErr e}\", \"model\": \"{toString (repr want)}\", \"http\": \"{showRes h}\", \"grpc\": \"{gs}\"}"
  IO.println s!"\{\"differing\": {n}}"
"""


def step(R):
    res = tie.step(R, TIE, PROP)
    R.lean_src = res
    R.assumptions.append(ASSUMPTION)
    return res


def report(R):
    try:
        _report(R)
    finally:
        tie.restore(TIE)


def _report(R):
    res = getattr(R, "lean_src", None)
    if res is None:
        return
    if res["translate_error"]:
        R.violation("the classification switches of the error translators can no longer be translated to Lean "
                    "(extract/go2lean fails closed; the theorems c12_src_* of Props/C12Src.lean say nothing about this "
                    "code): " + res["translate_error"],
                    {"translator": "extract/go2lean cmd/errswitch", "error": res["translate_error"],
                     "kind": "src-untranslatable"}, no_input=True)
        return
    if res["ok"]:
        return
    named = tie.named(res)
    payload = {"lean_log": res["log"], "failed": res["failed"], "theorems": res["failed_theorems"], "kind": "src-vs-model"}
    rc, rows, log = tie.run_lean(R, TIE, PROP, "c12src_search.lean", SEARCH)
    if rc is None or rc != 0:
        R.violation("the Lean translation of the classification switches (Gen/ErrSwitchSrc.lean) or its instantiation with "
                    "the model's error trees (Model/ErrMapSrc.lean) does not compile: " + log[-600:],
                    dict(payload, lean_log=log), no_input=True)
        return
    diff = [r for r in rows if "err" in r]
    R.coverage["src_search"] = {"grid": "12 leaves, each wrapped, and every chain / join of two of them (312 error values)",
                                "values_on_which_translation_differs_from_model": len(diff)}
    if diff:
        d = diff[0]
        R.violation(f"the translated switches answer the error {d['err']} from branch http={d['http']} grpc={d['grpc']} "
                    f"where the response class of its kind (model) is {d['model']} (theorems that no longer check: {named})",
                    dict(payload, point=d, points=diff), no_input=True)
    else:
        R.violation(f"theorems of Props/C12Src.lean no longer check: {named}; on the search grid the translated switches "
                    "take the model's branch (the proof script does not cover this shape of the code)", payload,
                    no_input=True)
