"""Generators of the C09 correspondence check (family `fwd`): trusted_proxies lists, peer addresses, requests with every
subset / casing / repetition of the forwarded header family.  Every random choice comes from the rng passed in."""
import copy
import ipaddress

FAMILY = ["Forwarded", "X-Forwarded-For", "X-Forwarded-Proto", "X-Forwarded-Host", "X-Forwarded-Uri",
          "X-Forwarded-Path", "X-Forwarded-Method"]

# names a careless change might start to honour; none of them belongs to the family, so the model passes them on
# untouched and never reads them
NEAR_MISS = ["X-Forwarded-Fo", "X-Forwarded-For-", "X_Forwarded_For", "Forwarded-For", "X-Forwarded", "X-Real-Ip",
             "X-Original-Uri", "X-Original-Url", "X-Rewrite-Url", "X-Forwarded-Prefix", "X-Forwarded-Port",
             "X-Forwarded-Server", "X-Forwarded-Scheme", "X-Forwarded-Ssl", "X-Original-Method",
             "X-Http-Method-Override", "X-Forwarded-Proto2", "Xx-Forwarded-Method", "Forwardedx", "X-Envoy-Original-Path",
             "X-Forwarded-Client-Cert", "True-Client-Ip", "Cf-Connecting-Ip", "X-Client-Ip", "X-Cluster-Client-Ip",
             "X-Original-Host", "X-Forwarded-Hosts", "X-Host", "X-Scheme", "X-Method-Override", "X-Forwarded-Url"]
BENIGN = [("Accept", "*/*"), ("Authorization", "Bearer abc.def"), ("User-Agent", "verif/1"), ("X-Request-Id", "r-17"),
          ("Cookie", "a=b; c=d"), ("Accept-Language", "en, de;q=0.5")]

METHODS = ["GET", "POST", "DELETE", "PUT", "PATCH", "OPTIONS"]
XFM_VALUES = ["DELETE", "GET", "POST", "PUT", "PATCH", "delete", "Delete", "OPTIONS", "PROPFIND", ""]
PROTO_VALUES = ["https", "http", "HTTPS", "ftp", "wss", ""]
HOST_VALUES = ["trusted.example.com", "evil.example.com", "trusted.example.com:8443", "TRUSTED.example.com",
               "10.0.0.1", "[::1]:8080", "svc.local", ""]
REQ_HOSTS = ["svc.local", "trusted.example.com", "heimdall.local:4456", "127.0.0.1:4456"]
FIRST_SEGS = ["m", "s", "h", "admin", "x", "api", "M", "adminx"]
SEGS = ["a", "b", "zz", "secret", "v1", "a-b", "a.b", "~u", "a%20b", "%41", "a%3Bb", "x_y", "0", "a:b", "a@b", "a,b",
        "a=b", "a+b", "a$b", "a!b", "*", "**", ":x",
        # octets Go does not accept unencoded in a path, and escapes it would respell: the view keeps the received spelling
        'a"b', "a<b>", "a|b", "%7eu", "a%5Bb%5D", "a[b]", "a^b", "{a}", "%c3%a4", "a%2Eb", "(a)", "a'b"]
QUERIES = ["", "", "a=1", "b=2&a=1", "q=%20x", "x", "a=1&a=2", "k=v%26w", "z=%zz", "a=b=c", "sp=a+b", ";semi=1", "a=1;b=2",
           "b=2&a=1&b=1", "%41=1", "a=%3d", "a", "=", "&&", "a=<b>"]
URI_GARBAGE = ["%zz", "::", "http://[::1", "/a%zz", "http://a b/", "/%", "://x", "1:2", "/p%2", "cache_object:foo/bar",
               "http://host:port/m/x"]
XFF_VALUES = ["9.9.9.9", "9.9.9.9, 8.8.8.8", " 1.1.1.1 ,2.2.2.2", "unknown", "::1", "2001:db8::7, 10.0.0.1", "",
              "1.1.1.1,,2.2.2.2", "1.1.1.1;2.2.2.2", "1.1.1.1\t,\t3.3.3.3", ","]
FWD_VALUES = ["for=1.1.1.1", "for=1.1.1.1;proto=https;by=2.2.2.2", "by=3.3.3.3", "for=1.1.1.1, for=2.2.2.2",
              "For=1.1.1.1", "for=\"[::1]:4711\"", "proto=http; for=5.5.5.5 ;for=6.6.6.6", "", ",", "for=",
              "for=1.1.1.1,by=4.4.4.4, for=7.7.7.7;host=h", " for=8.8.8.8 ", "for =9.9.9.9", "host=x;for=_hidden",
              "for=1.1.1.1;;", ";for=2.2.2.2", "for=a,for=b,for=c,for=d", "for=unknown", "FOR=1.2.3.4", "xfor=1.2.3.4",
              "for=1.1.1.1 ; proto=https"]

V4_POOL = ["10.1.2.3", "192.168.0.1", "127.0.0.1", "1.2.3.4", "172.16.5.4", "255.255.255.255", "0.0.0.0",
           "10.0.0.255", "10.0.1.0", "100.64.0.1", "169.254.1.1", "8.8.8.8"]
V6_POOL = ["::1", "2001:db8::1", "fe80::1", "2001:db8:1:2:3:4:5:6", "::", "ff02::1", "2001:db8::ffff",
           "fd00::a:b", "::2", "1::", "2001:db8:0:1::", "64:ff9b::a01:203", "::fffe:a01:203", "::1:0:0"]
INVALID_ENTRIES = ["foo", "", "10.0.0.256", "10.0.0.1/33", "10.0.0.1/", "/8", "1.2.3.4/+8", "01.2.3.4", "1.2.3", "::1%lo",
                   "fe80::1%eth0/64", ":::1", "1::2::3", "12345::1", "::1.2.3", "1.2.3.4.5", "2001:db8::/129", " 10.0.0.1",
                   "10.0.0.1 ", "localhost", "traefik", "10.0.0.0/8/8", "10.0.0.0/255.0.0.0", "1.2.3.4/-1", "::ffff:1.2.3.4/129",
                   "1.2.3.04", "1.2.3.4/a", "g::1", "1:2:3:4:5:6:7", "1:2:3:4:5:6:7:8:9", "1:2:3:4:5:6:7::", "::1.2.3.4.5",
                   "1:2:3:4:5:6:1.2.3.4.5", "1.2.3.4:80", "[::1]", "*", "0.0.0.0/0x0",
                   "%eth0", "1.2.3.4%eth0", "fe80::%", "1:2:3:4:5:6:7:1.2.3.4", "::ffff:1.2.3.4.5/104", "/", "//", "10.0.0.0//8",
                   "::/", "0/0", ".1.2.3", "1..2.3", "1.2.3.", "1.2.3.4/032", "1.2.3.4/0000000000000000000000008",
                   "1.2.3.4/99999999999999999999"]
BAD_REMOTES = ["", "@", "1.2.3.4", "[::1]", "::1:80", "[::1]x:80", "1.2.3.4:", "[fe80::1%eth0]:1234", "[::1%lo]:5",
               "[1.2.3.4]:80", "1.2.3.4:80:90", "[::1:80", "::1]:80", "[[::1]]:80", "host.example:80", ":80", "[]:80",
               "1.2.3.4%eth0:80", "[::ffff:1.2.3.4]:80", "[0:0:0:0:0:ffff:102:304]:80", "[::FFFF:1.2.3.4]:80", "010.1.2.3:80",
               "[2001:DB8::1]:80", "[2001:db8:0:0:0:0:0:1]:443", "[::0001]:80", "1.2.3.4 :80", " 1.2.3.4:80", "unix"]


def pick(rng, xs):
    return xs[rng.randrange(len(xs))]


def rand_v4(rng):
    if rng.random() < 0.6:
        return pick(rng, V4_POOL)
    return ".".join(str(rng.randrange(256)) for _ in range(4))


def rand_v6(rng):
    if rng.random() < 0.6:
        return pick(rng, V6_POOL)
    groups = [rng.randrange(65536) if rng.random() < 0.6 else 0 for _ in range(8)]
    return str(ipaddress.IPv6Address(sum(g << (16 * (7 - i)) for i, g in enumerate(groups))))


def v6_text_variants(rng, addr):
    """textual forms of one IPv6 address"""
    a = ipaddress.IPv6Address(addr)
    forms = [a.compressed, a.exploded, a.compressed.upper(), ":".join("%x" % int(g, 16) for g in a.exploded.split(":"))]
    if a.ipv4_mapped is not None:
        forms += ["::ffff:" + str(a.ipv4_mapped), "0:0:0:0:0:ffff:" + str(a.ipv4_mapped), "::FFFF:" + str(a.ipv4_mapped)]
    elif int(a) >> 32 == 0 and int(a) > 0xffff:
        forms.append("::" + str(ipaddress.IPv4Address(int(a) & 0xffffffff)))
    return pick(rng, forms)


def text_of(rng, ip):
    """a textual form of ip (ipaddress object) as Go may meet it in a configuration"""
    if ip.version == 4:
        r = rng.random()
        if r < 0.8:
            return str(ip)
        return v6_text_variants(rng, "::ffff:" + str(ip))
    return v6_text_variants(rng, str(ip))


def entry_for(rng, ip):
    """one trusted_proxies entry built around the peer address ip (may or may not list it)"""
    bits = 32 if ip.version == 4 else 128
    r = rng.random()
    if r < 0.22:
        return text_of(rng, ip)                                       # exactly the peer
    if r < 0.30:
        other = type(ip)(int(ip) ^ (1 << rng.randrange(bits)))   # one bit off
        return text_of(rng, other)
    if r < 0.72:
        plen = pick(rng, [0, 1, 7, 8, 9, 15, 16, 17, 23, 24, 25, 30, 31, 32] if bits == 32 else
                    [0, 1, 8, 10, 16, 32, 48, 63, 64, 65, 95, 96, 97, 104, 112, 120, 126, 127, 128])
        base = int(ip)
        if rng.random() < 0.45 and plen > 0:
            base ^= 1 << (bits - 1 - rng.randrange(plen))               # flip a bit inside the prefix: not contained
        if rng.random() < 0.6:
            base = (base >> (bits - plen)) << (bits - plen) if plen < bits else base   # aligned network number
        addr = ipaddress.IPv6Address(base) if bits == 128 else ipaddress.IPv4Address(base)
        txt = str(addr)
        form = rng.random()
        if bits == 32 and form < 0.25:
            txt = "::ffff:" + txt
            plen += 96 if rng.random() < 0.8 else rng.randrange(0, 96)
            plen = min(plen, 128)
        elif bits == 128 and form < 0.3:
            txt = v6_text_variants(rng, txt)
        ptxt = str(plen)
        if rng.random() < 0.05:
            ptxt = "0" + ptxt
        return txt + "/" + ptxt
    if r < 0.80:
        return pick(rng, ["0.0.0.0/0", "::/0", "127.0.0.0/8", "10.0.0.0/8", "fe80::/10", "::ffff:0:0/96", "::/96",
                          "2001:db8::/32", "192.168.0.0/16", "::1/128", "0.0.0.0/1", "128.0.0.0/1", "8000::/1", "::/1"])
    if r < 0.90:
        return text_of(rng, ipaddress.ip_address(rand_v4(rng) if rng.random() < 0.5 else rand_v6(rng)))
    return pick(rng, INVALID_ENTRIES)


def trusted_list(rng, ip):
    r = rng.random()
    if r < 0.06:
        return None                                   # not configured
    if r < 0.12:
        return []
    n = pick(rng, [1, 1, 1, 2, 2, 3, 4])
    return [entry_for(rng, ip) for _ in range(n)]


def remote_of(rng, ip, port=None):
    port = port if port is not None else rng.randrange(1, 65536)
    if ip.version == 4:
        if rng.random() < 0.04:
            return "[::ffff:%s]:%d" % (ip, port)
        return "%s:%d" % (ip, port)
    return "[%s]:%d" % (v6_text_variants(rng, str(ip)) if rng.random() < 0.3 else str(ip), port)


def casing(rng, name):
    r = rng.random()
    if r < 0.35:
        return name
    if r < 0.6:
        return name.lower()
    if r < 0.75:
        return name.upper()
    return "".join(c.upper() if rng.random() < 0.5 else c.lower() for c in name)


def path_of(rng):
    r = rng.random()
    if r < 0.03:
        return "/"
    segs = [pick(rng, FIRST_SEGS)] + [pick(rng, SEGS) for _ in range(pick(rng, [0, 1, 1, 1, 2, 3]))]
    p = "/" + "/".join(segs)
    if rng.random() < 0.08:
        p += "/"
    if rng.random() < 0.03:
        p = p.replace("/", "//", 1)
    return p


def uri_value(rng):
    r = rng.random()
    if r < 0.08:
        return pick(rng, URI_GARBAGE)
    p = path_of(rng)
    q = pick(rng, QUERIES)
    if r < 0.70:
        return p + ("?" + q if q else "")
    if r < 0.76:
        return pick(rng, ["https", "http", "HTTP"]) + "://" + pick(rng, ["other.example.com", "u:p@h:81", "[::1]:9"]) + p + ("?" + q if q else "")
    if r < 0.80:
        return "//" + pick(rng, ["authority.example.com", "h:1"]) + p
    if r < 0.84:
        return p + "?" + q + "#frag"
    if r < 0.88:
        return "?" + (q or "only=q")
    if r < 0.91:
        return p + "?"
    if r < 0.94:
        return p[1:] + ("?" + q if q else "")            # relative reference
    if r < 0.97:
        return p + " with space?" + q
    return ""


def family_value(rng, name):
    """a value as the header reader delivers it (blanks and tabs around a value never reach the handler)"""
    return _family_value(rng, name).strip(" \t")


def _family_value(rng, name):
    if name == "X-Forwarded-Method":
        return pick(rng, XFM_VALUES)
    if name == "X-Forwarded-Proto":
        return pick(rng, PROTO_VALUES)
    if name == "X-Forwarded-Host":
        return pick(rng, HOST_VALUES)
    if name == "X-Forwarded-Uri":
        return uri_value(rng)
    if name == "X-Forwarded-Path":
        return path_of(rng)
    if name == "X-Forwarded-For":
        return pick(rng, XFF_VALUES)
    return pick(rng, FWD_VALUES)


def headers_of(rng):
    hs = []
    r = rng.random()
    if r < 0.08:
        fam = []
    elif r < 0.30:
        fam = [pick(rng, FAMILY)]
    elif r < 0.45:
        fam = list(FAMILY)
    else:
        fam = [n for n in FAMILY if rng.random() < 0.45]
    for n in fam:
        reps = 1 if rng.random() < 0.8 else pick(rng, [2, 2, 3])
        for _ in range(reps):
            hs.append([casing(rng, n), family_value(rng, n)])
    for _ in range(pick(rng, [0, 0, 1, 1, 2])):
        n = pick(rng, NEAR_MISS)
        hs.append([casing(rng, n), family_value(rng, pick(rng, FAMILY))])
    for _ in range(pick(rng, [0, 1, 1, 2])):
        k, v = pick(rng, BENIGN)
        hs.append([casing(rng, k), v])
    rng.shuffle(hs)
    return hs


def request_line(rng):
    method = pick(rng, METHODS)
    path = path_of(rng)
    q = pick(rng, QUERIES)
    host = pick(rng, REQ_HOSTS)
    target = path + ("?" + q if q else "")
    c = {"method": method, "host": host, "esc_path": path, "raw_query": q}
    if rng.random() < 0.05:
        ah = pick(rng, ["abs.example.com", "trusted.example.com", "abs.example.com:8080"])
        c["host"] = ah
        c["target"] = "http://" + ah + target
    else:
        c["target"] = target
    return c


def peer_near(rng, anchor):
    """a peer address for a request against a trusted_proxies list built around `anchor`"""
    r = rng.random()
    if r < 0.45:
        return anchor
    bits = 32 if anchor.version == 4 else 128
    if r < 0.80:
        return type(anchor)(int(anchor) ^ (1 << pick(rng, [0, 0, 1, 3, 7, 8, 15, 16, 23, 24, bits - 1, rng.randrange(bits)])))
    return ipaddress.ip_address(rand_v4(rng) if rng.random() < 0.6 else rand_v6(rng))


def gen_req_case(rng, tcp=False, ipv6_ok=True, anchor=None, trusted=None, mode=None):
    """one request; with `anchor`/`trusted` given, the request goes to the service configured with that list"""
    mode = mode or ("decision" if rng.random() < 0.5 else "proxy")
    if tcp:
        if anchor is not None:
            ip = anchor
        elif ipv6_ok and rng.random() < 0.25:
            ip = ipaddress.ip_address("::1")
        else:
            ip = ipaddress.ip_address("127.%d.%d.%d" % (rng.randrange(256), rng.randrange(256), rng.randrange(1, 255)))
        remote = ("[%s]:1" if ip.version == 6 else "%s:1") % ip
    else:
        ip = peer_near(rng, anchor) if anchor is not None else \
            ipaddress.ip_address(rand_v4(rng) if rng.random() < 0.6 else rand_v6(rng))
        if rng.random() < 0.04:
            remote = pick(rng, BAD_REMOTES)
        else:
            remote = remote_of(rng, ip)
    c = {"fam": "fwd", "op": "req", "mode": mode,
         "trusted": trusted_list(rng, ip) if anchor is None else copy.deepcopy(trusted), "remote": remote,
         "tls": (not tcp) and rng.random() < 0.3}
    c.update(request_line(rng))
    c["headers"] = headers_of(rng)
    if tcp:
        c["tcp_from"] = str(ip)
        c["headers"].append(["Connection", "close"])
    return c


def gen_req_block(rng, size, tcp=False, ipv6_ok=True):
    """`size` requests against ONE service instance (one trusted_proxies list, one mode) from peers around the address
    the list was built for — keeps the number of service instances (and of upstream connections) small"""
    mode = "decision" if rng.random() < 0.5 else "proxy"
    if tcp:
        if ipv6_ok and rng.random() < 0.25:
            anchor = ipaddress.ip_address("::1")
        else:
            anchor = ipaddress.ip_address("127.%d.%d.%d" % (rng.randrange(256), rng.randrange(256), rng.randrange(1, 255)))
    else:
        anchor = ipaddress.ip_address(rand_v4(rng) if rng.random() < 0.6 else rand_v6(rng))
    trusted = trusted_list(rng, anchor)
    out = []
    for _ in range(size):
        a = anchor
        if tcp and anchor.version == 4 and rng.random() < 0.5:
            a = ipaddress.IPv4Address((int(anchor) ^ (1 << pick(rng, [0, 1, 8, 9, 16]))) | 1)   # still 127.x.y.z, never .0
            if int(a) >> 24 != 127:
                a = anchor
        out.append(gen_req_case(rng, tcp=tcp, ipv6_ok=ipv6_ok, anchor=a, trusted=trusted, mode=mode))
    return out


def gen_trust_case(rng):
    r = rng.random()
    ip = ipaddress.ip_address(rand_v4(rng) if rng.random() < 0.55 else rand_v6(rng))
    if r < 0.12:
        remote = pick(rng, BAD_REMOTES)
    else:
        remote = remote_of(rng, ip)
    n = pick(rng, [0, 1, 1, 1, 2, 2, 3, 5])
    entries = [entry_for(rng, ip) if rng.random() < 0.85 else pick(rng, INVALID_ENTRIES) for _ in range(n)]
    return {"fam": "fwd", "op": "trust", "trusted": entries, "remote": remote}


def uri_values_of(case):
    return [v for k, v in case.get("headers", []) if k.lower() == "x-forwarded-uri"]
