#!/usr/bin/env python3
"""First evaluation of a round of freshly delivered seeds: <root>/<ID>/<x>/{patch.diff,demo_test.go,meta.json}.
Seeds of one property run one after the other, different properties side by side; the result of tools/seed_eval.py is
stored as eval.json next to the patch.   usage: tools/seed_round.py <root> [-j N] [<ID> ...]"""
import json
import os
import subprocess
import sys
from concurrent.futures import ThreadPoolExecutor

V = os.path.dirname(os.path.dirname(os.path.abspath(__file__)))


def one_property(arg):
    root, pid, extra = arg
    for x in sorted(os.listdir(os.path.join(root, pid))):
        d = os.path.join(root, pid, x)
        if not os.path.exists(os.path.join(d, "patch.diff")):
            continue
        p = subprocess.run([sys.executable, os.path.join(V, "tools", "seed_eval.py"), d, pid] + extra,
                           capture_output=True, text=True)
        try:
            r = json.loads(p.stdout)
        except Exception:
            print(pid, x, "EVAL ERROR", p.stdout[-300:], p.stderr[-300:], flush=True)
            continue
        json.dump(r, open(os.path.join(d, "eval.json"), "w"), indent=1)
        ok = r.get("demo_passes_unpatched") and r.get("demo_fails_patched") and r.get("builds") and not r.get("existing_test_failures")
        print(pid, x, "valid" if ok else "INVALID " + json.dumps({k: v for k, v in r.items() if k not in ("checks", "seed")}),
              {k: (v["exit"], (v["lines"] or [""])[0][-200:]) for k, v in r.get("checks", {}).items()}, flush=True)


def main():
    args = sys.argv[1:]
    root = args.pop(0)
    j = 4
    if args and args[0] == "-j":
        j = int(args[1])
        args = args[2:]
    pids = args or sorted(os.listdir(root))
    with ThreadPoolExecutor(j) as ex:
        list(ex.map(one_property, [(root, p, []) for p in pids]))


if __name__ == "__main__":
    main()
