"""Generators for the `prov` line-protocol family (C18): histories of rule-set sources per provider.

A content is identified by a version number v >= 1 (the harness renders the bytes from it: YAML, JSON if v % 5 == 0).
Versions come from disjoint pools per source (10*k+1 .. 10*k+8), because two rule sets with the same rules cannot be
loaded side by side, which is a matter of the repository (C06), not of the providers."""

NSRC = 4


def pool(k):
    return [10 * k + j for j in range(1, 9)]


def pick_version(rng, k, last=None, avoid=()):
    if last is not None and last not in avoid and rng.random() < 0.3:
        return last
    cand = [v for v in pool(k) if v not in avoid]
    return rng.choice(cand)


def content(rng, k, last=None, avoid=(), kinds=("valid", "empty", "invalid", "gone"), weights=(55, 12, 18, 15)):
    """(spec, version or None)"""
    kind = rng.choices(kinds, weights=weights)[0]
    if kind == "valid":
        v = pick_version(rng, k, last, avoid)
        if rng.random() < 0.05:
            # a rule set the processor refuses (unsupported version); its bytes differ, so it has its own number
            return {"st": "valid", "v": v + 1000, "bad": True}, None
        return {"st": "valid", "v": v}, v
    if kind == "empty":
        return {"st": "empty", "i": rng.randrange(3)}, None
    if kind == "invalid":
        return {"st": "invalid", "i": rng.randrange(5)}, None
    return None, None


def cut_spec(rng, v, transports=("short", "short", "chunk", "chunkend", "over")):
    """an otherwise valid answer / object (content v) damaged in transport: only a proper prefix gets through.
    how: short = Content-Length announces everything, connection closed after k bytes; chunk = chunked encoding broken off
    inside the chunk; chunkend = complete chunk of k bytes, terminating chunk missing; over = only k bytes announced,
    everything sent (the client sees a clean body of k bytes).  k: 0, near the start, around the middle, the last bytes
    missing ("rel": "end", at = 0: one byte short)."""
    how = rng.choice(transports)
    spec = {"st": "cut", "v": v, "how": how}
    where = rng.choice(["zero", "start", "mid", "mid", "last", "last"])
    if how == "over" and where == "last" and v % 5 != 0:
        # a block-style YAML document without its last bytes is still a (different) rule set, and "over" hands the client
        # a clean prefix; a JSON / flow-style document is unusable at every proper non-empty prefix
        where = "mid"
    if where == "zero":
        spec["at"] = 0
    elif where == "start":
        spec["at"] = rng.randint(1, 60)
    elif where == "mid":
        spec.update({"rel": "mid", "at": rng.randint(-10, 10)})
    else:
        spec.update({"rel": "end", "at": rng.choice([0, 0, 0, 1, 2])})
    if how != "over" and rng.random() < 0.2:
        spec["rst"] = True      # reset instead of an orderly close
    return spec


def maybe_rej(rng, step, ks, p=0.1):
    if rng.random() < p:
        step["rej"] = sorted(set(rng.choice(ks) for _ in range(rng.choice([1, 1, 2]))))
    return step


# ---------------------------------------------------------------------------------------------------------------
# file_system, notifications handed over directly

FS_OPS = [["create"], ["write"], ["chmod"], ["remove"], ["rename"], ["create", "write"], ["write", "chmod"],
          ["rename", "create"], ["remove", "chmod"], []]
FS_OPS_W = [16, 30, 8, 16, 14, 4, 3, 3, 2, 2]


def poach(rng, k, last, n):
    """a content of source k that uses the path expression of a content of another source (v and v+500 share the
    expression): well-formed, but the repository refuses it while the other source has that content loaded"""
    others = [x for x in range(n) if x != k]
    o = rng.choice(others)
    base = last[o] if o in last and last[o] < 500 and rng.random() < 0.8 else rng.choice(pool(o))
    return 500 + base


def fs_file(rng, k, last, links=0.2, poaching=0.08):
    spec, v = content(rng, k, last.get(k))
    if spec is None:
        spec = {"st": rng.choice(["missing", "missing", "missing", "dir"])}
    elif spec["st"] == "valid" and not spec.get("bad") and rng.random() < poaching:
        v = poach(rng, k, last, NSRC)
        spec = {"st": "valid", "v": v}
    if v is not None:
        last[k] = v
    if rng.random() < links:
        # the directory entry is a symbolic link: to a file of that state, to a directory, or to nothing
        spec["link"] = True
    return spec


def gen_fs(rng, max_steps=14):
    last = {}
    init = []
    for k in range(NSRC):
        if rng.random() < 0.4:
            f = fs_file(rng, k, last, links=0.35, poaching=0.0)
            if f["st"] == "missing" and not f.get("link"):
                continue
            if (f["st"] == "invalid" or (f["st"] == "dir" and f.get("link"))) and rng.random() < 0.7:
                continue       # Start fails on the first entry it cannot read
            init.append({"k": k, "file": f})
    case = {"fam": "prov", "kind": "fs", "init": init, "start": maybe_rej(rng, {}, list(range(NSRC)), 0.04), "steps": []}
    hot = rng.sample(range(NSRC), rng.choice([1, 2, 2, 3]))
    for _ in range(rng.randint(3, max_steps)):
        k = rng.choice(hot)
        ops = rng.choices(FS_OPS, weights=FS_OPS_W)[0]
        if ops and ops[0] in ("remove", "rename") and rng.random() < 0.8:
            f = {"st": "missing"}           # the usual case: the file is gone when the notification arrives
        else:
            f = fs_file(rng, k, last)
        case["steps"].append(maybe_rej(rng, {"ops": ops, "k": k, "file": f}, [k]))
    return case


# ---------------------------------------------------------------------------------------------------------------
# file_system, real files and real fsnotify notifications

def gen_fslive(rng, max_steps=12, during=False):
    """during: rule files are replaced while `Start` is inside the first processor call of its initial load (the first
    file that holds a rule set): the file being loaded, files not yet opened, files opened already, new files."""
    state = {}          # k -> file spec currently on disk
    moved = set()       # versions that left the pool of their source
    last = {}
    init = []
    must = rng.randrange(NSRC) if during else None
    for k in range(NSRC):
        if k == must:
            spec = {"st": "valid", "v": pick_version(rng, k)}
            if rng.random() < 0.2:
                spec["link"] = True
            init.append({"k": k, "file": spec})
            state[k] = spec
            last[k] = spec["v"]
        elif rng.random() < (0.45 if during else 0.3):
            spec, v = content(rng, k, kinds=("valid", "empty"), weights=(80, 20))
            if spec.get("bad"):
                spec, v = {"st": "empty", "i": 0}, None
            r = rng.random()
            if r < 0.35:
                spec["link"] = True                       # symbolic link present before the provider starts
            elif r < 0.42:
                spec, v = {"st": "missing", "link": True}, None      # dangling link
            elif r < 0.45 and not during:
                spec, v = {"st": "dir", "link": True}, None          # link to a directory: Start fails on it
            init.append({"k": k, "file": spec})
            state[k] = spec
            if v:
                last[k] = v
    case = {"fam": "prov", "kind": "fslive", "init": init, "start": {}, "steps": []}

    def in_use():
        return {s["v"] for s in state.values() if s["st"] == "valid"} | moved

    if during:
        held = min(k for k in state if state[k]["st"] == "valid")      # ReadDir order = order of the names s0 .. s3
        case["during"] = []
        for n in range(rng.choice([1, 1, 2, 3])):
            k = held if (n == 0 and rng.random() < 0.7) else rng.randrange(NSRC)
            spec, v = content(rng, k, None, avoid=in_use(), kinds=("valid", "empty", "invalid", "gone"),
                              weights=(72, 10, 4, 14))
            if spec is None:
                if k not in state:
                    continue
                spec = {"st": "missing"}
            elif spec.get("bad"):
                spec, v = {"st": "valid", "v": spec["v"] - 1000}, spec["v"] - 1000
            if spec["st"] == "valid" and rng.random() < 0.15:
                spec["link"] = True
            if v:
                last[k] = v
            if spec["st"] == "missing":
                del state[k]
            else:
                state[k] = spec
            case["during"].append({"k": k, "file": spec})
        if not case["during"]:
            v = pick_version(rng, held, None, avoid=in_use())
            state[held] = {"st": "valid", "v": v}
            last[held] = v
            case["during"].append({"k": held, "file": state[held]})
        if held in state and not state[held].get("link") and rng.random() < 0.6:
            # the notification after the last change of the file: brings it to its latest content
            case["steps"].append({"do": "chmod", "k": held, "mode": rng.randrange(2), "file": state[held]})

    for _ in range(rng.randint(3, max_steps)):
        present = sorted(state)
        plain = [k for k in present if not state[k].get("link")]      # chmod / truncate / write go through a link to
        choices = [("put", 40)]                                        # its target and are not seen in the directory
        if present:
            choices += [("rm", 12), ("mv", 14), ("mvout", 8)]
        if plain:
            choices += [("chmod", 6), ("trunc", 6)]
            if any(state[k]["st"] == "valid" and state[k]["v"] % 5 != 0 and not state[k].get("bad") for k in plain):
                choices.append(("write", 10))
        do = rng.choices([c for c, _ in choices], weights=[w for _, w in choices])[0]
        if do == "put":
            k = rng.randrange(NSRC)
            own = state[k]["v"] if k in state and state[k]["st"] == "valid" else None
            avoid = in_use() - ({own} if own is not None and own not in moved else set())
            spec, v = content(rng, k, last.get(k), avoid=avoid, kinds=("valid", "empty", "invalid"),
                              weights=(65, 15, 20))
            if v:
                last[k] = v
            r = rng.random()
            if r < 0.25:
                spec["link"] = True          # a symbolic link is moved in (created or re-pointed atomically)
            elif r < 0.30:
                spec = {"st": "missing", "link": True}
            elif r < 0.33:
                spec = {"st": "dir", "link": True}
            state[k] = spec
            step = {"do": "put", "k": k, "file": spec}
        elif do == "rm":
            k = rng.choice(present)
            del state[k]
            step = {"do": "rm", "k": k}
        elif do == "mv":
            k = rng.choice(present)
            to = rng.choice([x for x in range(NSRC) if x != k])
            spec = state.pop(k)
            state[to] = spec
            if spec["st"] == "valid":
                moved.add(spec["v"])
            step = {"do": "mv", "k": k, "to": to, "file": spec}
        elif do == "mvout":
            k = rng.choice(present)
            del state[k]
            step = {"do": "mvout", "k": k}
        elif do == "chmod":
            k = rng.choice(plain)
            step = {"do": "chmod", "k": k, "mode": rng.randrange(2), "file": state[k]}
        elif do == "trunc":
            k = rng.choice(plain)
            state[k] = {"st": "empty", "i": 0}
            step = {"do": "trunc", "k": k}
        else:
            k = rng.choice([k for k in plain if state[k]["st"] == "valid" and state[k]["v"] % 5 != 0
                            and not state[k].get("bad")])
            old = state[k]["v"]
            cand = [v for v in range(10 * (old // 10) + 1, 10 * (old // 10) + 9)
                    if v % 5 != 0 and len(str(v)) == len(str(old)) and (v == old or v not in in_use())]
            v = rng.choice(cand)
            state[k] = {"st": "valid", "v": v}
            if old in moved:
                moved.add(v)
            step = {"do": "write", "k": k, "file": state[k]}
        # no refused calls while a content moves between sources: a rule set that could not be removed under its old
        # name would collide with itself under the new one, which is the repository's business (C06)
        case["steps"].append(step if do in ("mv", "mvout") else maybe_rej(rng, step, [step["k"]], 0.06))
    return case


# ---------------------------------------------------------------------------------------------------------------
# http_endpoint

HTTP_CODES = [400, 401, 403, 404, 404, 410, 500, 502, 503]


HTTP_LAYOUTS = [
    # endpoints that share the path and differ in the host only / in the query only; their sources must stay apart
    (20, [{"host": 0, "path": "/rules"}, {"host": 1, "path": "/rules"}]),
    (20, [{"host": 0, "path": "/rules", "query": "tenant=a"}, {"host": 0, "path": "/rules", "query": "tenant=b"}]),
    (5, [{"host": 0, "path": "/rules", "query": "tenant=a"}, {"host": 0, "path": "/rules"}]),
    (10, [{"host": 0, "path": "/r", "query": "t=a&x=1"}, {"host": 0, "path": "/r", "query": "t=a&x=2"},
          {"host": 1, "path": "/r", "query": "t=a&x=1"}]),
]


def gen_http(rng, max_steps=14):
    last = {}
    if rng.random() < 0.5:
        n = rng.choice([1, 2, 2, 3])
        case = {"fam": "prov", "kind": "http", "n": n, "steps": []}
    else:
        layout = rng.choices([l for _, l in HTTP_LAYOUTS], weights=[w for w, _ in HTTP_LAYOUTS])[0]
        n = len(layout)
        case = {"fam": "prov", "kind": "http", "n": n, "endpoints": layout, "steps": []}
    for _ in range(rng.randint(3, max_steps)):
        k = rng.randrange(n)
        r = rng.random()
        if r < 0.56:
            spec, v = content(rng, k, last.get(k), kinds=("valid", "empty", "invalid"), weights=(70, 12, 18))
            if n > 1 and spec["st"] == "valid" and not spec.get("bad") and rng.random() < 0.1:
                v = poach(rng, k, last, n)
                spec = {"st": "valid", "v": v}
            if v:
                last[k] = v
        elif r < 0.66:
            spec = {"st": "status", "code": rng.choice(HTTP_CODES)}
        elif r < 0.73:
            spec = {"st": "netfail"}
        elif r < 0.83:
            # status 200, a valid version on its way, the transfer is damaged
            spec = cut_spec(rng, pick_version(rng, k, last.get(k)))
        elif r < 0.88:
            spec = {"st": "badct", "v": pick_version(rng, k, last.get(k))}
        elif r < 0.94:
            spec = {"st": "emptyct"}
        else:
            spec = {"st": "cancel"}
        case["steps"].append(maybe_rej(rng, {"k": k, "resp": spec}, [k]))
    return case


# ---------------------------------------------------------------------------------------------------------------
# cloud_blob

BLOB_LAYOUTS = [
    # bucket j owns the sources 4j..4j+3 (keys <prefix>s0..s3). Buckets of the same name on different stores have
    # urls that differ in the query only; same store and name with disjoint prefixes differ in the prefix only.
    (25, [{"store": 0, "name": 0}, {"store": 1, "name": 0}]),
    (8, [{"store": 0, "name": 0, "prefix": "a/"}, {"store": 0, "name": 0, "prefix": "b/"}]),
    (5, [{"store": 0, "name": 0}, {"store": 0, "name": 1}]),
    (10, [{"store": 0, "name": 0}, {"store": 1, "name": 0}, {"store": 2, "name": 0}]),
    (5, [{"store": 0, "name": 0, "prefix": "x/"}, {"store": 1, "name": 0, "prefix": "x/"}, {"store": 1, "name": 1}]),
]


def gen_blob(rng, max_steps=10, netfail=0.0):
    single = rng.random() < 0.12
    last = {}
    case = {"fam": "prov", "kind": "blob", "single": single, "steps": []}
    nb = 1
    if not single and rng.random() < 0.55:
        layout = rng.choices([l for _, l in BLOB_LAYOUTS], weights=[w for w, _ in BLOB_LAYOUTS])[0]
        case["buckets"] = layout
        nb = len(layout)
        max_steps += 4
    keys = [0] if single else list(range(NSRC * nb))
    for _ in range(rng.randint(3, max_steps)):
        sets = []
        for k in rng.sample(keys, min(len(keys), rng.choice([0, 1, 1, 1, 2, 2, 3]))):
            spec, v = content(rng, k, last.get(k), weights=(58, 10, 16, 16))
            if spec is None:
                spec = {"st": "absent"}
            elif spec["st"] == "valid" and rng.random() < 0.05:
                spec["ct"] = "text"       # a content type the provider does not know
            elif spec["st"] == "valid" and not spec.get("bad") and rng.random() < (0.2 if k in last else 0.06):
                # the blob holds version v, but the GET of the object breaks off mid-body (until the blob is set anew)
                spec, v = cut_spec(rng, v, transports=("short",)), None
            if v:
                last[k] = v
            sets.append({"k": k, "blob": spec})
        step = {"set": sets}
        if nb > 1:
            step["b"] = rng.randrange(nb)       # polls of the buckets come in any order
        r = rng.random()
        if r < 0.07:
            step["fail"] = "comm"
        elif r < 0.07 + netfail:
            step["fail"] = "netfail"      # connection closed: costs seconds, the S3 client retries with back-off
        elif r < 0.13:
            step["fail"] = "cancel"
        case["steps"].append(maybe_rej(rng, step, keys, 0.12))
    return case


# ---------------------------------------------------------------------------------------------------------------
# kubernetes

def gen_k8s(rng, max_steps=10, relists=1):
    api = {}            # k -> object as the API server has it
    uid = {}
    last = {}
    count = {}

    def new_version(k):
        # rules of a resource that could not be unloaded (refused OnDeleted) stay in the repository; the same rules
        # under another uid would collide with them, which is the repository's business (C06): never reuse a version
        c = count.get(k, 0)
        count[k] = c + 1
        return 10 * k + c % 8 + 1 + 40 * (c // 8)

    def fresh(k, allow_bad=False):
        uid[k] = uid.get(k, 0) + 1
        v = new_version(k)
        last[k] = v
        o = {"uid": uid[k], "gen": 1, "cls": rng.random() < 0.8, "v": v}
        if allow_bad and o["cls"] and rng.random() < 0.06:
            # rules the processor refuses (unknown mechanism); only where the one call made is OnCreated
            o["v"] += 1000
            o["bad"] = True
        return o

    def modify(k):
        o = dict(api[k])
        r = rng.random()
        if o.pop("bad", None):
            o["v"] -= 1000
            r = 0.0
        if r < 0.6:
            o["gen"] += 1
            o["v"] = new_version(k)
        elif r < 0.75:
            pass                           # status or metadata only
        elif r < 0.9:
            o["gen"] += 1
            o["cls"] = not o["cls"]
        else:
            o["gen"] += 1                  # spec touched, rules the same
        return o

    init = []
    for k in range(NSRC):
        if rng.random() < 0.4:
            api[k] = fresh(k)
            init.append({"k": k, "obj": api[k]})
    case = {"fam": "prov", "kind": "k8s", "init": init, "start": maybe_rej(rng, {}, list(range(NSRC)), 0.05),
            "steps": []}
    left = relists
    for _ in range(rng.randint(3, max_steps)):
        r = rng.random()
        absent = [k for k in range(NSRC) if k not in api]
        if left > 0 and r < 0.14:
            left -= 1
            # what happens while the watch is down
            for _ in range(rng.randint(1, 3)):
                k = rng.randrange(NSRC)
                x = rng.random()
                if k not in api:
                    api[k] = fresh(k)
                elif x < 0.4:
                    del api[k]
                elif x < 0.6:
                    api[k] = fresh(k)          # deleted and created anew: same name, new uid
                else:
                    api[k] = modify(k)
            step = {"ev": "relist", "objs": [{"k": k, "obj": api[k]} for k in sorted(api)]}
            ks = list(range(NSRC))
        elif absent and (r < 0.4 or not api):
            k = rng.choice(absent)
            api[k] = fresh(k, allow_bad=True)
            step = {"ev": "add", "k": k, "obj": api[k]}
            ks = [k]
        elif api and r < 0.8:
            k = rng.choice(sorted(api))
            api[k] = modify(k)
            step = {"ev": rng.choices(["mod", "add"], weights=[95, 5])[0], "k": k, "obj": api[k]}
            ks = [k]
        elif api:
            k = rng.choice(sorted(api))
            step = {"ev": "del", "k": k, "obj": api.pop(k)}
            ks = [k]
        else:
            k = rng.randrange(NSRC)
            step = {"ev": "del", "k": k, "obj": {"uid": uid.get(k, 1), "gen": 1, "cls": True, "v": pool(k)[0]}}
            ks = [k]
        case["steps"].append(maybe_rej(rng, step, ks, 0.08))
    return case


def gen_fsduring(rng):
    return gen_fslive(rng, max_steps=6, during=True)


GENS = {"fs": gen_fs, "fslive": gen_fslive, "fsduring": gen_fsduring, "http": gen_http, "blob": gen_blob, "k8s": gen_k8s}


def gen_case(rng, kind):
    return GENS[kind](rng)
